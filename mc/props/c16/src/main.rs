//! C16 — k-fold, train/test split, cross-validation never leak.
//!
//! E1 over (n, k, shuffle schedule): the shuffles are answered through the `verif-hooks` seam, so
//! every permutation the library's RNG could draw is enumerated for small n, and all schedules with
//! at most two non-identity Fisher-Yates steps for larger n.

use mc_core::{self as mc, json, Harness, Job, Plan, Tier, Value};
use mc_sc::{own_rng, perm_from_answers, release_rng, take_draws, Draw, RngMode};
use smartcore::api::Predictor;
use smartcore::error::Failed;
use smartcore::linalg::naive::dense_matrix::DenseMatrix;
use smartcore::linalg::BaseMatrix;
use smartcore::model_selection::{cross_val_predict, cross_validate, train_test_split, BaseKFold, KFold};
use std::cell::RefCell;

struct C16;

fn data(n: usize) -> (DenseMatrix<f64>, Vec<f64>) {
    let mut x = DenseMatrix::<f64>::zeros(n, 2);
    let mut y = vec![0.0; n];
    for i in 0..n {
        x.set(i, 0, i as f64);
        x.set(i, 1, (i * 10 + 1) as f64);
        y[i] = 1000.0 + i as f64;
    }
    (x, y)
}

fn row_ids(x: &DenseMatrix<f64>) -> Vec<usize> {
    (0..x.shape().0).map(|i| x.get(i, 0) as usize).collect()
}

const TEST_SIZES: &[f32] = &[0.2, 0.33, 0.5, 0.7, 1.0, 0.03125, 0.0625, 0.09375, 0.125, 0.25, 0.375, 0.625, 0.75, 0.875, 0.96875, 0.1, 0.3, 0.9];

#[derive(Clone)]
struct NoParams;

struct Spy {
    id: usize,
}

impl Predictor<DenseMatrix<f64>, Vec<f64>> for Spy {
    fn predict(&self, x: &DenseMatrix<f64>) -> Result<Vec<f64>, Failed> {
        Ok(row_ids(x).iter().map(|r| (self.id * 1000 + r) as f64).collect())
    }
}

/// Checks the k (train, test) pairs of one split. `perm` is the permutation the seam produced when
/// shuffling was requested.
fn check_folds(site: &str, n: usize, k: usize, folds: &[(Vec<usize>, Vec<usize>)], perm: Option<&[usize]>) {
    if folds.len() != k {
        mc::violation(format!("{}:fold-count", site), format!("n={} k={}: {} (train,test) pairs instead of k", n, k, folds.len()));
        return;
    }
    let mut seen = vec![0usize; n];
    let (mut lo, mut hi) = (usize::MAX, 0usize);
    let mut start = 0usize;
    for (f, (train, test)) in folds.iter().enumerate() {
        lo = lo.min(test.len());
        hi = hi.max(test.len());
        for &i in test {
            if i >= n {
                mc::violation(format!("{}:index-range", site), format!("n={} k={}: test index {} out of range", n, k, i));
                return;
            }
            seen[i] += 1;
        }
        let mut in_test = vec![false; n];
        test.iter().for_each(|&i| in_test[i] = true);
        let mut comp: Vec<usize> = (0..n).filter(|i| !in_test[*i]).collect();
        let mut tr = train.clone();
        tr.sort_unstable();
        comp.sort_unstable();
        if tr != comp {
            mc::violation(format!("{}:train-not-complement", site), format!("n={} k={} fold {}: train {:?} is not the complement of test {:?}", n, k, f, train, test));
        }
        match perm {
            None => {
                let want: Vec<usize> = (start..start + test.len()).collect();
                if *test != want {
                    mc::violation(format!("{}:not-consecutive", site), format!("n={} k={} fold {}: unshuffled test set {:?} is not the consecutive block {:?}", n, k, f, test, want));
                }
            }
            // shuffled: the statement only requires the partition properties for SOME random
            // permutation; which permutation a given answer sequence produces is an implementation detail
            Some(_) => {}
        }
        start += test.len();
    }
    if seen.iter().any(|&c| c != 1) {
        mc::violation(format!("{}:not-partition", site), format!("n={} k={}: test sets do not partition 0..n-1 (cover counts {:?})", n, k, seen));
    }
    if hi - lo > 1 {
        mc::violation(format!("{}:unbalanced", site), format!("n={} k={}: test set sizes range from {} to {}", n, k, lo, hi));
    }
}

fn kfold_case(n: usize, k: usize, shuffle: bool, mode: RngMode) {
    let (x, _) = data(n);
    own_rng(mode);
    let r = mc::guard(|| {
        let mut it = KFold { n_splits: k, shuffle }.split(&x);
        let mut folds = Vec::new();
        let mut guard_n = 0;
        while let Some(p) = it.next() {
            folds.push(p);
            guard_n += 1;
            if guard_n > 2 * k + 4 {
                break;
            }
        }
        // the iterator is exhausted for good
        let after: Vec<bool> = (0..3).map(|_| it.next().is_none()).collect();
        (folds, after)
    });
    let draws = take_draws();
    release_rng();
    let site = if shuffle { "kfold.shuffle" } else { "kfold.plain" };
    let (folds, after) = match r {
        Ok(v) => v,
        Err(p) => {
            mc::violation(format!("{}:panic", site), format!("n={} k={}: {}", n, k, p.brief()));
            return;
        }
    };
    if after.iter().any(|b| !*b) {
        mc::violation(format!("{}:iterator-not-exhausted", site), format!("n={} k={}: next() yields items after the k-th", n, k));
    }
    let answers: Vec<usize> = draws.iter().filter(|d| d.0 == Draw::KFoldShuffle).map(|d| d.2).collect();
    let perm = if shuffle {
        if answers.is_empty() && n >= 2 {
            mc::violation("kfold.shuffle:no-permutation-drawn", format!("n={} k={}: shuffling requested but no random draw was made", n, k));
            return;
        }
        Some(perm_from_answers(n, &answers))
    } else {
        if !draws.is_empty() {
            mc::violation("kfold.plain:draws-without-shuffle", format!("n={} k={}: {} random draws with shuffle off", n, k, draws.len()));
        }
        None
    };
    check_folds(site, n, k, &folds, perm.as_deref());
    // positional consumption of the fold iterator (unshuffled: every split call yields the same folds):
    // nth(j), skip(j).next() and step_by(2) must deliver the very folds that next() delivers
    if !shuffle && n <= 24 {
        let j = mc::choose(k + 1);
        let pos = mc::guard(|| {
            let a = KFold { n_splits: k, shuffle: false }.split(&x).nth(j);
            let b = KFold { n_splits: k, shuffle: false }.split(&x).skip(j).next();
            let c: Vec<_> = KFold { n_splits: k, shuffle: false }.split(&x).step_by(2).collect();
            let d = KFold { n_splits: k, shuffle: false }.split(&x).count();
            (a, b, c, d)
        });
        match pos {
            Ok((a, b, c, d)) => {
                let want = folds.get(j).cloned();
                if a != want || b != want {
                    mc::violation("kfold.plain:positional-consumption", format!("n={} k={}: split().nth({}) = {:?}, skip({}).next() = {:?}, but the {}-th fold delivered by next() is {:?}", n, k, j, a.map(|f| f.1), j, b.map(|f| f.1), j, want.map(|f| f.1)));
                }
                let want_c: Vec<_> = folds.iter().step_by(2).cloned().collect();
                if c != want_c || d != k {
                    mc::violation("kfold.plain:positional-consumption", format!("n={} k={}: step_by(2) yields {} folds (expected {}), count() = {} (expected {})", n, k, c.len(), want_c.len(), d, k));
                }
                mc::count("kfold_positional_consumption");
            }
            Err(p) => mc::violation("kfold.plain:positional-consumption:panic", format!("n={} k={}: {}", n, k, p.brief())),
        }
    }
    if n % k != 0 {
        mc::count("uneven_folds");
    }
    if shuffle && perm.as_ref().map(|p| p.iter().enumerate().any(|(i, v)| i != *v)).unwrap_or(false) {
        mc::count("non_identity_permutations");
    }
    mc::nontrivial();
    mc::outcome(folds.iter().fold(17, |h, (_, t)| mc::hash::mix(h, mc::hash::h_usizes(t))));
    mc::describe(|| json!({"op": "KFold.split", "n": n, "k": k, "shuffle": shuffle, "permutation": perm, "test_sets": folds.iter().map(|f| f.1.clone()).collect::<Vec<_>>()}));
}

fn split_case(n: usize, ts: f32, shuffle: bool, mode: RngMode) {
    let (x, y) = data(n);
    let n_test = ((n as f32) * ts) as usize;
    if n_test < 1 {
        mc::count("split_outside_domain");
        return;
    }
    own_rng(mode);
    let r = mc::guard(|| train_test_split(&x, &y, ts, shuffle));
    let draws = take_draws();
    release_rng();
    let site = if shuffle { "split.shuffle" } else { "split.plain" };
    let (xtr, xte, ytr, yte) = match r {
        Ok(v) => v,
        Err(p) => {
            mc::violation(format!("{}:panic", site), format!("n={} test_size={}: {}", n, ts, p.brief()));
            return;
        }
    };
    let (tr, te) = (row_ids(&xtr), row_ids(&xte));
    if te.len() != n_test || xte.shape().0 != yte.len() {
        mc::violation(format!("{}:test-size", site), format!("n={} test_size={}: test part has {} rows / {} targets, expected floor_f32(n*test_size)={}", n, ts, te.len(), yte.len(), n_test));
    }
    if tr.len() != ytr.len() || tr.len() + te.len() != n {
        mc::violation(format!("{}:sizes", site), format!("n={} test_size={}: train {} rows / {} targets, test {} rows", n, ts, tr.len(), ytr.len(), te.len()));
        return;
    }
    let mut all: Vec<usize> = tr.iter().chain(te.iter()).cloned().collect();
    all.sort_unstable();
    if all != (0..n).collect::<Vec<_>>() {
        mc::violation(format!("{}:not-a-permutation", site), format!("n={} test_size={}: train rows {:?} + test rows {:?} are not a permutation of the input rows", n, ts, tr, te));
    }
    for (part, xs, ids, ys) in [("train", &xtr, &tr, &ytr), ("test", &xte, &te, &yte)] {
        for (i, &r) in ids.iter().enumerate() {
            if xs.get(i, 1) != (r * 10 + 1) as f64 {
                mc::violation(format!("{}:row-torn", site), format!("n={} test_size={}: {} row {} mixes columns of different input rows", n, ts, part, i));
            }
            if ys[i] != 1000.0 + r as f64 {
                mc::violation(format!("{}:target-detached", site), format!("n={} test_size={}: {} row {} is input row {} but carries target {}", n, ts, part, i, r, ys[i]));
            }
        }
    }
    let answers: Vec<usize> = draws.iter().filter(|d| d.0 == Draw::SplitShuffle).map(|d| d.2).collect();
    if shuffle {
        if n >= 2 && answers.is_empty() {
            mc::violation("split.shuffle:no-permutation-drawn", format!("n={} test_size={}: shuffling requested but no random draw was made", n, ts));
        }
    } else {
        if te != (0..n_test).collect::<Vec<_>>() || tr != (n_test..n).collect::<Vec<_>>() {
            mc::violation("split.plain:not-leading-rows", format!("n={} test_size={}: unshuffled test rows {:?} / train rows {:?} are not the leading / trailing rows in order", n, ts, te, tr));
        }
        if !draws.is_empty() {
            mc::violation("split.plain:draws-without-shuffle", format!("n={}: {} random draws with shuffle off", n, draws.len()));
        }
    }
    if n_test == n {
        mc::count("split_empty_train");
    }
    mc::nontrivial();
    mc::outcome(mc::hash::mix(mc::hash::h_usizes(&te), mc::hash::h_usizes(&tr)));
    mc::describe(|| json!({"op": "train_test_split", "n": n, "test_size": ts, "shuffle": shuffle, "fisher_yates_answers": answers, "test_rows": te, "train_rows": tr}));
}

#[derive(Default)]
struct Log {
    fits: Vec<(Vec<usize>, Vec<f64>)>,
    scores: Vec<(Vec<f64>, Vec<f64>)>,
}

fn cv_case(n: usize, k: usize, shuffle: bool, mode: RngMode) {
    let (x, y) = data(n);
    // ---- cross_validate
    let log = RefCell::new(Log::default());
    own_rng(mode);
    let r = mc::guard(|| {
        cross_validate(
            |tx: &DenseMatrix<f64>, ty: &Vec<f64>, _p: NoParams| {
                let mut l = log.borrow_mut();
                l.fits.push((row_ids(tx), ty.clone()));
                Ok::<Spy, Failed>(Spy { id: l.fits.len() })
            },
            &x,
            &y,
            NoParams,
            KFold { n_splits: k, shuffle },
            |yt: &Vec<f64>, yp: &Vec<f64>| {
                let mut l = log.borrow_mut();
                l.scores.push((yt.clone(), yp.clone()));
                l.scores.len() as f64
            },
        )
    });
    release_rng();
    let site = "cross_validate";
    match r {
        Err(p) => mc::violation(format!("{}:panic", site), format!("n={} k={}: {}", n, k, p.brief())),
        Ok(Err(e)) => mc::violation(format!("{}:error", site), format!("n={} k={}: {}", n, k, e)),
        Ok(Ok(res)) => {
            let l = log.borrow();
            if l.fits.len() != k || l.scores.len() != 2 * k || res.test_score.len() != k || res.train_score.len() != k {
                mc::violation(format!("{}:fold-count", site), format!("n={} k={}: {} fits, {} score calls, {} test scores", n, k, l.fits.len(), l.scores.len(), res.test_score.len()));
            } else {
                let mut covered = vec![0usize; n];
                for f in 0..k {
                    let (train_rows, train_y) = &l.fits[f];
                    let model = f + 1;
                    if train_y.iter().zip(train_rows).any(|(t, r)| *t != 1000.0 + *r as f64) {
                        mc::violation(format!("{}:target-detached", site), format!("n={} k={} fold {}: a training target does not belong to its row", n, k, f));
                    }
                    let (tr_true, tr_pred) = &l.scores[2 * f];
                    let (te_true, te_pred) = &l.scores[2 * f + 1];
                    // the training score compares the fold's own training targets with this model's predictions on them
                    let want_tr_pred: Vec<f64> = train_rows.iter().map(|r| (model * 1000 + r) as f64).collect();
                    if tr_true != train_y || *tr_pred != want_tr_pred {
                        mc::violation(format!("{}:train-score-rows", site), format!("n={} k={} fold {}: training score not computed from this fold's model on its training rows", n, k, f));
                    }
                    let held: Vec<usize> = te_true.iter().map(|t| (*t - 1000.0) as usize).collect();
                    let want_te_pred: Vec<f64> = held.iter().map(|r| (model * 1000 + r) as f64).collect();
                    if *te_pred != want_te_pred {
                        mc::violation(format!("{}:test-score-rows", site), format!("n={} k={} fold {}: test score not computed from this fold's model on its held-out rows (targets of rows {:?}, predictions {:?})", n, k, f, held, te_pred));
                    }
                    let mut all: Vec<usize> = train_rows.iter().chain(held.iter()).cloned().collect();
                    all.sort_unstable();
                    if all != (0..n).collect::<Vec<_>>() {
                        mc::violation(format!("{}:leak", site), format!("n={} k={} fold {}: fitted on rows {:?}, scored on rows {:?} — not complementary", n, k, f, train_rows, held));
                    }
                    for &h in &held {
                        if h < n {
                            covered[h] += 1;
                        }
                    }
                    if res.test_score[f] != (2 * f + 2) as f64 || res.train_score[f] != (2 * f + 1) as f64 {
                        mc::violation(format!("{}:score-placement", site), format!("n={} k={} fold {}: scores stored out of place", n, k, f));
                    }
                }
                if covered.iter().any(|c| *c != 1) {
                    mc::violation(format!("{}:not-partition", site), format!("n={} k={}: held-out sets do not partition the rows ({:?})", n, k, covered));
                }
                mc::outcome(l.fits.iter().fold(3, |h, f| mc::hash::mix(h, mc::hash::h_usizes(&f.0))));
            }
        }
    }
    // ---- cross_validate with an estimator whose fit FAILS on one fold: the failure must surface
    // (Err), never an Ok with fewer than k scores
    if !shuffle && n <= 12 {
        let fail_at = mc::choose(k);
        let calls = RefCell::new(0usize);
        let r = mc::guard(|| {
            cross_validate(
                |_tx: &DenseMatrix<f64>, _ty: &Vec<f64>, _p: NoParams| {
                    let mut c = calls.borrow_mut();
                    *c += 1;
                    if *c == fail_at + 1 {
                        Err(Failed::fit("instrumented failure"))
                    } else {
                        Ok::<Spy, Failed>(Spy { id: *c })
                    }
                },
                &x,
                &y,
                NoParams,
                KFold { n_splits: k, shuffle: false },
                |_yt: &Vec<f64>, _yp: &Vec<f64>| 1.0,
            )
        });
        match r {
            Ok(Ok(res)) => mc::violation("cross_validate:fit-error-swallowed", format!("n={} k={}: the estimator failed on fold {} but cross_validate returned Ok with {} test scores", n, k, fail_at, res.test_score.len())),
            Ok(Err(_)) => mc::count("cv_failing_fold_reported"),
            Err(p) => mc::violation("cross_validate:fit-error:panic", format!("n={} k={}: {}", n, k, p.brief())),
        }
    }
    // ---- cross_val_predict
    let log2 = RefCell::new(Log::default());
    own_rng(mode);
    let r = mc::guard(|| {
        cross_val_predict(
            |tx: &DenseMatrix<f64>, ty: &Vec<f64>, _p: NoParams| {
                let mut l = log2.borrow_mut();
                l.fits.push((row_ids(tx), ty.clone()));
                Ok::<Spy, Failed>(Spy { id: l.fits.len() })
            },
            &x,
            &y,
            NoParams,
            KFold { n_splits: k, shuffle },
        )
    });
    release_rng();
    let site = "cross_val_predict";
    match r {
        Err(p) => mc::violation(format!("{}:panic", site), format!("n={} k={}: {}", n, k, p.brief())),
        Ok(Err(e)) => mc::violation(format!("{}:error", site), format!("n={} k={}: {}", n, k, e)),
        Ok(Ok(yhat)) => {
            let l = log2.borrow();
            if l.fits.len() != k || yhat.len() != n {
                mc::violation(format!("{}:fold-count", site), format!("n={} k={}: {} fits, {} predictions", n, k, l.fits.len(), yhat.len()));
            } else {
                for i in 0..n {
                    let v = yhat[i] as usize;
                    let (model, row) = (v / 1000, v % 1000);
                    if model < 1 || model > k {
                        mc::violation(format!("{}:missing-prediction", site), format!("n={} k={}: row {} received no out-of-fold prediction (value {})", n, k, i, yhat[i]));
                        continue;
                    }
                    if row != i {
                        mc::violation(format!("{}:misplaced", site), format!("n={} k={}: position {} holds the prediction made for row {}", n, k, i, row));
                    }
                    if l.fits[model - 1].0.contains(&i) {
                        mc::violation(format!("{}:leak", site), format!("n={} k={}: row {} predicted by model {} which was fitted on it", n, k, i, model));
                    }
                }
                mc::outcome(mc::hash::h_f64s(&yhat));
            }
        }
    }
    mc::nontrivial();
    mc::describe(|| json!({"op": "cross_validate+cross_val_predict", "n": n, "k": k, "shuffle": shuffle, "fitted_on": log.borrow().fits.iter().map(|f| f.0.clone()).collect::<Vec<_>>()}));
}

/// A splitter written by the user: the folds are whatever it lists (test rows in any order, training
/// rows not necessarily the complement — purged or gapped schemes).
struct Listed {
    folds: Vec<(Vec<usize>, Vec<usize>)>,
}

impl BaseKFold for Listed {
    type Output = std::vec::IntoIter<(Vec<usize>, Vec<usize>)>;
    fn split<T: smartcore::math::num::RealNumber, M: smartcore::linalg::Matrix<T>>(&self, _x: &M) -> Self::Output {
        self.folds.clone().into_iter()
    }
    fn n_splits(&self) -> usize {
        self.folds.len()
    }
}

/// Round 9: cross_validate / cross_val_predict driven by a user-written splitter. Two folds; fold 0
/// holds out an ordered pair of rows (either order), fold 1 a single other row; each training list is
/// the complement with possibly one more row purged, ascending or descending. "That fold's training
/// rows" are the rows the splitter lists, in its order; predictions go to the listed positions.
fn cv_listed_case(n: usize) {
    let (x, y) = data(n);
    let a = mc::choose(n);
    let b = (a + 1 + mc::choose(n - 1)) % n;
    let rest: Vec<usize> = (0..n).filter(|i| *i != a && *i != b).collect();
    let c = rest[mc::choose(rest.len())];
    let mut folds = Vec::new();
    for test in [vec![a, b], vec![c]] {
        let mut train: Vec<usize> = (0..n).filter(|i| !test.contains(i)).collect();
        let purge = mc::choose(train.len() + 1);
        if purge < train.len() && train.len() > 1 {
            train.remove(purge);
        }
        if mc::choose(2) == 1 {
            train.reverse();
        }
        folds.push((train, test));
    }
    let ctx = format!("n={} listed folds (train,test) {:?}", n, folds);
    let log = RefCell::new(Log::default());
    let r = mc::guard(|| {
        cross_validate(
            |tx: &DenseMatrix<f64>, ty: &Vec<f64>, _p: NoParams| {
                let mut l = log.borrow_mut();
                l.fits.push((row_ids(tx), ty.clone()));
                Ok::<Spy, Failed>(Spy { id: l.fits.len() })
            },
            &x,
            &y,
            NoParams,
            Listed { folds: folds.clone() },
            |yt: &Vec<f64>, yp: &Vec<f64>| {
                let mut l = log.borrow_mut();
                l.scores.push((yt.clone(), yp.clone()));
                l.scores.len() as f64
            },
        )
    });
    let site = "cross_validate:listed-folds";
    match r {
        Err(p) => mc::violation(format!("{}:panic", site), format!("{}: {}", ctx, p.brief())),
        Ok(Err(e)) => mc::violation(format!("{}:error", site), format!("{}: {}", ctx, e)),
        Ok(Ok(_)) => {
            let l = log.borrow();
            if l.fits.len() != 2 || l.scores.len() != 4 {
                mc::violation(format!("{}:fold-count", site), format!("{}: {} fits, {} score calls", ctx, l.fits.len(), l.scores.len()));
            } else {
                for f in 0..2 {
                    let (train, test) = &folds[f];
                    let want_y: Vec<f64> = train.iter().map(|r| 1000.0 + *r as f64).collect();
                    if l.fits[f].0 != *train || l.fits[f].1 != want_y {
                        mc::violation(format!("{}:not-the-listed-training-rows", site), format!("{}: fold {} was fitted on rows {:?} with targets {:?}", ctx, f, l.fits[f].0, l.fits[f].1));
                    }
                    let (te_true, te_pred) = &l.scores[2 * f + 1];
                    let want_true: Vec<f64> = test.iter().map(|r| 1000.0 + *r as f64).collect();
                    let want_pred: Vec<f64> = test.iter().map(|r| ((f + 1) * 1000 + r) as f64).collect();
                    if *te_true != want_true || *te_pred != want_pred {
                        mc::violation(format!("{}:not-the-listed-held-out-rows", site), format!("{}: fold {} was scored on targets {:?} / predictions {:?}", ctx, f, te_true, te_pred));
                    }
                }
            }
        }
    }
    let log2 = RefCell::new(Log::default());
    let r = mc::guard(|| {
        cross_val_predict(
            |tx: &DenseMatrix<f64>, ty: &Vec<f64>, _p: NoParams| {
                let mut l = log2.borrow_mut();
                l.fits.push((row_ids(tx), ty.clone()));
                Ok::<Spy, Failed>(Spy { id: l.fits.len() })
            },
            &x,
            &y,
            NoParams,
            Listed { folds: folds.clone() },
        )
    });
    let site = "cross_val_predict:listed-folds";
    match r {
        Err(p) => mc::violation(format!("{}:panic", site), format!("{}: {}", ctx, p.brief())),
        Ok(Err(e)) => mc::violation(format!("{}:error", site), format!("{}: {}", ctx, e)),
        Ok(Ok(yhat)) => {
            let l = log2.borrow();
            if l.fits.len() != 2 || yhat.len() != n {
                mc::violation(format!("{}:fold-count", site), format!("{}: {} fits, {} predictions", ctx, l.fits.len(), yhat.len()));
            } else {
                for f in 0..2 {
                    let (train, test) = &folds[f];
                    if l.fits[f].0 != *train {
                        mc::violation(format!("{}:not-the-listed-training-rows", site), format!("{}: fold {} was fitted on rows {:?}", ctx, f, l.fits[f].0));
                    }
                    for r in test {
                        if yhat[*r] != ((f + 1) * 1000 + r) as f64 {
                            mc::violation(format!("{}:misplaced", site), format!("{}: position {} holds {} instead of model {}'s prediction for row {}", ctx, r, yhat[*r], f + 1, r));
                        }
                    }
                }
                mc::outcome(mc::hash::h_f64s(&yhat));
            }
        }
    }
    mc::count("cv_listed_folds");
    mc::nontrivial();
    mc::describe(|| json!({"op": "cross_validate+cross_val_predict (listed folds)", "n": n, "folds": folds}));
}

impl Harness for C16 {
    fn id(&self) -> &'static str {
        "C16"
    }

    fn plan(&self, tier: Tier, _seed: u64) -> Plan {
        let t = tier.is_thorough();
        let mut jobs = Vec::new();
        for n in 2..=64usize {
            jobs.push(Job::new(format!("kfold-plain-n{}", n), json!({"kind": "kfold", "n": n, "shuffle": false})));
        }
        // beyond the exhaustive range: fold counts around byte / word boundaries and leave-one-out on
        // larger inputs (every k in the listed set for each n)
        for n in [255usize, 256, 257, 300, 513] {
            jobs.push(Job::new(format!("kfold-plain-large-n{}", n), json!({"kind": "kfold-large", "n": n, "shuffle": false})));
            jobs.push(Job::new(format!("cv-plain-large-n{}", n), json!({"kind": "cv-large", "n": n, "shuffle": false})));
        }
        for n in 1..=64usize {
            jobs.push(Job::new(format!("split-plain-n{}", n), json!({"kind": "split", "n": n, "shuffle": false})));
        }
        let nmax_all = if t { 10 } else { 7 };
        for n in 2..=nmax_all {
            if n >= 9 {
                // 9! and 10! permutations: one job per k / per test size, so that the space is spread
                // over the workers
                for k in 2..=n {
                    jobs.push(Job::new(format!("kfold-shuffle-all-n{}-k{}", n, k), json!({"kind": "kfold", "n": n, "shuffle": true, "k": k})));
                }
                for (i, _) in TEST_SIZES.iter().enumerate() {
                    jobs.push(Job::new(format!("split-shuffle-all-n{}-ts{}", n, i), json!({"kind": "split", "n": n, "shuffle": true, "ts": i})));
                }
                continue;
            }
            jobs.push(Job::new(format!("kfold-shuffle-all-n{}", n), json!({"kind": "kfold", "n": n, "shuffle": true})));
            jobs.push(Job::new(format!("split-shuffle-all-n{}", n), json!({"kind": "split", "n": n, "shuffle": true})));
        }
        for n in 2..=(if t { 64usize } else { 24 }) {
            jobs.push(Job::new(format!("cv-plain-n{}", n), json!({"kind": "cv", "n": n, "shuffle": false})));
        }
        for n in 2..=(if t { 7 } else { 5 }) {
            jobs.push(Job::new(format!("cv-shuffle-all-n{}", n), json!({"kind": "cv", "n": n, "shuffle": true})));
        }
        let (dev_hi, dev_b) = if t { (24, 2) } else { (16, 2) };
        for n in (nmax_all + 1)..=dev_hi {
            jobs.push(Job::new(format!("kfold-shuffle-dev{}-n{}", dev_b, n), json!({"kind": "kfold", "n": n, "shuffle": true, "dev": true})).with_dev_bound(dev_b));
            jobs.push(Job::new(format!("split-shuffle-dev{}-n{}", dev_b, n), json!({"kind": "split", "n": n, "shuffle": true, "dev": true})).with_dev_bound(dev_b));
        }
        if t {
            // three non-identity steps on the smaller sizes
            for n in (nmax_all + 1)..=14 {
                jobs.push(Job::new(format!("kfold-shuffle-dev3-n{}", n), json!({"kind": "kfold", "n": n, "shuffle": true, "dev": true})).with_dev_bound(3));
                jobs.push(Job::new(format!("split-shuffle-dev3-n{}", n), json!({"kind": "split", "n": n, "shuffle": true, "dev": true})).with_dev_bound(3));
            }
        }
        for n in 6..=(if t { 16 } else { 12 }) {
            jobs.push(Job::new(format!("cv-shuffle-dev2-n{}", n), json!({"kind": "cv", "n": n, "shuffle": true, "dev": true})).with_dev_bound(2));
        }
        // call sequences (every schedule of the first, shuffled call)
        for n in 2..=(if t { 6usize } else { 5 }) {
            jobs.push(Job::new(format!("seq-n{}", n), json!({"kind": "seq", "n": n, "shuffle": true})));
        }
        // large folds under shuffling: every schedule with at most one non-identity Fisher-Yates step
        // (thorough: two on n = 32)
        for n in [32usize, 33, 48, 64] {
            jobs.push(Job::new(format!("kfold-shuffle-dev1-n{}", n), json!({"kind": "kfold", "n": n, "shuffle": true, "dev": true})).with_dev_bound(1));
            jobs.push(Job::new(format!("split-shuffle-dev1-n{}", n), json!({"kind": "split", "n": n, "shuffle": true, "dev": true})).with_dev_bound(1));
            jobs.push(Job::new(format!("cv-shuffle-dev1-n{}", n), json!({"kind": "cv", "n": n, "shuffle": true, "dev": true, "k": 2 + n % 3})).with_dev_bound(1));
        }
        if t {
            jobs.push(Job::new("kfold-shuffle-dev2-n32", json!({"kind": "kfold", "n": 32, "shuffle": true, "dev": true})).with_dev_bound(2));
        }
        for n in 4..=(if t { 8usize } else { 6 }) {
            jobs.push(Job::new(format!("cv-listed-n{}", n), json!({"kind": "cv-listed", "n": n, "shuffle": false})));
        }
        let jobs = {
            let mut j: Vec<Job> = jobs;
            j.insert(0, Job::new("builders", json!({"kind": "builders"})));
            j
        };
        Plan {
            jobs,
            budget_s: if t { 1500 } else { 40 },
            case_deadline_ms: 20_000,
            floors: vec![
                ("builder_chains", 5),("uneven_folds", 100), ("non_identity_permutations", 100), ("split_empty_train", 10), ("large_fold_counts", 50), ("call_sequences_shuffled_then_plain", 1000), ("kfold_positional_consumption", 1000), ("cv_failing_fold_reported", 500), ("cv_listed_folds", 1000)],
            bounds: json!({
                "builders": mc_sc::builders::BOUNDS,
                "positional_and_failures": "unshuffled KFold n<=24: nth(j), skip(j).next(), step_by(2), count() against the folds next() delivers, every j<=k; cross_validate with an estimator failing on fold f (every f), n<=12: the failure must be returned",
                "call_sequences": "n<=5 (6): {KFold, cross-validation, train/test split} with shuffling (every schedule) followed on the same thread by an unshuffled KFold / cross-validation of the same size, every (k1,k2)",
                "shuffled_large_folds": "n in {32,33,48,64}: KFold (every k), split (every test size) and cross_val (one k) under every schedule with at most one non-identity Fisher-Yates step (two for n=32 in thorough)",
                "kfold_unshuffled": "every 2<=k<=n<=64; plus n in {255,256,257,300,513} with k in {2,3,7,64,127..129,200,255..258,300,511..513,n}",
                "split_unshuffled": format!("every 1<=n<=64 x {} test sizes with floor_f32(n*ts)>=1", TEST_SIZES.len()),
                "shuffled_all_permutations": format!("every Fisher-Yates answer sequence (all n! permutations) for n<={} (kfold: every k; split: every test size), cv n<={}", nmax_all, if t { 7 } else { 5 }),
                "shuffled_deviation_bounded": format!("n<={}: every schedule with at most {} non-identity Fisher-Yates steps{}", dev_hi, dev_b, if t { "; n<=14: at most 3" } else { "" }),
                "cross_validation": "spy estimator, every 2<=k<=n<=24 unshuffled",
                "cross_validation_listed_folds": "a user-written splitter with two listed folds on n in 4..=6 (8 thorough) rows: fold 0 holds out every ordered pair of rows, fold 1 every other single row; each training list = complement, optionally with one more row purged, ascending or descending; fitted rows, scored rows and prediction positions must be exactly the listed ones",
            }),
        }
    }

    fn run(&self, job: &Job) {
        if job.kind() == "builders" {
            return mc_sc::builders::run("C16");
        }
        let n = job.u("n");
        let shuffle = job.b("shuffle");
        let mode = if job.b("dev") { RngMode::Deviations } else { RngMode::All };
        match job.kind() {
            "kfold" => {
                // large all-permutation spaces are split into one job per k
                let k = match job.params.get("k").and_then(|v| v.as_u64()) {
                    Some(k) => k as usize,
                    None => 2 + mc::choose(n - 1),
                };
                kfold_case(n, k, shuffle, mode);
            }
            "split" => {
                let ts = match job.params.get("ts").and_then(|v| v.as_u64()) {
                    Some(i) => TEST_SIZES[i as usize],
                    None => mc::pick(TEST_SIZES),
                };
                split_case(n, ts, shuffle, mode);
            }
            "cv" => {
                let k = match job.params.get("k").and_then(|v| v.as_u64()) {
                    Some(k) => k as usize,
                    None => 2 + mc::choose(n - 1),
                };
                cv_case(n, k, shuffle, mode);
            }
            "cv-listed" => cv_listed_case(n),
            "kfold-large" | "cv-large" => {
                let ks: Vec<usize> = [2usize, 3, 7, 64, 127, 128, 129, 200, 255, 256, 257, 258, 300, 511, 512, 513].iter().cloned().filter(|k| *k <= n).chain(std::iter::once(n)).collect();
                let k = mc::pick(&ks);
                if job.kind() == "kfold-large" {
                    kfold_case(n, k, shuffle, mode);
                } else {
                    cv_case(n, k, shuffle, mode);
                }
                mc::count("large_fold_counts");
            }
            // call sequences on one thread: a shuffled split / cross-validation followed by an
            // UNSHUFFLED one of the same size must leave no trace in the second (state that survives
            // between calls: cached index buffers, thread-locals)
            "seq" => {
                let k1 = 2 + mc::choose(n - 1);
                let k2 = 2 + mc::choose(n - 1);
                match mc::choose(3) {
                    0 => {
                        kfold_case(n, k1, true, mode);
                        kfold_case(n, k2, false, mode);
                    }
                    1 => {
                        cv_case(n, k1, true, mode);
                        cv_case(n, k2, false, mode);
                    }
                    _ => {
                        split_case(n, mc::pick(TEST_SIZES), true, mode);
                        kfold_case(n, k2, false, mode);
                    }
                }
                mc::count("call_sequences_shuffled_then_plain");
            }
            "builders" => mc_sc::builders::run("C16"),
            other => panic!("unknown job kind {}", other),
        }
    }

    fn cleanup(&self) {
        release_rng();
    }

    fn rule(&self) -> String {
        "one execution = one (operation, n, k or test_size, shuffle schedule); every execution that returns is non-trivial; distinct = distinct digest of the returned index sets / fitted-row sets".into()
    }

    fn assumptions(&self) -> Vec<String> {
        vec![
            "the chooser-driven Fisher-Yates of the verif-hooks seam produces exactly the set of permutations rand's shuffle can produce (all n!)".into(),
            "rows are identified by their content (column 0 = row index), targets by 1000 + row index".into(),
            "the RNG call sites of /repo/src equal /verif/rng_sites.allow (checked at start-up)".into(),
        ]
    }
}

fn main() {
    if let Err(e) = mc_sc::check_rng_sites() {
        eprintln!("MACHINERY-ERROR: {}", e);
        std::process::exit(2);
    }
    mc::main(C16)
}

#[allow(dead_code)]
fn _v(_: Value) {}
