//! Reference definitions for C15 (textbook formulas on exact integer counts) and the structured
//! input families. Nothing here shares code with /repo.

/// Binary confusion counts of (truth, prediction) pairs.
#[derive(Clone, Copy, Debug, PartialEq, Eq)]
pub struct Conf {
    pub tp: u64,
    pub fp: u64,
    pub fn_: u64,
    pub tn: u64,
}

pub fn confusion(yt: &[u8], yp: &[u8]) -> Conf {
    let mut c = Conf { tp: 0, fp: 0, fn_: 0, tn: 0 };
    for (t, p) in yt.iter().zip(yp) {
        match (*t, *p) {
            (1, 1) => c.tp += 1,
            (0, 1) => c.fp += 1,
            (1, 0) => c.fn_ += 1,
            _ => c.tn += 1,
        }
    }
    c
}

/// Mann-Whitney pair counting: returns (2U, #positives, #negatives) where
/// 2U = sum over (positive, negative) pairs of 2 if score(pos) > score(neg), 1 if equal, 0 otherwise.
/// AUC = 2U / (2 * pos * neg).
pub fn auc_pairs(labels: &[u8], scores: &[f64]) -> (u64, u64, u64) {
    let (mut u2, mut pos, mut neg) = (0u64, 0u64, 0u64);
    for i in 0..labels.len() {
        if labels[i] == 1 {
            pos += 1;
            for j in 0..labels.len() {
                if labels[j] == 0 {
                    if scores[i] > scores[j] {
                        u2 += 2;
                    } else if scores[i] == scores[j] {
                        u2 += 1;
                    }
                }
            }
        } else {
            neg += 1;
        }
    }
    (u2, pos, neg)
}

#[derive(Clone, Copy, Debug, PartialEq, Eq)]
pub enum TieClass {
    Constant,
    Tied,
    Distinct,
}

/// Tie class plus "some two DISTINCT scores are closer than `eps`" (round 2: nearly-equal / tiny
/// scores, which the definition ranks as distinct however close they are).
pub fn tie_info(scores: &[f64], eps: f64) -> (TieClass, bool) {
    let mut s = scores.to_vec();
    s.sort_by(|a, b| a.partial_cmp(b).unwrap());
    let near = s.windows(2).any(|w| w[0] != w[1] && (w[1] - w[0]) < eps);
    let tc = if s.first() == s.last() && s.len() > 1 {
        TieClass::Constant
    } else if s.windows(2).any(|w| w[0] == w[1]) {
        TieClass::Tied
    } else {
        TieClass::Distinct
    };
    (tc, near)
}

/// The neighbouring f64 `steps` units in the last place away (x finite, positive, result positive).
pub fn step_f64(x: f64, steps: i64) -> f64 {
    assert!(x > 0.0 && x.is_finite());
    let r = f64::from_bits((x.to_bits() as i64 + steps) as u64);
    assert!(r > 0.0 && r.is_finite());
    r
}

/// The neighbouring f32 `steps` units in the last place away, returned as the (exactly equal) f64.
pub fn step_f32(x: f32, steps: i64) -> f64 {
    assert!(x > 0.0 && x.is_finite());
    let r = f32::from_bits((x.to_bits() as i64 + steps) as u32);
    assert!(r > 0.0 && r.is_finite());
    r as f64
}

// ---------------------------------------------------------------- exact regression reference on actual floats

/// v = m * 2^e with m odd (or v = 0 -> None).
fn decode(v: f64) -> Option<(i128, i32)> {
    assert!(v.is_finite());
    if v == 0.0 {
        return None;
    }
    let bits = v.to_bits();
    let neg = bits >> 63 == 1;
    let be = ((bits >> 52) & 0x7ff) as i32;
    let frac = bits & 0x000f_ffff_ffff_ffff;
    let (mut m, mut e) = if be == 0 { (frac << 1, -1075) } else { (frac | 0x0010_0000_0000_0000, be - 1075) };
    let tz = m.trailing_zeros();
    m >>= tz;
    e += tz as i32;
    Some((if neg { -(m as i128) } else { m as i128 }, e))
}

fn pow2(e: i32) -> f64 {
    assert!((-1022..=1023).contains(&e), "unit 2^{} outside the normal range", e);
    f64::from_bits(((e + 1023) as u64) << 52)
}

/// Exact sums of the regression definitions for two vectors of ACTUAL floating-point values:
/// every value is an integer multiple of the common unit 2^e; after subtracting y_true[0] (all three
/// definitions are invariant under a common shift) the sums are evaluated in i128 without rounding.
#[derive(Clone, Copy, Debug)]
pub struct ExactReg {
    /// sum (y - f)^2, sum |y - f|, n * sum (y - mean)^2  in units of unit^2, unit, unit^2
    pub rss: i128,
    pub ras: i128,
    pub sst_n: i128,
    pub unit: f64,
}

pub fn exact_reg(y: &[f64], f: &[f64]) -> ExactReg {
    let n = y.len();
    assert!(n > 0 && n == f.len());
    let dec: Vec<Option<(i128, i32)>> = y.iter().chain(f.iter()).map(|v| decode(*v)).collect();
    let emin = dec.iter().flatten().map(|d| d.1).min().unwrap_or(0);
    let ints: Vec<i128> = dec
        .iter()
        .map(|d| match d {
            None => 0,
            Some((m, e)) => {
                let sh = (*e - emin) as u32;
                assert!(sh <= 64, "exact reference: exponent range of the inputs too wide");
                m.checked_mul(1i128 << sh).expect("exact reference: mantissa overflow")
            }
        })
        .collect();
    let pivot = ints[0];
    let lim = 1i128 << 46;
    let (mut rss, mut ras, mut sa, mut saa) = (0i128, 0i128, 0i128, 0i128);
    for i in 0..n {
        let (a, b) = (ints[i] - pivot, ints[n + i] - pivot);
        assert!(a.abs() < lim && b.abs() < lim, "exact reference: spread of the inputs too wide for i128 sums");
        let d = a - b;
        rss += d * d;
        ras += d.abs();
        sa += a;
        saa += a * a;
    }
    ExactReg { rss, ras, sst_n: n as i128 * saa - sa * sa, unit: pow2(emin) }
}

/// Contingency table of two labellings given as class indices; empty rows / columns are dropped.
pub fn table_of(c: &[usize], k: &[usize]) -> Vec<Vec<u64>> {
    let a = c.iter().max().map(|m| m + 1).unwrap_or(0);
    let b = k.iter().max().map(|m| m + 1).unwrap_or(0);
    let mut t = vec![vec![0u64; b]; a];
    for (ci, ki) in c.iter().zip(k) {
        t[*ci][*ki] += 1;
    }
    compact(&t)
}

pub fn compact(t: &[Vec<u64>]) -> Vec<Vec<u64>> {
    let b = t.first().map(|r| r.len()).unwrap_or(0);
    let keep_col: Vec<bool> = (0..b).map(|j| t.iter().any(|r| r[j] > 0)).collect();
    t.iter()
        .filter(|r| r.iter().any(|x| *x > 0))
        .map(|r| r.iter().zip(&keep_col).filter(|(_, k)| **k).map(|(x, _)| *x).collect())
        .collect()
}

#[derive(Clone, Copy, Debug)]
pub struct HcvRef {
    pub h: f64,
    pub c: f64,
    pub v: f64,
    pub n: u64,
    pub classes: usize,
    pub clusters: usize,
    /// H(C|K) = 0 decided on the integer table: every cluster lies inside one class
    pub hck_zero: bool,
    /// H(K|C) = 0: every class lies inside one cluster
    pub hkc_zero: bool,
    /// n_ck * n == r_c * s_k for every cell (mutual information exactly zero)
    pub independent: bool,
}

/// Homogeneity, completeness, V-measure from the entropies of a (compacted, non-empty) contingency
/// table:  h = 1 - H(C|K)/H(C)  (1 when H(C|K) = 0),  c = 1 - H(K|C)/H(K)  (1 when H(K|C) = 0),
/// v = 2hc/(h+c) (0 when h + c = 0). The degenerate cases are decided on the integers.
pub fn hcv_ref(t: &[Vec<u64>]) -> HcvRef {
    let a = t.len();
    let b = t[0].len();
    let r: Vec<u64> = t.iter().map(|row| row.iter().sum()).collect();
    let s: Vec<u64> = (0..b).map(|j| t.iter().map(|row| row[j]).sum()).collect();
    let n: u64 = r.iter().sum();
    let nf = n as f64;
    let ent = |m: &[u64]| -> f64 { m.iter().filter(|x| **x > 0).map(|x| -(*x as f64 / nf) * (*x as f64 / nf).ln()).sum() };
    let (h_c, h_k) = (ent(&r), ent(&s));
    let (mut h_ck, mut h_kc) = (0.0f64, 0.0f64);
    let (mut hck_zero, mut hkc_zero, mut independent) = (true, true, true);
    for i in 0..a {
        for j in 0..b {
            let x = t[i][j];
            if (x as u128) * (n as u128) != (r[i] as u128) * (s[j] as u128) {
                independent = false;
            }
            if x == 0 {
                continue;
            }
            if x != s[j] {
                hck_zero = false;
            }
            if x != r[i] {
                hkc_zero = false;
            }
            h_ck -= (x as f64 / nf) * (x as f64 / s[j] as f64).ln();
            h_kc -= (x as f64 / nf) * (x as f64 / r[i] as f64).ln();
        }
    }
    let h = if hck_zero {
        1.0
    } else if independent {
        0.0
    } else {
        1.0 - h_ck / h_c
    };
    let c = if hkc_zero {
        1.0
    } else if independent {
        0.0
    } else {
        1.0 - h_kc / h_k
    };
    let v = if h + c == 0.0 { 0.0 } else { 2.0 * h * c / (h + c) };
    HcvRef { h, c, v, n, classes: a, clusters: b, hck_zero, hkc_zero, independent }
}

/// Expand a contingency table into two label-index vectors. layout 0: cell after cell (blocked);
/// 1: blocked, reversed; 2: round-robin over the non-empty cells (interleaved).
pub fn expand_table(t: &[Vec<u64>], layout: usize) -> (Vec<usize>, Vec<usize>) {
    let mut cells: Vec<(usize, usize, u64)> = Vec::new();
    for (i, row) in t.iter().enumerate() {
        for (j, x) in row.iter().enumerate() {
            if *x > 0 {
                cells.push((i, j, *x));
            }
        }
    }
    let (mut c, mut k) = (Vec::new(), Vec::new());
    match layout {
        2 => {
            let mut left: Vec<u64> = cells.iter().map(|x| x.2).collect();
            loop {
                let mut any = false;
                for (q, cell) in cells.iter().enumerate() {
                    if left[q] > 0 {
                        left[q] -= 1;
                        c.push(cell.0);
                        k.push(cell.1);
                        any = true;
                    }
                }
                if !any {
                    break;
                }
            }
        }
        _ => {
            for cell in &cells {
                for _ in 0..cell.2 {
                    c.push(cell.0);
                    k.push(cell.1);
                }
            }
            if layout == 1 {
                c.reverse();
                k.reverse();
            }
        }
    }
    (c, k)
}

/// Expand confusion counts into (truth, prediction) vectors; layouts as in `expand_table`.
pub fn expand_conf(cf: Conf, layout: usize) -> (Vec<u8>, Vec<u8>) {
    // rows = truth (0,1), columns = prediction (0,1); order the cells TP, FP, FN, TN
    let cells = [(1u8, 1u8, cf.tp), (0, 1, cf.fp), (1, 0, cf.fn_), (0, 0, cf.tn)];
    let (mut t, mut p) = (Vec::new(), Vec::new());
    if layout == 2 {
        let mut left = [cf.tp, cf.fp, cf.fn_, cf.tn];
        loop {
            let mut any = false;
            for q in 0..4 {
                if left[q] > 0 {
                    left[q] -= 1;
                    t.push(cells[q].0);
                    p.push(cells[q].1);
                    any = true;
                }
            }
            if !any {
                break;
            }
        }
    } else {
        for cell in &cells {
            for _ in 0..cell.2 {
                t.push(cell.0);
                p.push(cell.1);
            }
        }
        if layout == 1 {
            t.reverse();
            p.reverse();
        }
    }
    (t, p)
}

// ---------------------------------------------------------------- structured score families (AUC)

pub const N_SCORE_FAMILIES: usize = 16;
pub const SCORE_FAMILY_NAMES: [&str; N_SCORE_FAMILIES] = [
    "ascending", "descending", "constant", "two-blocks", "i%2", "i%3", "i%7", "7i%n", "(n/2+1)i%n", "organ-pipe", "v-shape", "i/4", "max-first", "min-last",
    "15-i%16", "i*i%11",
];

pub fn score_family(fam: usize, n: usize, i: usize) -> i64 {
    let (ni, ii) = (n as i64, i as i64);
    match fam {
        0 => ii,
        1 => ni - 1 - ii,
        2 => 0,
        3 => (i >= n / 2) as i64,
        4 => ii % 2,
        5 => ii % 3,
        6 => ii % 7,
        7 => (ii * 7) % ni,
        8 => (ii * (ni / 2 + 1)) % ni,
        9 => ii.min(ni - 1 - ii),
        10 => (2 * ii - (ni - 1)).abs(),
        11 => ii / 4,
        12 => {
            if i == 0 {
                ni
            } else {
                ii
            }
        }
        13 => {
            if i == n - 1 {
                -1
            } else {
                ii
            }
        }
        14 => 15 - ii % 16,
        _ => (ii * ii) % 11,
    }
}

pub const N_SCORE_TRANSFORMS: usize = 8;
pub const SCORE_TRANSFORM_NAMES: [&str; N_SCORE_TRANSFORMS] =
    ["v", "v/(n+1)", "-v", "1e3*v-3.5", "1e-17*v", "2^-60*v", "0.7 moved by v units in the last place (f64)", "0.7f32 moved by v units in the last place (f32)"];
pub const TWO_M60: f64 = 8.673617379884035e-19; // 2^-60

pub fn score_transform(tr: usize, n: usize, v: i64) -> f64 {
    match tr {
        0 => v as f64,
        1 => v as f64 / (n as f64 + 1.0),
        2 => -(v as f64),
        3 => 1e3 * v as f64 - 3.5,
        // round 2: tiny and nearly-equal scores (distinct values stay distinct, equal stay equal)
        4 => 1e-17 * v as f64,
        5 => TWO_M60 * v as f64,
        6 => step_f64(0.7, v),
        _ => step_f32(0.7, v),
    }
}

pub const N_LABEL_KINDS: usize = 7;
pub const LABEL_KIND_NAMES: [&str; N_LABEL_KINDS] = ["single-positive-at-j", "single-negative-at-j", "first-k-positive", "last-k-positive", "i%q==r", "score>median", "score<=median"];
const MODS: [(usize, usize); 5] = [(2, 0), (2, 1), (3, 0), (3, 1), (5, 2)];

/// Number of parameter values of a label family for length n.
pub fn label_params(kind: usize, n: usize) -> usize {
    match kind {
        0 | 1 => n,
        2 | 3 => n - 1,
        4 => MODS.len(),
        _ => 1,
    }
}

pub fn label_family(kind: usize, param: usize, scores: &[f64]) -> Vec<u8> {
    let n = scores.len();
    match kind {
        0 => (0..n).map(|i| (i == param) as u8).collect(),
        1 => (0..n).map(|i| (i != param) as u8).collect(),
        2 => (0..n).map(|i| (i < param + 1) as u8).collect(),
        3 => (0..n).map(|i| (i >= n - (param + 1)) as u8).collect(),
        4 => {
            let (q, r) = MODS[param];
            (0..n).map(|i| (i % q == r) as u8).collect()
        }
        _ => {
            let mut s = scores.to_vec();
            s.sort_by(|a, b| a.partial_cmp(b).unwrap());
            let med = s[(n - 1) / 2];
            scores.iter().map(|x| ((*x > med) == (kind == 5)) as u8).collect()
        }
    }
}

// ---------------------------------------------------------------- structured regression families

pub const N_TRUTH_FAMILIES: usize = 7;
pub const TRUTH_FAMILY_NAMES: [&str; N_TRUTH_FAMILIES] = ["i", "i%5-2", "3", "(-1)^i", "i*i", "1000+[i==n/2]", "7-3i"];

pub fn truth_family(fam: usize, n: usize, i: usize) -> i64 {
    let ii = i as i64;
    match fam {
        0 => ii,
        1 => ii % 5 - 2,
        2 => 3,
        3 => {
            if i % 2 == 0 {
                1
            } else {
                -1
            }
        }
        4 => ii * ii,
        5 => 1000 + (i == n / 2) as i64,
        _ => 7 - 3 * ii,
    }
}

pub const N_PRED_FAMILIES: usize = 10;
pub const PRED_FAMILY_NAMES: [&str; N_PRED_FAMILIES] =
    ["truth", "truth+1", "truth+(-1)^i", "truth+5[i==0]", "truth+5[i==n-1]", "truth-5[i==n/2]", "1", "reversed truth", "2*truth", "truth+i%3-1"];

pub fn pred_family(fam: usize, truth: &[i64], i: usize) -> i64 {
    let n = truth.len();
    let t = truth[i];
    match fam {
        0 => t,
        1 => t + 1,
        2 => t + if i % 2 == 0 { 1 } else { -1 },
        3 => t + 5 * (i == 0) as i64,
        4 => t + 5 * (i == n - 1) as i64,
        5 => t - 5 * (i == n / 2) as i64,
        6 => 1,
        7 => truth[n - 1 - i],
        8 => 2 * t,
        _ => t + (i as i64 % 3) - 1,
    }
}

// 1, 1e-6, 1e6, 2^-40, 2^40; round 2: 2^-30 (ss_tot < f64 epsilon) and 2^-13 (ss_tot < f32 epsilon)
pub const SCALES: [f64; 7] = [1.0, 1e-6, 1e6, 9.094947017729282e-13, 1099511627776.0, 9.313225746154785e-10, 0.0001220703125];
pub const SCALE_NAMES: [&str; 7] = ["1", "1e-6", "1e6", "2^-40", "2^40", "2^-30", "2^-13"];

// ---------------------------------------------------------------- label renamings (cluster scores)

/// Injective maps from class index (0..8) to an integer label value.
pub const RENAMINGS: [(&str, [i64; 8]); 4] = [
    ("identity", [0, 1, 2, 3, 4, 5, 6, 7]),
    ("ugly", [7, -3, 10, 0, -1000000, 5, 1 << 40, -8]),
    ("signed-pairs", [-1, 1, -2, 2, -3, 3, -4, 4]),
    ("shifted-1e9", [1_000_000_007, 1_000_000_003, 1_000_000_005, 1_000_000_001, 1_000_000_000, 1_000_000_006, 1_000_000_002, 1_000_000_004]),
];

/// Weight vectors (class sizes) for the product / identical / refinement layouts.
pub const N_WEIGHT_FAMILIES: usize = 4;
pub const WEIGHT_FAMILY_NAMES: [&str; N_WEIGHT_FAMILIES] = ["ones", "ramp 1..a", "one-heavy (5,1,..)", "alternating 1,2"];

pub fn weight_family(fam: usize, a: usize) -> Vec<u64> {
    (0..a)
        .map(|i| match fam {
            0 => 1,
            1 => i as u64 + 1,
            2 => {
                if i == 0 {
                    5
                } else {
                    1
                }
            }
            _ => 1 + (i as u64 % 2),
        })
        .collect()
}
