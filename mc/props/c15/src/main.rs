//! C15 harness — to be written (see /verif/mc/HARNESS_GUIDE.md).
fn main() {
    eprintln!("MACHINERY-ERROR: harness C15 not built yet");
    std::process::exit(2);
}
