//! C15 — evaluation metrics equal their textbook definitions.
//!
//! E1 over inputs only (the metrics draw no random numbers): every pair of vectors over small
//! sharp alphabets up to a length bound, plus complete structured families up to length 200.
//! Oracles are the definitions evaluated on exact integer counts (refs.rs).
//! Round 2 adds nearly-equal and tiny score alphabets for ROC-AUC and small-scale / small-spread-
//! around-an-offset targets for R^2, MSE, MAE (reference: exact i128 sums on the actual floats).

mod cases;
mod refs;

use cases::*;
use mc_core::{self as mc, json, Harness, Job, Plan, Tier, Value};
use refs::*;

struct C15;

/// Choice source of one execution: the first choices may be fixed by the job (`pre`, used to cut a
/// large product space into many jobs), the rest are asked from the explorer.
struct Chs {
    pre: Vec<usize>,
    pos: usize,
}

impl Chs {
    fn new(job: &Job) -> Chs {
        let pre = job.params["pre"].as_array().map(|a| a.iter().map(|v| v.as_u64().unwrap() as usize).collect()).unwrap_or_default();
        Chs { pre, pos: 0 }
    }
    fn next(&mut self, n: usize) -> usize {
        let i = self.pos;
        self.pos += 1;
        if i < self.pre.len() {
            assert!(self.pre[i] < n, "job prefix out of range");
            self.pre[i]
        } else {
            mc::choose(n)
        }
    }
}

/// Push jobs for a product space with the given radices (in choice order), fixing as many leading
/// choices in the job parameters as needed to keep every job at or below `cap` executions.
fn push_split(jobs: &mut Vec<Job>, name: &str, base: Value, radices: &[usize], cap: u64) {
    let mut p = 0;
    let tail = |p: usize| radices[p..].iter().fold(1u64, |a, r| a.saturating_mul(*r as u64));
    while p < radices.len() && tail(p) > cap {
        p += 1;
    }
    let mut pre = vec![0usize; p];
    loop {
        let mut params = base.clone();
        params["pre"] = json!(pre);
        let suffix: String = if p == 0 { String::new() } else { format!("-p{}", pre.iter().map(|d| d.to_string()).collect::<Vec<_>>().join(".")) };
        jobs.push(Job::new(format!("{}{}", name, suffix), params));
        // odometer over the prefix
        let mut i = p;
        loop {
            if i == 0 {
                return;
            }
            i -= 1;
            pre[i] += 1;
            if pre[i] < radices[i] {
                break;
            }
            pre[i] = 0;
        }
    }
}

// ---- alphabets (simplest first) and their seed variants -------------------------------------------

const Q4: [f64; 4] = [0.0, 0.25, 0.5, 1.0];
const T3: [f64; 3] = [0.0, 1.0, 2.0];
const REG: [i64; 4] = [0, 1, -2, 3];
/// VERIF_SEED selects which finite space is enumerated: an affine change of the score alphabet
/// (order-preserving or order-reversing), a shift of the regression alphabet, an offset of the
/// cluster label values. Seed 0 is the plain alphabet.
const SEED_SCORE: [(f64, f64); 8] = [(1.0, 0.0), (1.0, 1.0), (-1.0, 0.0), (3.0, -1.0), (0.5, 0.25), (-2.0, 5.0), (1e3, 0.0), (1e-3, 0.0)];
const SEED_REG_SHIFT: [i64; 8] = [0, 1, -1, 5, -7, 10, 100, -100];
const SEED_LABEL_OFFSET: [i64; 8] = [0, 1, -1, 10, -10, 1000, -1000, 1 << 33];

fn score_alpha(id: usize, seed: u64) -> Vec<f64> {
    let (m, a) = SEED_SCORE[(seed % 8) as usize];
    let base: &[f64] = if id == 0 { &Q4 } else { &T3 };
    base.iter().map(|x| m * x + a).collect()
}

fn offset_map(m: &[i64; 8], seed: u64) -> [i64; 8] {
    let o = SEED_LABEL_OFFSET[(seed % 8) as usize];
    let mut r = *m;
    r.iter_mut().for_each(|x| *x += o);
    r
}

// ---- executions -----------------------------------------------------------------------------------

fn run_bin(job: &Job) {
    let n = job.u("n");
    let mut ch = Chs::new(job);
    let yt: Vec<u8> = (0..n).map(|_| ch.next(2) as u8).collect();
    let yp: Vec<u8> = (0..n).map(|_| ch.next(2) as u8).collect();
    let o64 = binary_case::<f64>(&yt, &yp, &String::new);
    let o32 = binary_case::<f32>(&yt, &yp, &String::new);
    mc::count("binary_pairs");
    mc::nontrivial();
    mc::outcome(mc::hash::mix(mc::hash::h_f64s(&o64), mc::hash::h_f64s(&o32)));
    mc::describe(|| json!({"op": "accuracy/precision/recall/f1(beta=1,0.5,2)", "y_true": yt, "y_pred": yp, "library_f64": o64.iter().map(|x| format!("{}", x)).collect::<Vec<_>>()}));
}

fn run_conf(job: &Job) {
    let n = job.u("n") as u64;
    let tp = mc::choose(n as usize + 1) as u64;
    let fp = mc::choose((n - tp) as usize + 1) as u64;
    let fn_ = mc::choose((n - tp - fp) as usize + 1) as u64;
    let layout = mc::choose(3);
    let cf = Conf { tp, fp, fn_, tn: n - tp - fp - fn_ };
    let (yt, yp) = expand_conf(cf, layout);
    let origin = || format!(" [confusion counts expanded with layout {}]", ["blocked", "blocked-reversed", "interleaved"][layout]);
    let o64 = binary_case::<f64>(&yt, &yp, &origin);
    let o32 = binary_case::<f32>(&yt, &yp, &origin);
    mc::count("binary_by_confusion_counts");
    if tp + fn_ == 1 || fp + cf.tn == 1 {
        mc::count("binary_single_positive_or_negative");
    }
    mc::nontrivial();
    mc::outcome(mc::hash::mix(mc::hash::h_f64s(&o64), mc::hash::h_f64s(&o32)));
    mc::describe(|| json!({"op": "accuracy/precision/recall/f1 by confusion counts", "n": n, "tp": tp, "fp": fp, "fn": fn_, "tn": cf.tn, "layout": layout, "library_f64": o64.iter().map(|x| format!("{}", x)).collect::<Vec<_>>()}));
}

fn run_acc3(job: &Job) {
    let n = job.u("n");
    let seed = job.params["seed"].as_u64().unwrap_or(0);
    let values = offset_map(&RENAMINGS[if seed == 0 { 0 } else { 1 }].1, seed);
    let mut ch = Chs::new(job);
    let yt: Vec<f64> = (0..n).map(|_| values[ch.next(3)] as f64).collect();
    let yp: Vec<f64> = (0..n).map(|_| values[ch.next(3)] as f64).collect();
    let a = accuracy_case::<f64>(&yt, &yp);
    let b = accuracy_case::<f32>(&yt, &yp);
    mc::count("accuracy_multiclass_pairs");
    mc::nontrivial();
    mc::outcome(mc::hash::h_f64s(&[a, b]));
    mc::describe(|| json!({"op": "accuracy (3 classes)", "y_true": yt, "y_pred": yp, "library": a}));
}

const MISMATCH_LENGTHS: [usize; 13] = [0, 1, 2, 3, 4, 5, 6, 7, 8, 9, 16, 64, 200];

fn run_mismatch(_job: &Job) {
    let n1 = mc::pick(&MISMATCH_LENGTHS);
    let n2 = mc::pick(&MISMATCH_LENGTHS);
    let pat = mc::choose(3);
    if n1 == n2 {
        mc::count("mismatch_equal_lengths_skipped");
        return;
    }
    let gen = |n: usize, flip: bool| -> Vec<f64> {
        (0..n)
            .map(|i| match pat {
                0 => flip as u8 as f64,
                1 => 1.0 - flip as u8 as f64,
                _ => ((i % 2 == 0) ^ flip) as u8 as f64,
            })
            .collect()
    };
    let (a, b) = (gen(n1, false), gen(n2, pat == 2));
    let r64 = mismatch_case::<f64>(&a, &b);
    let r32 = mismatch_case::<f32>(&a, &b);
    mc::count("mismatch_pairs");
    mc::nontrivial();
    mc::outcome(mc::hash::h_u64s(&[r64, r32]));
    mc::describe(|| json!({"op": "length mismatch on the seven pairwise metrics", "len_true": n1, "len_pred": n2, "pattern": pat, "rejected_bitmask_f64": r64}));
}

/// Returns the library's (f64, f32) results, None outside the domain.
fn auc_both(labels: &[u8], scores: &[f64], with_f32: bool, origin: &dyn Fn() -> String) -> Option<(f64, f64)> {
    let n = labels.len();
    let pos = labels.iter().filter(|l| **l == 1).count();
    if pos == 0 || pos == n {
        mc::count("auc_single_class_outside_domain");
        return None;
    }
    let v = auc_case::<f64>(labels, scores, origin);
    let w = if with_f32 { auc_case::<f32>(labels, scores, origin) } else { 0.0 };
    let (tc, near) = tie_info(scores, f64::EPSILON);
    match tc {
        TieClass::Constant => mc::count("auc_constant_scores"),
        TieClass::Tied => mc::count("auc_tied_scores"),
        TieClass::Distinct => mc::count("auc_distinct_scores"),
    }
    if near {
        mc::count("auc_different_scores_closer_than_epsilon");
        if tc == TieClass::Tied {
            mc::count("auc_equal_and_nearly_equal_scores_together");
        }
    }
    if n >= 8 {
        mc::count("auc_quicksort_partition_path");
    }
    if pos == 1 || pos == n - 1 {
        mc::count("auc_single_positive_or_negative");
    }
    mc::nontrivial();
    mc::outcome(mc::hash::h_f64s(&[v, w]));
    mc::describe(|| json!({"op": "roc_auc_score", "y_true": labels, "scores": scores, "library": v}));
    Some((v, w))
}

/// Round 2 — nearly-equal score alphabets: {b, next(b), next(next(b)), 0.3} in f64 (id 2) and the
/// same construction in f32 (id 3; the values are exactly representable in both types). `next` is the
/// neighbouring floating-point number (upwards or downwards, by seed). Seed 0: b = 0.7, upwards.
const SEED_NEAR: [(f64, i64); 8] = [(0.7, 1), (0.6, 1), (0.9, -1), (1.0, -1), (0.55, 1), (0.51, -1), (0.75, 1), (0.999, -1)];

fn near_alpha(id: usize, seed: u64) -> Vec<f64> {
    let (b, d) = SEED_NEAR[(seed % 8) as usize];
    if id == 2 {
        vec![b, step_f64(b, d), step_f64(b, 2 * d), 0.3]
    } else {
        vec![b as f32 as f64, step_f32(b as f32, d), step_f32(b as f32, 2 * d), 0.3f32 as f64]
    }
}

/// Round 2 — multipliers applied to a whole score alphabet: scores are only compared, so a tiny scale
/// must still rank different values as different (1e-17) and an exact one (2^-60) must not change the
/// result at all.
const SCORE_MULS: [f64; 3] = [1.0, 1e-17, TWO_M60];
const SCORE_MUL_NAMES: [&str; 3] = ["1", "1e-17", "2^-60"];

fn apply_mul(job: &Job, labels: &[u8], base: &[f64], with_f32: bool) {
    let mul = job.params["mul"].as_u64().unwrap_or(0) as usize;
    if mul == 0 {
        auc_both(labels, base, with_f32, &String::new);
        return;
    }
    let scaled: Vec<f64> = base.iter().map(|x| x * SCORE_MULS[mul]).collect();
    let origin = || format!(" [scores = {} * {}]", show(base), SCORE_MUL_NAMES[mul]);
    if let Some((v, w)) = auc_both(labels, &scaled, with_f32, &origin) {
        mc::count("auc_tiny_scaled_scores");
        if mul == 2 {
            auc_scale_invariance::<f64>(labels, base, &scaled, v, SCORE_MUL_NAMES[mul]);
            if with_f32 {
                auc_scale_invariance::<f32>(labels, base, &scaled, w, SCORE_MUL_NAMES[mul]);
            }
        }
    }
}

fn run_auc(job: &Job) {
    let n = job.u("n");
    let seed = job.params["seed"].as_u64().unwrap_or(0);
    let aid = job.u("alpha");
    let alpha = if aid >= 2 { near_alpha(aid, seed) } else { score_alpha(aid, seed) };
    let mut ch = Chs::new(job);
    let scores: Vec<f64> = (0..n).map(|_| alpha[ch.next(alpha.len())]).collect();
    let labels: Vec<u8> = (0..n).map(|_| ch.next(2) as u8).collect();
    if aid >= 2 {
        if auc_both(&labels, &scores, job.b("f32"), &String::new).is_some() {
            mc::count(if aid == 2 { "auc_nearly_equal_alphabet_f64" } else { "auc_nearly_equal_alphabet_f32" });
        }
    } else {
        apply_mul(job, &labels, &scores, job.b("f32"));
    }
}

fn run_aucperm(job: &Job) {
    let n = job.u("n");
    let (m, a) = SEED_SCORE[(job.params["seed"].as_u64().unwrap_or(0) % 8) as usize];
    let mut ch = Chs::new(job);
    // Lehmer code → permutation of 0..n
    let mut rest: Vec<usize> = (0..n).collect();
    let scores: Vec<f64> = (0..n).map(|i| m * rest.remove(ch.next(n - i)) as f64 + a).collect();
    let labels: Vec<u8> = if job.b("single") {
        // exactly one positive, or exactly one negative, at every position: AUC then reveals the rank
        // the library assigned to that element, so the whole argsort is checked
        let q = ch.next(2 * n);
        (0..n).map(|i| ((i == q % n) == (q < n)) as u8).collect()
    } else {
        (0..n).map(|_| ch.next(2) as u8).collect()
    };
    apply_mul(job, &labels, &scores, job.b("f32"));
}

fn run_aucs(job: &Job) {
    let n = job.u("n");
    let fam = mc::choose(N_SCORE_FAMILIES);
    // transforms [tr0, tr0+ntr): the round-1 jobs keep the first four, the round-2 jobs take the rest
    let tr0 = job.params["tr0"].as_u64().unwrap_or(0) as usize;
    let ntr = job.params["ntr"].as_u64().unwrap_or(4) as usize;
    let tr = tr0 + mc::choose(ntr);
    let kind = mc::choose(N_LABEL_KINDS);
    let param = mc::choose(label_params(kind, n));
    let scores: Vec<f64> = (0..n).map(|i| score_transform(tr, n, score_family(fam, n, i))).collect();
    let labels = label_family(kind, param, &scores);
    let origin = || format!(" [n={} scores: family {} transform {}; labels: {} param {}]", n, SCORE_FAMILY_NAMES[fam], SCORE_TRANSFORM_NAMES[tr], LABEL_KIND_NAMES[kind], param);
    if auc_both(&labels, &scores, true, &origin).is_some() && tr >= 4 {
        mc::count("auc_structured_tiny_or_nearly_equal");
    }
    mc::describe(|| json!({"n": n, "score_family": SCORE_FAMILY_NAMES[fam], "score_transform": SCORE_TRANSFORM_NAMES[tr], "label_family": LABEL_KIND_NAMES[kind], "label_param": param}));
}

fn run_reg(job: &Job) {
    let n = job.u("n");
    let shift = SEED_REG_SHIFT[(job.params["seed"].as_u64().unwrap_or(0) % 8) as usize];
    let scale = SCALES[job.u("scale")];
    let mut ch = Chs::new(job);
    let a: Vec<i64> = (0..n).map(|_| REG[ch.next(4)] + shift).collect();
    let b: Vec<i64> = (0..n).map(|_| REG[ch.next(4)] + shift).collect();
    let o64 = regression_case::<f64>(&a, &b, scale, &String::new);
    let o32 = regression_case::<f32>(&a, &b, scale, &String::new);
    mc::count("regression_pairs");
    mc::nontrivial();
    mc::outcome(mc::hash::mix(mc::hash::h_f64s(&o64), mc::hash::h_f64s(&o32)));
    mc::describe(|| json!({"op": "mse/mae/r2", "y_true": a, "y_pred": b, "scale": scale, "library_f64": {"mse": format!("{}", o64[0]), "mae": format!("{}", o64[1]), "r2": format!("{}", o64[2])}}));
}

fn run_regs(job: &Job) {
    let n = job.u("n");
    let ft = mc::choose(N_TRUTH_FAMILIES);
    let fp = mc::choose(N_PRED_FAMILIES);
    let sc = mc::choose(SCALES.len());
    let a: Vec<i64> = (0..n).map(|i| truth_family(ft, n, i)).collect();
    let b: Vec<i64> = (0..n).map(|i| pred_family(fp, &a, i)).collect();
    let origin = || format!(" [n={} truth family '{}', prediction family '{}', scale {}]", n, TRUTH_FAMILY_NAMES[ft], PRED_FAMILY_NAMES[fp], SCALE_NAMES[sc]);
    let o64 = regression_case::<f64>(&a, &b, SCALES[sc], &origin);
    let o32 = regression_case::<f32>(&a, &b, SCALES[sc], &origin);
    mc::count("regression_structured");
    mc::nontrivial();
    mc::outcome(mc::hash::mix(mc::hash::h_f64s(&o64), mc::hash::h_f64s(&o32)));
    mc::describe(|| json!({"op": "mse/mae/r2 structured", "n": n, "truth": TRUTH_FAMILY_NAMES[ft], "prediction": PRED_FAMILY_NAMES[fp], "scale": SCALE_NAMES[sc], "library_f64": {"mse": format!("{}", o64[0]), "mae": format!("{}", o64[1]), "r2": format!("{}", o64[2])}}));
}

/// Round 2 — small spread around an offset: targets c + k*h. (c, h) by configuration; the seed moves
/// the offset. Configuration 0 is the f64 case (ss_tot ~ 1e-18 < f64 epsilon), configuration 1 the
/// f32 case (h = 2^-12, ss_tot ~ 6e-8 < f32 epsilon; with h = 1e-9 all f32 targets collapse to c).
/// Configuration 2 (h = 1.3e-9) is configuration 0 without its arithmetic luck: 1e-9 is within 1e-7
/// relative of 1125900 * 2^-50 and 1125900 = 2^2 3^3 5^2 417, so around c = 5 the sums and means of
/// the 1e-9 family are mostly exact; with 1.3e-9 the computed mean is rounded.
const OFFSET_STEPS: [f64; 3] = [1e-9, 0.000244140625, 1.3e-9];
const OFFSET_STEP_NAMES: [&str; 3] = ["1e-9", "2^-12", "1.3e-9"];
const SEED_OFFSET: [f64; 8] = [5.0, 3.0, -5.0, 7.0, 6.0, -3.0, 4.5, -6.25];

fn run_regoff(job: &Job) {
    let n = job.u("n");
    let c = SEED_OFFSET[(job.params["seed"].as_u64().unwrap_or(0) % 8) as usize];
    let h = OFFSET_STEPS[job.u("step")];
    let mut ch = Chs::new(job);
    let a: Vec<i64> = (0..n).map(|_| REG[ch.next(4)]).collect();
    let b: Vec<i64> = (0..n).map(|_| REG[ch.next(4)]).collect();
    let o64 = regression_offset_case::<f64>(&a, &b, c, h, &String::new);
    let o32 = regression_offset_case::<f32>(&a, &b, c, h, &String::new);
    mc::count("regression_offset_pairs");
    mc::nontrivial();
    mc::outcome(mc::hash::mix(mc::hash::h_f64s(&o64), mc::hash::h_f64s(&o32)));
    mc::describe(|| json!({"op": "mse/mae/r2 around an offset", "k_true": a, "k_pred": b, "offset": c, "step": h, "library_f64": {"mse": format!("{:e}", o64[0]), "mae": format!("{:e}", o64[1]), "r2": format!("{}", o64[2])}}));
}

fn run_regsoff(job: &Job) {
    let n = job.u("n");
    let c = SEED_OFFSET[(job.params["seed"].as_u64().unwrap_or(0) % 8) as usize];
    let ft = mc::choose(N_TRUTH_FAMILIES);
    let fp = mc::choose(N_PRED_FAMILIES);
    let st = mc::choose(OFFSET_STEPS.len());
    let a: Vec<i64> = (0..n).map(|i| truth_family(ft, n, i)).collect();
    let b: Vec<i64> = (0..n).map(|i| pred_family(fp, &a, i)).collect();
    let origin = || format!(" [n={} truth family '{}', prediction family '{}', offset {} step {}]", n, TRUTH_FAMILY_NAMES[ft], PRED_FAMILY_NAMES[fp], c, OFFSET_STEP_NAMES[st]);
    let o64 = regression_offset_case::<f64>(&a, &b, c, OFFSET_STEPS[st], &origin);
    let o32 = regression_offset_case::<f32>(&a, &b, c, OFFSET_STEPS[st], &origin);
    mc::count("regression_offset_structured");
    mc::nontrivial();
    mc::outcome(mc::hash::mix(mc::hash::h_f64s(&o64), mc::hash::h_f64s(&o32)));
    mc::describe(|| json!({"op": "mse/mae/r2 structured around an offset", "n": n, "truth": TRUTH_FAMILY_NAMES[ft], "prediction": PRED_FAMILY_NAMES[fp], "offset": c, "step": OFFSET_STEP_NAMES[st], "library_f64": {"mse": format!("{:e}", o64[0]), "mae": format!("{:e}", o64[1]), "r2": format!("{}", o64[2])}}));
}

const RENAME_PAIRS: [(usize, usize); 2] = [(1, 2), (3, 1)];

fn run_hcv(job: &Job) {
    let n = job.u("n");
    let k = job.u("k");
    let seed = job.params["seed"].as_u64().unwrap_or(0);
    let (mt, mp) = (offset_map(&RENAMINGS[0].1, seed), offset_map(&RENAMINGS[0].1, seed));
    let mut ch = Chs::new(job);
    let ci: Vec<usize> = (0..n).map(|_| ch.next(k)).collect();
    let ki: Vec<usize> = (0..n).map(|_| ch.next(k)).collect();
    let out = hcv_case(&ci, &ki, &mt, &mp, &RENAME_PAIRS, n <= 4, &String::new);
    mc::count("hcv_label_pairs");
    mc::nontrivial();
    mc::outcome(digest_rounded(&out));
}

/// Length sweep: every vector length n in 1..=200 x k in 1..=8 classes (cyclic and blocked
/// layouts) x {labels_true constant, labels_pred constant, both constant, identical labellings}.
/// The scores' special values (1 for a zero conditional entropy / single class) must hold at EVERY
/// length, not only at the small lengths the exhaustive families reach.
fn run_hcvlen(job: &Job) {
    let seed = job.params["seed"].as_u64().unwrap_or(0);
    let n = job.u("n");
    let k = 1 + mc::choose(8);
    let mode = mc::choose(4);
    let layout = mc::choose(2);
    let other: Vec<usize> = (0..n).map(|i| if layout == 0 { i % k } else { i * k / n }).collect();
    let constant = vec![mc::choose(2) * 5; n];
    let (ci, ki) = match mode {
        0 => (constant.clone(), other.clone()),
        1 => (other.clone(), constant.clone()),
        2 => (constant.clone(), constant.clone()),
        _ => (other.clone(), other.clone()),
    };
    let (mt, mp) = (offset_map(&RENAMINGS[0].1, seed), offset_map(&RENAMINGS[1].1, seed));
    let origin = || format!(" [length sweep n={} k={} {} layout, {}]", n, k, ["cyclic", "blocked"][layout], ["labels_true constant", "labels_pred constant", "both constant", "identical labellings"][mode]);
    // identity label maps for this variant, so that class 0 carries the label value 0
    let signed = mc::choose(2) == 1;
    let ident: [i64; 8] = [0, 1, 2, 3, 4, 5, 6, 7];
    cases::SIGNED_ZEROS.with(|f| f.set(signed));
    let out = if signed { hcv_case(&ci, &ki, &ident, &ident, &[(0, 3)], true, &origin) } else { hcv_case(&ci, &ki, &mt, &mp, &[(0, 3)], true, &origin) };
    cases::SIGNED_ZEROS.with(|f| f.set(false));
    if signed {
        mc::count("hcv_length_sweep_signed_zero_labels");
    }
    mc::count("hcv_length_sweep");
    if n > 64 {
        mc::count("hcv_length_sweep_n_above_64");
    }
    mc::nontrivial();
    mc::outcome(digest_rounded(&out));
}

/// every a x b contingency table with entries from a small alphabet
fn run_tab(job: &Job) {
    let (a, b) = (job.u("a"), job.u("b"));
    let alpha: Vec<u64> = job.params["cells"].as_array().unwrap().iter().map(|v| v.as_u64().unwrap()).collect();
    let seed = job.params["seed"].as_u64().unwrap_or(0);
    let mut ch = Chs::new(job);
    let t: Vec<Vec<u64>> = (0..a).map(|_| (0..b).map(|_| alpha[ch.next(alpha.len())]).collect()).collect();
    let layout = ch.next(3);
    if t.iter().all(|r| r.iter().all(|x| *x == 0)) {
        mc::count("hcv_empty_table_skipped");
        return;
    }
    let (ci, ki) = expand_table(&t, layout);
    let (mt, mp) = (offset_map(&RENAMINGS[1].1, seed), offset_map(&RENAMINGS[2].1, seed));
    let origin = || format!(" [table {:?} expanded with layout {}]", t, ["blocked", "blocked-reversed", "interleaved"][layout]);
    let out = hcv_case(&ci, &ki, &mt, &mp, &[(0, 3)], false, &origin);
    mc::count("hcv_tables");
    mc::nontrivial();
    mc::outcome(digest_rounded(&out));
}

const PROD_KINDS: [&str; 6] = ["product r x s (independent)", "identical diag(r)", "refinement (each class split)", "coarsening (each cluster split)", "diag(r) + one off-diagonal sample", "band"];
const PROD_MULT: [u64; 4] = [1, 2, 3, 7];

/// product (exactly independent), identical, refinement, coarsening, near-identical layouts with 1..8 classes
fn run_prod(job: &Job) {
    let (a, b) = (job.u("a"), job.u("b"));
    let nmax = job.u("nmax") as u64;
    let seed = job.params["seed"].as_u64().unwrap_or(0);
    let kind = mc::choose(PROD_KINDS.len());
    let fr = mc::choose(N_WEIGHT_FAMILIES);
    let fs = mc::choose(N_WEIGHT_FAMILIES);
    let m = mc::pick(&PROD_MULT);
    let layout = mc::choose(3);
    let (r, s) = (weight_family(fr, a), weight_family(fs, b));
    let t: Option<Vec<Vec<u64>>> = match kind {
        0 => Some((0..a).map(|i| (0..b).map(|j| r[i] * s[j] * m).collect()).collect()),
        1 if a == b => Some((0..a).map(|i| (0..a).map(|j| if i == j { r[i] * m } else { 0 }).collect()).collect()),
        2 if a * b <= 8 => Some((0..a).map(|i| (0..a * b).map(|q| if q / b == i { r[i] * s[q % b] * m } else { 0 }).collect()).collect()),
        3 if a * b <= 8 => Some((0..a * b).map(|q| (0..a).map(|i| if q / b == i { r[i] * s[q % b] * m } else { 0 }).collect()).collect()),
        4 if a == b && a >= 2 => Some((0..a).map(|i| (0..a).map(|j| if i == j { r[i] * m } else { (i == 0 && j == 1) as u64 }).collect()).collect()),
        5 if a == b && a >= 2 => Some((0..a).map(|i| (0..a).map(|j| if j == i || j == i + 1 { r[i] * m } else { 0 }).collect()).collect()),
        _ => None,
    };
    let Some(t) = t else {
        mc::count("hcv_layout_not_applicable");
        return;
    };
    let n: u64 = t.iter().map(|row| row.iter().sum::<u64>()).sum();
    if n > nmax {
        mc::count("hcv_layout_above_length_bound");
        return;
    }
    let (ci, ki) = expand_table(&t, layout);
    let (mt, mp) = (offset_map(&RENAMINGS[0].1, seed), offset_map(&RENAMINGS[1].1, seed));
    let origin = || format!(" [{} with a={} b={} r={:?} s={:?} m={} layout {}; n={}]", PROD_KINDS[kind], a, b, r, s, m, layout, n);
    let out = hcv_case(&ci, &ki, &mt, &mp, &[(2, 3)], false, &origin);
    mc::count("hcv_structured_layouts");
    if n > 64 {
        mc::count("hcv_structured_n_above_64");
    }
    mc::nontrivial();
    mc::outcome(digest_rounded(&out));
    mc::describe(|| json!({"layout_kind": PROD_KINDS[kind], "a": a, "b": b, "row_weights": format!("{} {:?}", WEIGHT_FAMILY_NAMES[fr], r), "col_weights": format!("{} {:?}", WEIGHT_FAMILY_NAMES[fs], s), "multiplier": m, "n": n}));
}

impl Harness for C15 {
    fn id(&self) -> &'static str {
        "C15"
    }

    fn plan(&self, tier: Tier, seed: u64) -> Plan {
        let t = tier.is_thorough();
        let mut jobs: Vec<Job> = Vec::new();
        let cap: u64 = if t { 8_000_000 } else { 300_000 };

        // ---- length mismatch (one small job)
        jobs.push(Job::new("mismatch", json!({"kind": "mismatch"})));

        // ---- accuracy / precision / recall / F-beta: every pair of binary vectors
        let bin_max = if t { 11 } else { 8 };
        for n in 1..=bin_max {
            push_split(&mut jobs, &format!("bin-n{}", n), json!({"kind": "bin", "n": n}), &vec![2; 2 * n], cap);
        }
        // accuracy on three classes
        for n in 1..=(if t { 7 } else { 5 }) {
            push_split(&mut jobs, &format!("acc3-n{}", n), json!({"kind": "acc3", "n": n, "seed": seed}), &vec![3; 2 * n], cap);
        }
        // every confusion-count vector (tp, fp, fn, tn) with sum n, three layouts
        let conf_ns: Vec<usize> = if t { (1..=96).chain([100, 127, 128, 150, 199, 200]).collect() } else { (1..=40).chain([64]).collect() };
        for n in &conf_ns {
            jobs.push(Job::new(format!("conf-n{}", n), json!({"kind": "conf", "n": n})));
        }

        // ---- regression metrics
        let reg_max = if t { 6 } else { 4 };
        for n in 1..=reg_max {
            for sc in 0..SCALES.len() {
                push_split(&mut jobs, &format!("reg-n{}-s{}", n, SCALE_NAMES[sc]), json!({"kind": "reg", "n": n, "scale": sc, "seed": seed}), &vec![4; 2 * n], cap);
            }
        }
        if !t {
            push_split(&mut jobs, "reg-n5-s1", json!({"kind": "reg", "n": 5, "scale": 0, "seed": seed}), &vec![4; 10], cap);
        }
        for n in 1..=200usize {
            jobs.push(Job::new(format!("regs-n{}", n), json!({"kind": "regs", "n": n})));
        }
        // round 2: small spread around an offset (targets c + k*h), exact reference on the actual floats
        let off_max = if t { 6 } else { 4 };
        for n in 1..=off_max {
            for st in 0..OFFSET_STEPS.len() {
                push_split(&mut jobs, &format!("regoff-n{}-h{}", n, OFFSET_STEP_NAMES[st]), json!({"kind": "regoff", "n": n, "step": st, "seed": seed}), &vec![4; 2 * n], cap);
            }
        }
        for n in 1..=200usize {
            jobs.push(Job::new(format!("regsoff-n{}", n), json!({"kind": "regsoff", "n": n, "seed": seed})));
        }

        // ---- cluster scores: every pair of labellings
        let hcv_plan: &[(usize, usize)] = if t { &[(2, 12), (3, 8), (4, 6), (5, 5)] } else { &[(2, 8), (3, 6), (4, 4)] };
        for (k, nmax) in hcv_plan {
            for n in 1..=*nmax {
                // {0,1}^n is contained in {0,1,2}^n: skip what a larger alphabet already covers
                let covered = hcv_plan.iter().any(|(k2, n2)| k2 > k && n <= *n2);
                if covered {
                    continue;
                }
                push_split(&mut jobs, &format!("hcv-k{}-n{}", k, n), json!({"kind": "hcv", "k": k, "n": n, "seed": seed}), &vec![*k; 2 * n], cap / 4);
            }
        }
        // every contingency table over a small cell alphabet
        let mut tabs: Vec<(usize, usize, Vec<u64>)> = vec![
            (1, 1, vec![0, 1, 2, 5]),
            (2, 2, vec![0, 1, 2]),
            (2, 3, vec![0, 1, 2]),
            (3, 2, vec![0, 1, 2]),
            (3, 3, vec![0, 1, 2]),
            (2, 2, vec![0, 1, 3, 8]),
            (2, 3, vec![0, 1, 3, 8]),
            (1, 8, vec![0, 1, 2]),
            (8, 1, vec![0, 1, 2]),
            (2, 8, vec![0, 1]),
            (8, 2, vec![0, 1]),
            (4, 4, vec![0, 1]),
            (2, 2, vec![1, 20, 50, 99]),
        ];
        if t {
            tabs.extend([
                (3, 3, vec![0, 1, 3, 8]),
                (3, 4, vec![0, 1, 2]),
                (4, 3, vec![0, 1, 2]),
                (2, 6, vec![0, 1, 2]),
                (6, 2, vec![0, 1, 2]),
                (3, 6, vec![0, 1]),
                (6, 3, vec![0, 1]),
                (4, 5, vec![0, 1]),
                (5, 4, vec![0, 1]),
                (2, 2, vec![0, 1, 2, 3, 5, 8, 13, 40]),
                (2, 3, vec![0, 1, 2, 5, 17]),
            ]);
        }
        for (a, b, cells) in &tabs {
            let mut radices = vec![cells.len(); a * b];
            radices.push(3);
            push_split(&mut jobs, &format!("tab-{}x{}-c{}", a, b, cells.iter().map(|c| c.to_string()).collect::<Vec<_>>().join("_")), json!({"kind": "tab", "a": a, "b": b, "cells": cells, "seed": seed}), &radices, cap / 4);
        }
        // length sweep (both tiers: it is cheap)
        for n in 1..=200usize {
            jobs.push(Job::new(format!("hcvlen-n{}", n), json!({"kind": "hcvlen", "n": n, "seed": seed})));
        }
        // product / identical / refinement layouts, 1..8 classes each
        let nmax = if t { 200 } else { 64 };
        for a in 1..=8usize {
            for b in 1..=8usize {
                jobs.push(Job::new(format!("prod-{}x{}", a, b), json!({"kind": "prod", "a": a, "b": b, "nmax": nmax, "seed": seed})));
            }
        }

        // ---- ROC-AUC
        // every score vector over {0,1/4,1/2,1} x every label vector
        let q4_max = if t { 10 } else { 7 };
        for n in 2..=q4_max {
            push_split(&mut jobs, &format!("auc-q4-n{}", n), json!({"kind": "auc", "n": n, "alpha": 0, "seed": seed, "f32": n <= 6}), &[vec![4; n], vec![2; n]].concat(), cap);
        }
        // {0,1,2}: n >= 8 reaches the partition code of the sort
        let t3_max = if t { 11 } else { 8 };
        for n in 8..=t3_max {
            push_split(&mut jobs, &format!("auc-t3-n{}", n), json!({"kind": "auc", "n": n, "alpha": 1, "seed": seed, "f32": n <= 8}), &[vec![3; n], vec![2; n]].concat(), cap);
        }
        // every permutation of n distinct scores x every label vector
        let perm_max = if t { 9 } else { 7 };
        for n in 2..=perm_max {
            let mut radices: Vec<usize> = (0..n).map(|i| n - i).collect();
            radices.extend(vec![2; n]);
            push_split(&mut jobs, &format!("auc-perm-n{}", n), json!({"kind": "aucperm", "n": n, "seed": seed, "f32": n <= 7}), &radices, cap);
        }
        // every permutation x every label vector with exactly one positive or exactly one negative
        let single_max = if t { 10 } else { 8 };
        for n in (perm_max + 1)..=single_max {
            let mut radices: Vec<usize> = (0..n).map(|i| n - i).collect();
            radices.push(2 * n);
            push_split(&mut jobs, &format!("auc-perm1-n{}", n), json!({"kind": "aucperm", "n": n, "seed": seed, "f32": false, "single": true}), &radices, cap);
        }
        // round 2: nearly-equal alphabets (f64 and f32 construction), every score vector x label vector
        let near_max = if t { 8 } else { 6 };
        for n in 2..=near_max {
            for (aid, tag) in [(2, "f64"), (3, "f32")] {
                push_split(&mut jobs, &format!("auc-near{}-n{}", tag, n), json!({"kind": "auc", "n": n, "alpha": aid, "seed": seed, "f32": true}), &[vec![4; n], vec![2; n]].concat(), cap);
            }
        }
        // round 2: the existing alphabets and the distinct permutations multiplied by 1e-17 and by 2^-60
        let tiny_max = if t { 8 } else { 6 };
        let tiny_q4_max = if t { 8 } else { 5 };
        for n in 2..=tiny_max {
            for mul in 1..SCORE_MULS.len() {
                if n <= tiny_q4_max {
                    push_split(&mut jobs, &format!("auc-q4x{}-n{}", SCORE_MUL_NAMES[mul], n), json!({"kind": "auc", "n": n, "alpha": 0, "seed": seed, "f32": true, "mul": mul}), &[vec![4; n], vec![2; n]].concat(), cap);
                }
                push_split(&mut jobs, &format!("auc-t3x{}-n{}", SCORE_MUL_NAMES[mul], n), json!({"kind": "auc", "n": n, "alpha": 1, "seed": seed, "f32": true, "mul": mul}), &[vec![3; n], vec![2; n]].concat(), cap);
                let mut radices: Vec<usize> = (0..n).map(|i| n - i).collect();
                radices.extend(vec![2; n]);
                push_split(&mut jobs, &format!("auc-permx{}-n{}", SCORE_MUL_NAMES[mul], n), json!({"kind": "aucperm", "n": n, "seed": seed, "f32": true, "mul": mul}), &radices, cap);
            }
        }
        // structured families up to n = 200
        let aucs_ns: Vec<usize> = if t { (2..=200).collect() } else { (2..=40).chain([63, 64, 65, 100, 128, 200]).collect() };
        for n in &aucs_ns {
            jobs.push(Job::new(format!("aucs-n{}", n), json!({"kind": "aucs", "n": n})));
        }
        // round 2: the same structured families under the four tiny / nearly-equal transforms
        let aucs2_ns: Vec<usize> = if t { (2..=200).collect() } else { (2..=40).chain([63, 64, 65, 100]).collect() };
        for n in &aucs2_ns {
            jobs.push(Job::new(format!("aucs2-n{}", n), json!({"kind": "aucs", "n": n, "tr0": 4, "ntr": N_SCORE_TRANSFORMS - 4})));
        }

        Plan {
            jobs,
            budget_s: if t { 2700 } else { 40 },
            case_deadline_ms: 20_000,
            floors: vec![
                ("hcv_length_sweep", 20_000),
                ("hcv_length_sweep_signed_zero_labels", 10_000),
                ("hcv_length_sweep_n_above_64", 10_000),
                ("binary_pairs", 80_000),
                ("binary_by_confusion_counts", 100_000),
                ("binary_single_positive_or_negative", 1_000),
                ("precision_undefined_0/0", 100),
                ("fbeta_no_true_positive", 1_000),
                ("accuracy_multiclass_pairs", 50_000),
                ("mismatch_pairs", 400),
                ("mismatch_rejected_with_size_message", 5_000),
                ("auc_tied_scores", 1_000_000),
                ("auc_constant_scores", 1_000),
                ("auc_distinct_scores", 500_000),
                ("auc_quicksort_partition_path", 1_000_000),
                ("auc_single_positive_or_negative", 100_000),
                // round 2: nearly-equal / tiny scores, small scale and small spread around an offset
                ("auc_nearly_equal_alphabet_f64", 250_000),
                ("auc_nearly_equal_alphabet_f32", 250_000),
                ("auc_different_scores_closer_than_epsilon", 400_000),
                ("auc_equal_and_nearly_equal_scores_together", 300_000),
                ("auc_tiny_scaled_scores", 200_000),
                ("auc_structured_tiny_or_nearly_equal", 150_000),
                ("auc_power_of_two_scaling_compared", 200_000),
                ("regression_offset_pairs", 200_000),
                ("regression_offset_structured", 40_000),
                ("r2_offset_ss_tot_below_epsilon_f64", 120_000),
                ("r2_offset_ss_tot_below_epsilon_f32", 10_000),
                ("r2_offset_ss_tot_below_epsilon_times_mean_square", 200_000),
                ("r2_ss_tot_below_epsilon_f64", 250_000),
                ("r2_ss_tot_below_epsilon_f32", 240_000),
                ("regression_pairs", 300_000),
                ("regression_structured", 60_000),
                ("r2_negative", 10_000),
                ("r2_undefined_constant_truth", 1_000),
                ("hcv_label_pairs", 500_000),
                ("hcv_tables", 100_000),
                ("hcv_structured_layouts", 10_000),
                ("hcv_single_class_true", 1_000),
                ("hcv_single_class_pred", 1_000),
                ("hcv_H(C|K)=0_multiclass", 10_000),
                ("hcv_H(K|C)=0_multicluster", 10_000),
                ("hcv_independent_multiclass", 5_000),
                ("hcv_identical_partitions_multiclass", 3_000),
                ("hcv_renamed", 1_000_000),
            ],
            bounds: json!({
                "hcv_length_sweep": "every length n=1..200 x k=1..8 classes x {cyclic, blocked} layout x {labels_true constant, labels_pred constant, both constant, identical labellings} x 2 constant label values x {plain labels, label 0 written alternately as 0.0 and -0.0}: homogeneity / completeness / V-measure (methods and free functions) against their definitions incl. the special value 1",
                "binary_metrics": format!("accuracy, precision, recall, F-beta (beta in 1, 1/2, 2), f64 and f32: every pair of binary vectors of length 1..{}; every confusion-count vector (tp,fp,fn,tn) with sum n for n in {:?} x 3 layouts", bin_max, summarize(&conf_ns)),
                "accuracy_multiclass": format!("every pair over 3 label values, length 1..{}", if t { 7 } else { 5 }),
                "length_mismatch": format!("every ordered pair of different lengths from {:?} x 3 fill patterns x 7 pairwise metrics x f64/f32", MISMATCH_LENGTHS),
                "auc": format!("every (score vector, label vector with both classes): scores over {{0,1/4,1/2,1}} n=2..{}; over {{0,1,2}} n=8..{}; every permutation of n distinct scores n=2..{} x every label vector, and n={}..{} x every label vector with exactly one positive or one negative; structured families (16 score families x 4 transforms x 7 label families with all parameters) for n in {}", q4_max, t3_max, perm_max, perm_max + 1, single_max, summarize(&aucs_ns)),
                "auc_round2_nearly_equal_and_tiny_scores": format!("(oracle: the same exact pair counting on the actual values, a tie only for EQUAL scores; f64 and f32) every score vector over the nearly-equal alphabet {:?} (f64 neighbours) and over {:?} (f32 neighbours, exactly representable in both types) x every label vector with both classes, n=2..{}; the alphabet {{0,1/4,1/2,1}} (n=2..{}), the alphabet {{0,1,2}} and every permutation of n distinct scores (n=2..{}) multiplied by 1e-17 and by 2^-60 x every label vector (for 2^-60 additionally: result bit-identical to the unscaled one); structured families: 4 new transforms (1e-17*v, 2^-60*v, 0.7 moved by v units in the last place in f64 / in f32) x 16 score families x 7 label families with all parameters for n in {}", near_alpha(2, seed), near_alpha(3, seed), near_max, tiny_q4_max, tiny_max, summarize(&aucs2_ns)),
                "regression_round2_small_scale_and_offset": format!("scales 2^-30 and 2^-13 added to both regression families (total sum of squares below the f64 / f32 machine epsilon, together with the existing 2^-40 and 1e-6); targets c + k*h and predictions c + k'*h with c = {}, h in {:?}: every pair (k, k') over {{0,1,-2,3}}^n, n=1..{}, and the 7 truth x 10 prediction structured families for every n=1..200; reference = the definitions evaluated exactly (i128, common power-of-two unit) on the floating-point values the library receives; r2 tolerance (1+q)(16(n+4)eps + 8 n^3 eps^2 max|y|^2/ss_tot), mse/mae 4(n+4)eps relative", SEED_OFFSET[(seed % 8) as usize], OFFSET_STEP_NAMES, off_max),
                "regression": format!("mse, mae, r2, f64 and f32: every pair over {{0,1,-2,3}}^n, n=1..{} x scales {:?}{}; structured families (7 truth x 10 prediction x 7 scales) for every n=1..200", reg_max, SCALE_NAMES, if t { "" } else { " (+ n=5 at scale 1)" }),
                "cluster_scores": format!("every pair of labellings over k values, (k, n<=): {:?}; every a x b contingency table over a cell alphabet x 3 sample orders: {:?}; product/identical/refinement/coarsening/near-identical layouts for every 1<=a,b<=8 x 4x4 weight families x multipliers {:?} x 3 orders, n<={}; every case also with exchanged arguments and under label renamings {:?}", hcv_plan, tabs, PROD_MULT, nmax, RENAMINGS.iter().map(|r| r.0).collect::<Vec<_>>()),
                "seed_variant": {"nearly_equal_base_and_direction": SEED_NEAR[(seed % 8) as usize], "regression_offset": SEED_OFFSET[(seed % 8) as usize], "score_affine": SEED_SCORE[(seed % 8) as usize], "regression_shift": SEED_REG_SHIFT[(seed % 8) as usize], "label_offset": SEED_LABEL_OFFSET[(seed % 8) as usize]},
            }),
        }
    }

    fn run(&self, job: &Job) {
        match job.kind() {
            "bin" => run_bin(job),
            "conf" => run_conf(job),
            "acc3" => run_acc3(job),
            "mismatch" => run_mismatch(job),
            "auc" => run_auc(job),
            "aucperm" => run_aucperm(job),
            "aucs" => run_aucs(job),
            "reg" => run_reg(job),
            "regs" => run_regs(job),
            "regoff" => run_regoff(job),
            "regsoff" => run_regsoff(job),
            "hcv" => run_hcv(job),
            "tab" => run_tab(job),
            "hcvlen" => run_hcvlen(job),
            "prod" => run_prod(job),
            other => panic!("unknown job kind {}", other),
        }
    }

    fn rule(&self) -> String {
        "one execution = one fully determined pair of vectors (and metric parameters) passed to the real metric functions; non-trivial = the pair is inside the documented domain of at least one metric and the result was compared with the definition; distinct = distinct digest of the values the library returned (entropy-based scores rounded to 1e-10)".into()
    }

    fn assumptions(&self) -> Vec<String> {
        vec![
            "the metrics draw no random numbers (no RNG seam on these paths); HashMap iteration order only perturbs the last ulps of the entropy sums, which the 1e-12 tolerance and the rounded digests absorb".into(),
            "vectors are Vec<f64> / Vec<f32>; the ndarray / nalgebra vector bindings are exercised under C20".into(),
            "0/0 cases (precision without predicted positives, recall / AUC without both classes, R^2 of a constant truth) are outside the documented domain: counted, not judged".into(),
        ]
    }
}

fn summarize(ns: &[usize]) -> String {
    // compress a sorted list into ranges
    let mut out: Vec<String> = Vec::new();
    let mut i = 0;
    while i < ns.len() {
        let mut j = i;
        while j + 1 < ns.len() && ns[j + 1] == ns[j] + 1 {
            j += 1;
        }
        out.push(if j > i { format!("{}..{}", ns[i], ns[j]) } else { ns[i].to_string() });
        i = j + 1;
    }
    out.join(",")
}

fn main() {
    if let Err(e) = mc_sc::check_rng_sites() {
        eprintln!("MACHINERY-ERROR: {}", e);
        std::process::exit(2);
    }
    mc::main(C15)
}
