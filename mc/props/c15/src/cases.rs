//! One function per kind of execution: build the vectors, call the real metric under `mc::guard`,
//! judge the result against the definition (refs.rs), report violations / counters / digest.

use crate::refs::*;
use mc_core::{self as mc, json};
use smartcore::math::num::RealNumber;
use smartcore::metrics;
use smartcore::metrics::ClusterMetrics;

/// Switch for the one judgement call of this harness (see NOTES.md, "F-beta with no true
/// positive"): with precision and recall both defined and both zero the confusion-count
/// definition gives F = 0; the library returns NaN (0/0). `true` reports that as a violation.
pub const F_ZERO_TP_IS_DEFECT: bool = true;

pub trait Fl: RealNumber {
    const EPS: f64;
    const TAG: &'static str;
}
impl Fl for f64 {
    const EPS: f64 = f64::EPSILON;
    const TAG: &'static str = "f64";
}
impl Fl for f32 {
    const EPS: f64 = f32::EPSILON as f64;
    const TAG: &'static str = "f32";
}

fn tv<T: Fl>(v: &[f64]) -> Vec<T> {
    v.iter().map(|x| T::from(*x).unwrap()).collect()
}

fn labels_t<T: Fl>(v: &[u8]) -> Vec<T> {
    v.iter().map(|x| T::from(*x).unwrap()).collect()
}

fn f<T: Fl>(x: T) -> f64 {
    x.to_f64().unwrap()
}

pub fn show<X: std::fmt::Debug>(v: &[X]) -> String {
    if v.len() <= 40 {
        format!("{:?}", v)
    } else {
        format!("{:?}.. (first 16 of {})", &v[..16], v.len())
    }
}

/// Error-headroom histogram: how close the observed error came to the tolerance.
macro_rules! headroom {
    ($p:literal, $err:expr, $tol:expr) => {{
        let (e, t): (f64, f64) = ($err, $tol);
        if e == 0.0 {
            mc::count(concat!($p, "_err_exactly_0"));
        } else if e <= t * 1e-3 {
            mc::count(concat!($p, "_err_le_tol/1000"));
        } else if e <= t * 0.1 {
            mc::count(concat!($p, "_err_le_tol/10"));
        } else if e <= t {
            mc::count(concat!($p, "_err_le_tol"));
        }
    }};
}

/// |lib - want| <= tol, NaN-safe. Reports `site` otherwise.
fn agree(site: &str, name: &str, ty: &str, lib: f64, want: f64, tol: f64, input: &dyn Fn() -> String) -> bool {
    let err = (lib - want).abs();
    if err <= tol {
        return true;
    }
    mc::violation(site, format!("{}<{}> = {:e} but the definition gives {:e} (|diff| = {:.3e}, tolerance {:.3e}); {}", name, ty, lib, want, err, tol, input()));
    false
}

fn panic_site(metric: &str, class: &str, p: &mc::PanicInfo) -> String {
    format!("{}.panic:{}{}", metric, class, if p.is_overflow_check() { ":overflow-check" } else { "" })
}

// =====================================================================================================
// accuracy / precision / recall / F-beta on binary vectors
// =====================================================================================================

pub const BETAS: [f64; 3] = [1.0, 0.5, 2.0];

/// Returns the library's outputs (NaN where outside the domain) for the digest.
pub fn binary_case<T: Fl>(yt: &[u8], yp: &[u8], origin: &dyn Fn() -> String) -> Vec<f64> {
    let n = yt.len();
    let cf = confusion(yt, yp);
    let (a, b): (Vec<T>, Vec<T>) = (labels_t(yt), labels_t(yp));
    let input = || format!("y_true={} y_pred={} (tp={} fp={} fn={} tn={}){}", show(yt), show(yp), cf.tp, cf.fp, cf.fn_, cf.tn, origin());
    let mut out = Vec::with_capacity(6);
    let eps = T::EPS;

    // accuracy: fraction of equal entries
    match mc::guard(|| metrics::accuracy(&a, &b)) {
        Ok(v) => {
            let want = (cf.tp + cf.tn) as f64 / n as f64;
            agree("accuracy.value:binary-labels", "accuracy", T::TAG, f(v), want, 2.0 * eps, &input);
            out.push(f(v));
        }
        Err(p) => mc::violation(panic_site("accuracy", "equal-length", &p), format!("accuracy<{}> panicked on equal-length vectors: {}; {}", T::TAG, p.brief(), input())),
    }
    // precision = tp / (tp + fp), defined when something was predicted positive
    let prec_defined = cf.tp + cf.fp > 0;
    if prec_defined {
        match mc::guard(|| metrics::precision(&a, &b)) {
            Ok(v) => {
                let want = cf.tp as f64 / (cf.tp + cf.fp) as f64;
                agree("precision.value:predicted-positives-present", "precision", T::TAG, f(v), want, 2.0 * eps, &input);
                out.push(f(v));
            }
            Err(p) => mc::violation(panic_site("precision", "equal-length-binary", &p), format!("precision<{}> panicked: {}; {}", T::TAG, p.brief(), input())),
        }
    } else {
        mc::count("precision_undefined_0/0");
        out.push(f64::NAN);
    }
    // recall = tp / (tp + fn), defined when a positive exists
    let rec_defined = cf.tp + cf.fn_ > 0;
    if rec_defined {
        match mc::guard(|| metrics::recall(&a, &b)) {
            Ok(v) => {
                let want = cf.tp as f64 / (cf.tp + cf.fn_) as f64;
                agree("recall.value:actual-positives-present", "recall", T::TAG, f(v), want, 2.0 * eps, &input);
                out.push(f(v));
            }
            Err(p) => mc::violation(panic_site("recall", "equal-length-binary", &p), format!("recall<{}> panicked: {}; {}", T::TAG, p.brief(), input())),
        }
    } else {
        mc::count("recall_undefined_0/0");
        out.push(f64::NAN);
    }
    // F-beta = (1+b^2) tp / ((1+b^2) tp + b^2 fn + fp)
    if prec_defined && rec_defined {
        for beta in BETAS {
            let b2 = beta * beta;
            let num = (1.0 + b2) * cf.tp as f64;
            let want = num / (num + b2 * cf.fn_ as f64 + cf.fp as f64);
            match mc::guard(|| metrics::f1(&a, &b, T::from(beta).unwrap())) {
                Ok(v) => {
                    let v = f(v);
                    out.push(v);
                    if cf.tp == 0 {
                        mc::count("fbeta_no_true_positive");
                        if v.is_nan() {
                            if F_ZERO_TP_IS_DEFECT {
                                mc::violation(
                                    "f1.nan:precision-and-recall-both-zero",
                                    format!("f1<{}>(beta={}) = NaN but the confusion counts give (1+b^2)tp/((1+b^2)tp+b^2 fn+fp) = 0 (precision = recall = 0, both defined); {}", T::TAG, beta, input()),
                                );
                            }
                        } else {
                            agree("f1.value:precision-and-recall-both-zero", "f1", T::TAG, v, 0.0, 0.0, &input);
                        }
                    } else {
                        let tol = 64.0 * eps * want;
                        if agree("f1.value:true-positives-present", "f1", T::TAG, v, want, tol, &|| format!("beta={} {}", beta, input())) && T::TAG == "f64" {
                            headroom!("fbeta", (v - want).abs(), tol);
                        }
                    }
                }
                Err(p) => mc::violation(panic_site("f1", "equal-length-binary", &p), format!("f1<{}>(beta={}) panicked: {}; {}", T::TAG, beta, p.brief(), input())),
            }
        }
    } else {
        mc::count("fbeta_undefined_0/0");
    }
    out
}

/// accuracy on arbitrary (here: small integer, possibly negative / non-contiguous) labels
pub fn accuracy_case<T: Fl>(yt: &[f64], yp: &[f64]) -> f64 {
    let (a, b): (Vec<T>, Vec<T>) = (tv(yt), tv(yp));
    // equality as the library sees it (after rounding the label values to T)
    let eq = a.iter().zip(&b).filter(|(x, y)| f(**x) == f(**y)).count();
    match mc::guard(|| metrics::accuracy(&a, &b)) {
        Ok(v) => {
            agree("accuracy.value:multiclass-labels", "accuracy", T::TAG, f(v), eq as f64 / yt.len() as f64, 2.0 * T::EPS, &|| format!("y_true={} y_pred={}", show(yt), show(yp)));
            f(v)
        }
        Err(p) => {
            mc::violation(panic_site("accuracy", "equal-length", &p), format!("accuracy<{}> panicked on equal-length vectors: {}; y_true={} y_pred={}", T::TAG, p.brief(), show(yt), show(yp)));
            f64::NAN
        }
    }
}

// =====================================================================================================
// length mismatch: the seven pairwise metrics must reject
// =====================================================================================================

pub const PAIRWISE: [&str; 7] = ["accuracy", "precision", "recall", "f1", "mean_squared_error", "mean_absolute_error", "r2"];

pub fn mismatch_case<T: Fl>(a: &[f64], b: &[f64]) -> u64 {
    let (x, y): (Vec<T>, Vec<T>) = (tv(a), tv(b));
    let mut rejected = 0u64;
    for (m, name) in PAIRWISE.iter().enumerate() {
        let r = mc::guard(|| match m {
            0 => metrics::accuracy(&x, &y),
            1 => metrics::precision(&x, &y),
            2 => metrics::recall(&x, &y),
            3 => metrics::f1(&x, &y, T::one()),
            4 => metrics::mean_squared_error(&x, &y),
            5 => metrics::mean_absolute_error(&x, &y),
            _ => metrics::r2(&x, &y),
        });
        match r {
            Err(p) => {
                rejected |= 1 << m;
                if p.msg.contains("sizes don't match") {
                    mc::count("mismatch_rejected_with_size_message");
                } else {
                    mc::count("mismatch_rejected_by_other_panic");
                }
            }
            Ok(v) => {
                let class = if a.len() < b.len() { "y_pred-longer" } else { "y_true-longer" };
                mc::violation(
                    format!("{}.length-mismatch:{}", name, class),
                    format!("{}<{}> returned {} for vectors of different length instead of rejecting them: y_true={} (len {}) y_pred={} (len {})", name, T::TAG, f(v), show(a), a.len(), show(b), b.len()),
                );
            }
        }
    }
    rejected
}

// =====================================================================================================
// ROC-AUC
// =====================================================================================================

/// `labels` must contain both classes (the caller skips the others).
pub fn auc_case<T: Fl>(labels: &[u8], scores: &[f64], origin: &dyn Fn() -> String) -> f64 {
    let (a, s): (Vec<T>, Vec<T>) = (labels_t(labels), tv(scores));
    // the oracle sees the scores the library sees (after rounding to T)
    let seen: Vec<f64> = s.iter().map(|x| f(*x)).collect();
    let (u2, pos, neg) = auc_pairs(labels, &seen);
    let want = u2 as f64 / (2.0 * pos as f64 * neg as f64);
    let (tc, near) = tie_info(&seen, T::EPS);
    let class = format!(
        "{}{}{}",
        match tc {
            TieClass::Constant => "constant-scores",
            TieClass::Tied => "tied-scores",
            TieClass::Distinct => "distinct-scores",
        },
        if labels.len() >= 8 { "-quicksort-partition" } else { "-insertion-sort" },
        // round 2: some two DIFFERENT scores are closer than the machine epsilon of T (nearly equal
        // or tiny scores); the definition still ranks them as different
        if near { "-different-scores-closer-than-epsilon" } else { "" }
    );
    let input = || format!("y_true={} scores={} (pos={} neg={} 2U={}){}", show(labels), show(&seen), pos, neg, u2, origin());
    match mc::guard(|| metrics::roc_auc_score(&a, &s)) {
        Ok(v) => {
            let v = f(v);
            let tol = 4.0 * T::EPS;
            if agree(&format!("auc.value:{}", class), "roc_auc_score", T::TAG, v, want, tol, &input) && T::TAG == "f64" {
                headroom!("auc", (v - want).abs(), tol);
            }
            v
        }
        Err(p) => {
            mc::violation(panic_site("auc", &class, &p), format!("roc_auc_score<{}> panicked: {}; {}", T::TAG, p.brief(), input()));
            f64::NAN
        }
    }
}

/// Scores are only compared: multiplying every score by a power of two (no rounding, no underflow
/// in the enumerated families) must not change the result at all. `lib_scaled` is what the library
/// returned for `scaled`; the library is called once more on the unscaled scores.
pub fn auc_scale_invariance<T: Fl>(labels: &[u8], scores: &[f64], scaled: &[f64], lib_scaled: f64, what: &str) {
    let (a, s): (Vec<T>, Vec<T>) = (labels_t(labels), tv(scores));
    if let Ok(v) = mc::guard(|| metrics::roc_auc_score(&a, &s)) {
        let v = f(v);
        mc::count("auc_power_of_two_scaling_compared");
        if v.to_bits() != lib_scaled.to_bits() && !(v.is_nan() && lib_scaled.is_nan()) {
            mc::violation(
                "auc.scale-invariance:scores-times-power-of-two",
                format!("roc_auc_score<{}> = {:e} on scores={} but {:e} on the same scores multiplied by {} = {} (y_true={}); scores are only compared, an exact rescaling must not change the result", T::TAG, v, show(scores), lib_scaled, what, show(scaled), show(labels)),
            );
        }
    }
    // (a panic on the unscaled scores is reported by the jobs that enumerate the unscaled alphabet)
}

// =====================================================================================================
// MSE / MAE / R^2
// =====================================================================================================

/// Round 2: targets c + a_i*h, predictions c + b_i*h (a small spread h around an offset c). The inputs
/// are whatever floating-point values `c + a*h` rounds to (in f64, then in T); the definitions are
/// evaluated EXACTLY on those values (refs::exact_reg: common power-of-two unit, i128 sums).
/// Returns the library's (mse, mae, r2).
pub fn regression_offset_case<T: Fl>(a: &[i64], b: &[i64], c: f64, h: f64, origin: &dyn Fn() -> String) -> [f64; 3] {
    let n = a.len();
    let ya: Vec<f64> = a.iter().map(|k| c + *k as f64 * h).collect();
    let yb: Vec<f64> = b.iter().map(|k| c + *k as f64 * h).collect();
    let (x, y): (Vec<T>, Vec<T>) = (tv(&ya), tv(&yb));
    // the values the library sees (after rounding to T), exactly
    let (sa, sb): (Vec<f64>, Vec<f64>) = (x.iter().map(|v| f(*v)).collect(), y.iter().map(|v| f(*v)).collect());
    let r = exact_reg(&sa, &sb);
    let nf = n as f64;
    let eps = T::EPS;
    let maxabs = sa.iter().fold(0.0f64, |m, v| m.max(v.abs()));
    let input = || format!("y_true={:?} y_pred={:?} (= {} + k*{:e} for k_true={} k_pred={}; exact sums in units of {:e}: rss={} ras={} n*ss_tot={}){}", sa, sb, c, h, show(a), show(b), r.unit, r.rss, r.ras, r.sst_n, origin());
    let mut out = [f64::NAN; 3];

    let class = if r.rss == 0 { "zero-residuals" } else { "nonzero-residuals" };
    match mc::guard(|| metrics::mean_squared_error(&x, &y)) {
        Ok(v) => {
            let want = r.rss as f64 * r.unit * r.unit / nf;
            let tol = 4.0 * (nf + 4.0) * eps * want;
            if agree(&format!("mse.value:offset-targets-{}", class), "mean_squared_error", T::TAG, f(v), want, tol, &input) && T::TAG == "f64" && r.rss != 0 {
                headroom!("mse_offset", (f(v) - want).abs(), tol);
            }
            out[0] = f(v);
        }
        Err(p) => mc::violation(panic_site("mse", "equal-length", &p), format!("mean_squared_error<{}> panicked: {}; {}", T::TAG, p.brief(), input())),
    }
    match mc::guard(|| metrics::mean_absolute_error(&x, &y)) {
        Ok(v) => {
            let want = r.ras as f64 * r.unit / nf;
            let tol = 4.0 * (nf + 4.0) * eps * want;
            if agree(&format!("mae.value:offset-targets-{}", class), "mean_absolute_error", T::TAG, f(v), want, tol, &input) && T::TAG == "f64" && r.rss != 0 {
                headroom!("mae_offset", (f(v) - want).abs(), tol);
            }
            out[1] = f(v);
        }
        Err(p) => mc::violation(panic_site("mae", "equal-length", &p), format!("mean_absolute_error<{}> panicked: {}; {}", T::TAG, p.brief(), input())),
    }
    if r.sst_n > 0 {
        let q = (r.rss * n as i128) as f64 / r.sst_n as f64; // ss_res / ss_tot, exact up to two roundings
        let want = 1.0 - q;
        let ss_tot = r.sst_n as f64 / nf * r.unit * r.unit;
        // first order: (n+O(1)) roundings in each of the two sums and the quotient; second order: the
        // rounding error d of the computed mean (|d| <= n eps max|y|) enters ss_tot only as n d^2
        // (the differences y_i - mean are exact, all values lie within a factor 2 of each other)
        let second = 8.0 * nf * nf * nf * eps * eps * maxabs * maxabs / ss_tot;
        let tol = (1.0 + q) * (16.0 * (nf + 4.0) * eps + second);
        let class = if r.rss == 0 {
            "perfect-fit"
        } else if r.rss * n as i128 > r.sst_n {
            "worse-than-mean"
        } else {
            "between-0-and-1"
        };
        match mc::guard(|| metrics::r2(&x, &y)) {
            Ok(v) => {
                if agree(&format!("r2.value:offset-targets-{}", class), "r2", T::TAG, f(v), want, tol, &input) {
                    if T::TAG == "f64" {
                        headroom!("r2_offset_f64", (f(v) - want).abs(), tol);
                    } else {
                        headroom!("r2_offset_f32", (f(v) - want).abs(), tol);
                    }
                }
                mc::count(if T::TAG == "f64" { "r2_offset_judged_f64" } else { "r2_offset_judged_f32" });
                if (f(v) - want).abs() > (1.0 + q) * 16.0 * (nf + 4.0) * eps {
                    // within the tolerance only thanks to its second-order (rounded mean) term
                    mc::count("r2_offset_err_above_first_order_term");
                }
                if ss_tot < eps {
                    mc::count(if T::TAG == "f64" { "r2_ss_tot_below_epsilon_f64" } else { "r2_ss_tot_below_epsilon_f32" });
                    mc::count(if T::TAG == "f64" { "r2_offset_ss_tot_below_epsilon_f64" } else { "r2_offset_ss_tot_below_epsilon_f32" });
                }
                if ss_tot < eps * maxabs * maxabs {
                    mc::count("r2_offset_ss_tot_below_epsilon_times_mean_square");
                }
                if second > 1e-3 {
                    mc::count("r2_offset_tolerance_above_1e-3");
                }
                if want < 0.0 {
                    mc::count("r2_negative");
                }
                out[2] = f(v);
            }
            Err(p) => mc::violation(panic_site("r2", "equal-length", &p), format!("r2<{}> panicked: {}; {}", T::TAG, p.brief(), input())),
        }
    } else {
        mc::count("r2_undefined_constant_truth");
        if a.iter().any(|k| *k != a[0]) {
            mc::count("r2_offset_spread_lost_in_rounding_to_T");
        }
    }
    out
}

/// y_true = a * scale, y_pred = b * scale with integer a, b: the definitions are evaluated exactly
/// on the integers. Returns the library's (mse, mae, r2).
pub fn regression_case<T: Fl>(a: &[i64], b: &[i64], scale: f64, origin: &dyn Fn() -> String) -> [f64; 3] {
    let n = a.len();
    let ya: Vec<f64> = a.iter().map(|x| *x as f64 * scale).collect();
    let yb: Vec<f64> = b.iter().map(|x| *x as f64 * scale).collect();
    let (x, y): (Vec<T>, Vec<T>) = (tv(&ya), tv(&yb));
    let (mut rss, mut ras, mut sa, mut saa) = (0i128, 0i128, 0i128, 0i128);
    let mut amp = 1.0f64;
    let mut maxabs = 0i64;
    for i in 0..n {
        let d = (a[i] - b[i]) as i128;
        rss += d * d;
        ras += d.abs();
        sa += a[i] as i128;
        saa += (a[i] as i128) * (a[i] as i128);
        if d != 0 {
            amp = amp.max((a[i].abs() + b[i].abs()) as f64 / d.abs() as f64);
        }
        maxabs = maxabs.max(a[i].abs());
    }
    let sst_n = (n as i128) * saa - sa * sa; // n * sum (a - mean)^2
    let nf = n as f64;
    let eps = T::EPS;
    let input = || format!("y_true={}*{:e} y_pred={}*{:e}{}", show(a), scale, show(b), scale, origin());
    let mut out = [f64::NAN; 3];

    let class = if rss == 0 { "zero-residuals" } else { "nonzero-residuals" };
    match mc::guard(|| metrics::mean_squared_error(&x, &y)) {
        Ok(v) => {
            let want = rss as f64 * scale * scale / nf;
            let tol = 8.0 * (nf + 4.0) * amp * eps * want;
            if agree(&format!("mse.value:{}", class), "mean_squared_error", T::TAG, f(v), want, tol, &input) && T::TAG == "f64" && rss != 0 {
                headroom!("mse", (f(v) - want).abs(), tol);
            }
            out[0] = f(v);
        }
        Err(p) => mc::violation(panic_site("mse", "equal-length", &p), format!("mean_squared_error<{}> panicked: {}; {}", T::TAG, p.brief(), input())),
    }
    match mc::guard(|| metrics::mean_absolute_error(&x, &y)) {
        Ok(v) => {
            let want = ras as f64 * scale / nf;
            let tol = 4.0 * (nf + 4.0) * amp * eps * want;
            if agree(&format!("mae.value:{}", class), "mean_absolute_error", T::TAG, f(v), want, tol, &input) && T::TAG == "f64" && rss != 0 {
                headroom!("mae", (f(v) - want).abs(), tol);
            }
            out[1] = f(v);
        }
        Err(p) => mc::violation(panic_site("mae", "equal-length", &p), format!("mean_absolute_error<{}> panicked: {}; {}", T::TAG, p.brief(), input())),
    }
    if sst_n > 0 {
        let q = (rss * n as i128) as f64 / sst_n as f64; // ss_res / ss_tot
        let want = 1.0 - q;
        let cond = 1.0 + maxabs as f64 * (nf * nf / sst_n as f64).sqrt();
        let tol = 16.0 * (nf + 4.0) * amp * eps * (1.0 + q) * cond;
        let class = if rss == 0 {
            "perfect-fit"
        } else if rss * n as i128 > sst_n {
            "worse-than-mean"
        } else {
            "between-0-and-1"
        };
        match mc::guard(|| metrics::r2(&x, &y)) {
            Ok(v) => {
                if agree(&format!("r2.value:{}", class), "r2", T::TAG, f(v), want, tol, &input) && T::TAG == "f64" {
                    headroom!("r2", (f(v) - want).abs(), tol);
                }
                if want < 0.0 {
                    mc::count("r2_negative");
                }
                // non-constant truth whose total sum of squares is below the machine epsilon of T
                if sst_n as f64 / nf * scale * scale < eps {
                    mc::count(if T::TAG == "f64" { "r2_ss_tot_below_epsilon_f64" } else { "r2_ss_tot_below_epsilon_f32" });
                }
                out[2] = f(v);
            }
            Err(p) => mc::violation(panic_site("r2", "equal-length", &p), format!("r2<{}> panicked: {}; {}", T::TAG, p.brief(), input())),
        }
    } else {
        mc::count("r2_undefined_constant_truth");
    }
    out
}

// =====================================================================================================
// homogeneity / completeness / V-measure
// =====================================================================================================

pub const HCV_TOL: f64 = 1e-12;

fn hcv_call(yt: &[f64], yp: &[f64]) -> Result<(f64, f64, f64), mc::PanicInfo> {
    let (a, b) = (yt.to_vec(), yp.to_vec());
    mc::guard(|| ClusterMetrics::hcv_score().get_score(&a, &b))
}

fn same_or_both_nan(x: f64, y: f64) -> Option<bool> {
    // None: both NaN / infinite (already reported by the definition check); Some(ok) otherwise
    if !x.is_finite() && !y.is_finite() {
        None
    } else {
        Some((x - y).abs() <= 2.0 * HCV_TOL)
    }
}

thread_local! {
    /// write every second occurrence of the label value 0 as -0.0 (set by the length-sweep family)
    pub static SIGNED_ZEROS: std::cell::Cell<bool> = std::cell::Cell::new(false);
}

/// `ci`, `ki`: class / cluster indices (0..8) of the samples; `map_t`, `map_p`: index → label value.
/// `renames`: further (map_t, map_p) renamings under which the scores must not change.
/// Returns the library's (h, c, v).
pub fn hcv_case(ci: &[usize], ki: &[usize], map_t: &[i64; 8], map_p: &[i64; 8], renames: &[(usize, usize)], functions_too: bool, origin: &dyn Fn() -> String) -> [f64; 3] {
    let mut yt: Vec<f64> = ci.iter().map(|c| map_t[*c] as f64).collect();
    let mut yp: Vec<f64> = ki.iter().map(|k| map_p[*k] as f64).collect();
    // signed zeros: 0.0 and -0.0 are the same label value (they compare equal); when the flag is set
    // every second occurrence of the label 0 is written as -0.0
    if SIGNED_ZEROS.with(|f| f.get()) {
        for v in [&mut yt, &mut yp] {
            let mut seen = 0usize;
            for e in v.iter_mut() {
                if *e == 0.0 {
                    if seen % 2 == 1 {
                        *e = -0.0;
                    }
                    seen += 1;
                }
            }
        }
    }
    let t = table_of(ci, ki);
    let r = hcv_ref(&t);
    let input = || format!("labels_true={} labels_pred={} (contingency {:?}){}", show(&yt), show(&yp), t, origin());
    let single_true = r.classes == 1;
    let single_pred = r.clusters == 1;
    if single_true {
        mc::count("hcv_single_class_true");
    }
    if single_pred {
        mc::count("hcv_single_class_pred");
    }
    if r.hck_zero && !single_true {
        mc::count("hcv_H(C|K)=0_multiclass");
    }
    if r.hkc_zero && !single_pred {
        mc::count("hcv_H(K|C)=0_multicluster");
    }
    if r.independent && !single_true && !single_pred {
        mc::count("hcv_independent_multiclass");
    }
    if r.hck_zero && r.hkc_zero && !single_true {
        mc::count("hcv_identical_partitions_multiclass");
    }
    let (h, c, v) = match hcv_call(&yt, &yp) {
        Ok(x) => x,
        Err(p) => {
            let class = if single_true || single_pred { "single-class-labelling" } else { "multi-class-labellings" };
            mc::violation(panic_site("hcv", class, &p), format!("hcv_score().get_score panicked: {}; {}", p.brief(), input()));
            return [f64::NAN; 3];
        }
    };
    // ---- each score against its definition (which includes "= 1 when the conditional entropy is 0")
    let class_h = if single_true {
        "labels_true-single-class"
    } else if r.hck_zero {
        "conditional-entropy-zero"
    } else if r.independent {
        "independent-labellings"
    } else {
        "general"
    };
    let class_c = if single_pred {
        "labels_pred-single-class"
    } else if r.hkc_zero {
        "conditional-entropy-zero"
    } else if r.independent {
        "independent-labellings"
    } else {
        "general"
    };
    let class_v = if single_true || single_pred {
        "single-class-labelling"
    } else if r.hck_zero && r.hkc_zero {
        "identical-partitions"
    } else if r.independent {
        "independent-labellings"
    } else {
        "general"
    };
    for (name, lib, want, class) in [("homogeneity", h, r.h, class_h), ("completeness", c, r.c, class_c), ("v_measure", v, r.v, class_v)] {
        // (values are printed with 10 digits: the last ulps of the library's entropy sums depend on
        // hash-map iteration order, and a replayed violation must print identically)
        if !lib.is_finite() {
            mc::violation(format!("hcv.{}.not-finite:{}", name, class), format!("{} = {} but the definition gives {:.10e}; {}", name, lib, want, input()));
            continue;
        }
        let err = (lib - want).abs();
        if err <= HCV_TOL {
            headroom!("hcv", err, HCV_TOL);
        } else {
            mc::violation(format!("hcv.{}.value:{}", name, class), format!("{} = {:.10e} but the definition gives {:.10e} (|diff| = {:.1e}, tolerance {:e}); {}", name, lib, want, err, HCV_TOL, input()));
        }
        // range [0,1]: the lower bound is exact (the library clamps the mutual information at 0),
        // the upper bound is checked with the rounding tolerance
        if lib < 0.0 {
            mc::violation(format!("hcv.{}.range:negative", name), format!("{} = {:.3e} < 0; {}", name, lib, input()));
        } else if lib > 1.0 + HCV_TOL {
            mc::violation(format!("hcv.{}.range:above-one", name), format!("{} = {:.10e} > 1; {}", name, lib, input()));
        } else if lib > 1.0 {
            mc::count("hcv_above_one_within_rounding");
        }
    }
    // ---- exchange of the arguments: homogeneity <-> completeness, V unchanged
    match hcv_call(&yp, &yt) {
        Ok((h2, c2, v2)) => {
            for (what, x, y) in [("homogeneity(a,b) vs completeness(b,a)", h, c2), ("completeness(a,b) vs homogeneity(b,a)", c, h2), ("v_measure(a,b) vs v_measure(b,a)", v, v2)] {
                if same_or_both_nan(x, y) == Some(false) {
                    mc::violation(
                        format!("hcv.swap:{}", if what.starts_with('v') { "v_measure-not-symmetric" } else { "homogeneity-completeness-not-exchanged" }),
                        format!("{}: {:.10e} vs {:.10e}; {}", what, x, y, input()),
                    );
                }
            }
        }
        Err(p) => mc::violation(panic_site("hcv", "swapped-arguments", &p), format!("get_score panicked with the arguments exchanged: {}; {}", p.brief(), input())),
    }
    // ---- renaming of labels
    for (rt, rp) in renames {
        let (nt, np) = (&RENAMINGS[*rt], &RENAMINGS[*rp]);
        let zt: Vec<f64> = ci.iter().map(|c| nt.1[*c] as f64).collect();
        let zp: Vec<f64> = ki.iter().map(|k| np.1[*k] as f64).collect();
        mc::count("hcv_renamed");
        match hcv_call(&zt, &zp) {
            Ok((h3, c3, v3)) => {
                for (what, x, y) in [("homogeneity", h, h3), ("completeness", c, c3), ("v_measure", v, v3)] {
                    if same_or_both_nan(x, y) == Some(false) {
                        mc::violation(
                            format!("hcv.rename:{}-{}", nt.0, np.0),
                            format!("{} changes from {:.10e} to {:.10e} when labels_true is renamed to {} and labels_pred to {}; {}", what, x, y, show(&zt), show(&zp), input()),
                        );
                    }
                }
            }
            Err(p) => mc::violation(panic_site("hcv", &format!("renamed-{}-{}", nt.0, np.0), &p), format!("get_score panicked on renamed labels {} / {}: {}; {}", show(&zt), show(&zp), p.brief(), input())),
        }
    }
    // ---- the three public functions return the components of get_score
    if functions_too {
        let r3 = mc::guard(|| (metrics::homogeneity_score(&yt, &yp), metrics::completeness_score(&yt, &yp), metrics::v_measure_score(&yt, &yp)));
        match r3 {
            Ok((h4, c4, v4)) => {
                for (what, x, y) in [("homogeneity_score", h, h4), ("completeness_score", c, c4), ("v_measure_score", v, v4)] {
                    if same_or_both_nan(x, y) == Some(false) {
                        mc::violation(format!("hcv.functions:{}-differs-from-get_score", what), format!("{} = {:.10e} but get_score gives {:.10e}; {}", what, y, x, input()));
                    }
                }
            }
            Err(p) => mc::violation(panic_site("hcv", "public-functions", &p), format!("homogeneity_score/completeness_score/v_measure_score panicked: {}; {}", p.brief(), input())),
        }
    }
    mc::describe(|| json!({"labels_true": yt, "labels_pred": yp, "n": r.n, "contingency": t, "library": {"homogeneity": h, "completeness": c, "v_measure": v}, "definition": {"homogeneity": r.h, "completeness": r.c, "v_measure": r.v}}));
    [h, c, v]
}

/// digest of entropy-derived values: rounded to 1e-10 absolute (the library sums in hash-map order)
pub fn digest_rounded(xs: &[f64]) -> u64 {
    xs.iter().fold(0x51ed_270b_1234_0001, |h, x| mc::hash::mix(h, if x.is_nan() { u64::MAX } else { (x * 1e10).round() as i64 as u64 }))
}
