//! C00 — self-test of the machinery (not a property): a toy "library" with injectable faults, to
//! show that the driver turns hangs, aborts, runaway allocation, nondeterminism and vacuity into the
//! right exit codes. Fault selected by MC_SELFTEST = ok | viol | hang | abort | oom | diverge | vacuous | flaky | ghost.

use mc_core::{self as mc, json, Harness, Job, Plan, Tier};

struct C00;

fn mode() -> String {
    std::env::var("MC_SELFTEST").unwrap_or_else(|_| "ok".into())
}

impl Harness for C00 {
    fn id(&self) -> &'static str {
        "C00"
    }
    fn plan(&self, _tier: Tier, _seed: u64) -> Plan {
        Plan {
            jobs: (0..8).map(|i| Job::new(format!("toy-{}", i), json!({"kind": "toy", "i": i}))).collect(),
            budget_s: 30,
            case_deadline_ms: 1500,
            floors: vec![("cases", if mode() == "vacuous" { 1_000_000 } else { 10 })],
            bounds: json!("8 jobs x 4 x 4 choices"),
        }
    }
    fn run(&self, job: &Job) {
        let i = job.u("i");
        let a = mc::choose(4);
        let b = mc::choose(4);
        mc::count("cases");
        mc::nontrivial();
        mc::outcome((a * 4 + b) as u64);
        mc::describe(|| json!({"i": i, "a": a, "b": b}));
        let target = i == 5 && a == 2 && b == 3;
        match mode().as_str() {
            "viol" if target => mc::violation("toy.op:target", format!("i={} a={} b={}", i, a, b)),
            "hang" if target => loop {
                std::hint::spin_loop();
            },
            "abort" if target => std::process::abort(),
            "oom" if target => {
                let mut v: Vec<Vec<u8>> = Vec::new();
                loop {
                    v.push(vec![1u8; 256 << 20]);
                }
            }
            "diverge" if a == 1 => {
                // a choice whose arity depends on wall-clock time: unowned nondeterminism
                let t = std::time::SystemTime::now().duration_since(std::time::UNIX_EPOCH).unwrap().subsec_nanos() as usize;
                let _ = mc::choose(2 + t % 3);
                let _ = mc::choose(2);
            }
            // seen by the explorer, never again in a replay
            "ghost" if target => {
                if !mc::sampling() {
                    mc::violation("toy.op:ghost", "only inside the explorer");
                }
            }
            "flaky" if target => {
                let t = std::time::SystemTime::now().duration_since(std::time::UNIX_EPOCH).unwrap().subsec_nanos();
                if t % 2 == 0 || !mc::sampling() {
                    mc::violation("toy.op:flaky", "only sometimes");
                }
            }
            _ => {}
        }
    }
    fn rule(&self) -> String {
        "toy".into()
    }
    fn assumptions(&self) -> Vec<String> {
        vec![]
    }
}

fn main() {
    mc::main(C00)
}
