//! Structured matrix families for C02 (DESIGN §3 / §4 C02). Every family is a finite, deterministic
//! catalogue indexed by (n, variant); every member is enumerated. `seed` only rotates parameters.

use crate::orc::{self, C};
use mc_core::oracle::{self as o, Mat};
use std::f64::consts::PI;

#[derive(Default, Clone)]
pub struct Case {
    /// the matrix at scale 1
    pub a: Mat,
    pub desc: String,
    /// exactly known spectrum at scale 1 — only given for NORMAL matrices (perfectly conditioned
    /// eigenvalues), where "the returned parts are the spectrum of A up to rounding relative to
    /// ||A||" can be compared value by value
    pub spectrum: Option<Vec<C>>,
    /// the spectrum is known to be all real with pairwise gaps >= 0.5: the eigenvalues at scale 1
    pub real_sep: Option<Vec<f64>>,
    /// exact monic characteristic polynomial (descending) at scale 1
    pub charpoly: Option<Vec<f64>>,
    /// non-vacuity counters this member contributes to
    pub tags: Vec<&'static str>,
}

pub const SYM_FAMILIES: &[&str] = &["diag", "blockdiag", "hadamard", "kron", "toeplitz", "minij", "rankone", "arrow", "wilkinson", "householder", "gram", "moddense", "reversal"];
pub const GEN_FAMILIES: &[&str] = &["triu", "tril", "trirep", "jordan", "sperm", "companion", "rotblocks", "badbal", "circulant", "skew", "symgen", "moddense"];

fn modm(x: i64, m: i64) -> i64 {
    ((x % m) + m) % m
}

/// Deterministic "random-like" dense integer matrix: a_ij = ((al*i + be*j + ga*i*j + de) mod m) - m/2.
const MODP: &[(i64, i64, i64, i64, i64)] = &[(7, 13, 1, 0, 11), (3, 5, 2, 1, 7), (1, 1, 1, 0, 5), (5, 2, 3, 4, 13), (2, 9, 5, 3, 17), (11, 4, 7, 2, 9)];

fn moddense(n: usize, v: usize, seed: u64) -> Mat {
    let (al, be, ga, de, m) = MODP[v % MODP.len()];
    let de = de + seed as i64;
    (0..n).map(|i| (0..n).map(|j| (modm(al * i as i64 + be * j as i64 + ga * (i * j) as i64 + de, m) - m / 2) as f64).collect()).collect()
}

fn toeplitz3(n: usize, a: f64, b: f64) -> Mat {
    let mut m = o::zeros(n, n);
    for i in 0..n {
        m[i][i] = a;
        if i + 1 < n {
            m[i][i + 1] = b;
            m[i + 1][i] = b;
        }
    }
    m
}

fn toeplitz3_spectrum(n: usize, a: f64, b: f64) -> Vec<f64> {
    // cos(pi/2) is snapped to its exact value 0
    (1..=n).map(|k| if 2 * k == n + 1 { a } else { a + 2.0 * b * (k as f64 * PI / (n as f64 + 1.0)).cos() }).collect()
}

fn hadamard(n: usize) -> Mat {
    let mut h = vec![vec![1.0]];
    while h.len() < n {
        let k = h.len();
        let mut g = o::zeros(2 * k, 2 * k);
        for i in 0..k {
            for j in 0..k {
                g[i][j] = h[i][j];
                g[i][j + k] = h[i][j];
                g[i + k][j] = h[i][j];
                g[i + k][j + k] = -h[i][j];
            }
        }
        h = g;
    }
    h
}

fn kron(a: &Mat, b: &Mat) -> Mat {
    let (ra, ca) = o::shape(a);
    let (rb, cb) = o::shape(b);
    let mut m = o::zeros(ra * rb, ca * cb);
    for i in 0..ra {
        for j in 0..ca {
            for k in 0..rb {
                for l in 0..cb {
                    m[i * rb + k][j * cb + l] = a[i][j] * b[k][l];
                }
            }
        }
    }
    m
}

fn direct_sum(blocks: &[Mat]) -> Mat {
    let n: usize = blocks.iter().map(|b| b.len()).sum();
    let mut m = o::zeros(n, n);
    let mut off = 0;
    for b in blocks {
        for i in 0..b.len() {
            for j in 0..b.len() {
                m[off + i][off + j] = b[i][j];
            }
        }
        off += b.len();
    }
    m
}

fn real_spec(v: Vec<f64>) -> Option<Vec<C>> {
    Some(v.into_iter().map(|x| (x, 0.0)).collect())
}

fn is_pow2(n: usize) -> bool {
    n >= 1 && n & (n - 1) == 0
}

// ------------------------------------------------------------------------------------------------
// symmetric families

pub fn sym_variants(fam: &str, n: usize) -> usize {
    match fam {
        "diag" => 5,
        "blockdiag" => {
            if n >= 2 {
                4
            } else {
                0
            }
        }
        "hadamard" => {
            if is_pow2(n) && n >= 2 {
                3
            } else {
                0
            }
        }
        "kron" => {
            let mut c = 0;
            if n % 2 == 0 && n >= 4 {
                c += 4;
            }
            if n % 3 == 0 && n >= 6 {
                c += 2;
            }
            c
        }
        "toeplitz" => 4,
        "minij" => 2,
        "rankone" => 6,
        "arrow" => {
            if n >= 2 {
                3
            } else {
                0
            }
        }
        "wilkinson" => {
            if n >= 3 && n % 2 == 1 {
                2
            } else {
                0
            }
        }
        "householder" => {
            if n >= 2 {
                3
            } else {
                0
            }
        }
        "gram" => {
            if n >= 2 {
                3
            } else {
                0
            }
        }
        "moddense" => MODP.len(),
        "reversal" => {
            if n >= 2 {
                3
            } else {
                0
            }
        }
        _ => 0,
    }
}

pub fn sym_case(fam: &str, n: usize, v: usize, seed: u64) -> Case {
    let mut c = Case::default();
    c.desc = format!("{} n={} variant={}", fam, n, v);
    match fam {
        "diag" => {
            let graded: Vec<f64> = (0..n).map(|i| if n == 1 { 1.0 } else { 10f64.powf(-6.0 * i as f64 / (n as f64 - 1.0)) }).collect();
            let d: Vec<f64> = match v {
                0 => graded.clone(),
                1 => graded.iter().rev().cloned().collect(),
                2 => (0..n).map(|i| if i % 2 == 0 { graded[i / 2] } else { graded[n - 1 - i / 2] }).collect(),
                3 => (0..n).map(|i| ((i + seed as usize) / 2) as f64).collect(),
                _ => (0..n).map(|i| if i % 2 == 0 { (i + 1) as f64 } else { -((i + 1) as f64) }).collect(),
            };
            c.a = o::diag(&d);
            c.spectrum = real_spec(d);
            c.tags = vec!["sym_fam_deflation"];
            if v == 3 {
                c.tags.push("sym_fam_repeated");
            }
        }
        "blockdiag" => {
            let b2: [(f64, f64); 4] = [(2.0, 1.0), (0.0, 1.0), (-1.0, 2.0), (1.0, 1.0)];
            let t3 = toeplitz3(3, 2.0, -1.0);
            let mut blocks: Vec<Mat> = Vec::new();
            let mut left = n;
            let mut k = seed as usize;
            match v {
                0 => {
                    while left >= 2 {
                        let (a, b) = b2[k % 4];
                        blocks.push(vec![vec![a, b], vec![b, a]]);
                        left -= 2;
                        k += 1;
                    }
                }
                1 => {
                    while left >= 3 {
                        blocks.push(t3.clone());
                        left -= 3;
                    }
                }
                2 => {
                    let sizes = [1usize, 2, 3];
                    while left > 0 {
                        let s = sizes[k % 3].min(left);
                        blocks.push(match s {
                            1 => vec![vec![(k % 5) as f64 - 2.0]],
                            2 => {
                                let (a, b) = b2[k % 4];
                                vec![vec![a, b], vec![b, a]]
                            }
                            _ => t3.clone(),
                        });
                        left -= s;
                        k += 1;
                    }
                }
                _ => {
                    let h = n / 2;
                    blocks.push(toeplitz3(h, 2.0, -1.0));
                    blocks.push(toeplitz3(n - h, 2.0, -1.0));
                    left = 0;
                    c.tags.push("sym_fam_repeated");
                }
            }
            while left > 0 {
                blocks.push(vec![vec![left as f64]]);
                left -= 1;
            }
            c.a = direct_sum(&blocks);
            c.tags.push("sym_fam_deflation");
        }
        "hadamard" => {
            let h = hadamard(n);
            let d: Vec<f64> = match v {
                0 => (0..n).map(|i| (1 + i / 2) as f64).collect(),
                1 => (0..n).map(|i| if i == (seed as usize) % n { 0.0 } else { 1.0 }).collect(),
                _ => (0..n).map(|i| i as f64 - 1.0).collect(),
            };
            let m = o::matmul(&o::matmul(&h, &o::diag(&d)), &o::transpose(&h));
            c.a = o::scale(&m, 1.0 / n as f64);
            c.spectrum = real_spec(d);
            if v < 2 {
                c.tags.push("sym_fam_repeated");
            }
        }
        "kron" => {
            let b2a: Mat = vec![vec![2.0, 1.0], vec![1.0, 2.0]];
            let b2b: Mat = vec![vec![0.0, 1.0], vec![1.0, 0.0]];
            let t3 = toeplitz3(3, 2.0, -1.0);
            let mut opts: Vec<(Mat, bool)> = Vec::new();
            if n % 2 == 0 && n >= 4 {
                opts.push((b2a.clone(), true));
                opts.push((b2a, false));
                opts.push((b2b.clone(), true));
                opts.push((b2b, false));
            }
            if n % 3 == 0 && n >= 6 {
                opts.push((t3.clone(), true));
                opts.push((t3, false));
            }
            let (b, left) = opts[v].clone();
            let m = n / b.len();
            c.a = if left { kron(&o::eye(m), &b) } else { kron(&b, &o::eye(m)) };
            c.tags = vec!["sym_fam_repeated"];
            if left {
                c.tags.push("sym_fam_deflation");
            }
        }
        "toeplitz" => {
            let (a, b) = [(2.0, -1.0), (0.0, 1.0), (-2.0, 1.0), (4.0, 1.0)][v];
            c.a = toeplitz3(n, a, b);
            c.spectrum = real_spec(toeplitz3_spectrum(n, a, b));
            c.tags = vec!["sym_fam_closed_form"];
        }
        "minij" => {
            let sgn = if v == 0 { 1.0 } else { -1.0 };
            c.a = (0..n).map(|i| (0..n).map(|j| sgn * (i.min(j) + 1) as f64).collect()).collect();
            c.spectrum = real_spec((1..=n).map(|k| sgn / (2.0 - 2.0 * ((2 * k - 1) as f64 * PI / (2 * n + 1) as f64).cos())).collect());
            c.tags = vec!["sym_fam_closed_form"];
        }
        "rankone" => {
            let u: Vec<f64> = match v % 3 {
                0 => (1..=n).map(|i| i as f64).collect(),
                1 => (0..n).map(|i| if i % 2 == 0 { 1.0 } else { -1.0 }).collect(),
                _ => (0..n).map(|i| if i == 0 || i == n - 1 { 1.0 } else { 0.0 }).collect(),
            };
            let delta = if v >= 3 { 1.0 + seed as f64 } else { 0.0 };
            c.a = (0..n).map(|i| (0..n).map(|j| u[i] * u[j] + if i == j { delta } else { 0.0 }).collect()).collect();
            let uu: f64 = if n == 1 && v % 3 == 2 { 1.0 } else { o::dot(&u, &u) };
            let mut s = vec![delta; n];
            s[0] = uu + delta;
            c.spectrum = real_spec(s);
            c.tags = vec!["sym_fam_repeated", "sym_fam_rank_deficient"];
        }
        "arrow" => {
            let mut m = o::zeros(n, n);
            match v {
                0 => {
                    for i in 0..n - 1 {
                        m[i][i] = (i + 1) as f64;
                        m[i][n - 1] = 1.0;
                        m[n - 1][i] = 1.0;
                    }
                }
                1 => {
                    for i in 1..n {
                        m[i][i] = (i + 1) as f64;
                        m[i][0] = 1.0;
                        m[0][i] = 1.0;
                    }
                }
                _ => {
                    for i in 0..n - 1 {
                        m[i][i] = 1.0;
                        m[i][n - 1] = (i + 1) as f64;
                        m[n - 1][i] = (i + 1) as f64;
                    }
                }
            }
            c.a = m;
        }
        "wilkinson" => {
            let m = (n - 1) / 2;
            let mut w = toeplitz3(n, 0.0, 1.0);
            for i in 0..n {
                let k = m as f64 - i as f64;
                w[i][i] = if v == 0 { k.abs() } else { k };
            }
            c.a = w;
            c.tags = vec!["sym_fam_close_pairs"];
        }
        "householder" => {
            let u: Vec<f64> = match v {
                0 => vec![1.0; n],
                1 => (1..=n).map(|i| i as f64).collect(),
                _ => (0..n).map(|i| if i % 3 == 0 { 2.0 } else { -1.0 }).collect(),
            };
            let uu = o::dot(&u, &u);
            c.a = (0..n).map(|i| (0..n).map(|j| (if i == j { 1.0 } else { 0.0 }) - 2.0 * u[i] * u[j] / uu).collect()).collect();
            let mut s = vec![1.0; n];
            s[n - 1] = -1.0;
            c.spectrum = real_spec(s);
            c.tags = vec!["sym_fam_repeated"];
        }
        "gram" => {
            let r = [1usize, 2, (n / 2).max(1)][v];
            let b = moddense(n, v + 1, seed);
            c.a = (0..n).map(|i| (0..n).map(|j| (0..r).map(|k| b[i][k] * b[j][k]).sum()).collect()).collect();
            c.tags = vec!["sym_fam_rank_deficient"];
        }
        "moddense" => {
            let b = moddense(n, v, seed);
            c.a = (0..n).map(|i| (0..n).map(|j| b[i][j] + b[j][i]).collect()).collect();
        }
        "reversal" => {
            let mut m = o::zeros(n, n);
            for i in 0..n {
                m[i][n - 1 - i] = 1.0;
            }
            match v {
                0 => {}
                1 => {
                    for i in 0..n {
                        m[i][i] += 1.0;
                    }
                }
                _ => {
                    // symmetric circulant with first row (2, 1, 0, .., 0, 1)
                    m = o::zeros(n, n);
                    for i in 0..n {
                        m[i][i] += 2.0;
                        m[i][(i + 1) % n] += 1.0;
                        m[(i + 1) % n][i] += 1.0;
                    }
                }
            }
            c.a = m;
            c.tags = vec!["sym_fam_repeated"];
        }
        _ => panic!("unknown symmetric family {}", fam),
    }
    c
}

// ------------------------------------------------------------------------------------------------
// general families

/// building blocks of companion-matrix root multisets: real roots and complex pairs x^2 + b x + c
const REAL_ROOTS: &[i64] = &[1, -1, 2, 0, -2, 3];
const QUADS: &[(i64, i64)] = &[(0, 1), (-2, 2), (2, 5), (-4, 5)]; // roots ±i, 1±i, -1±2i, 2±i

/// All multisets of building blocks (indices 0..6 real roots, 6..10 complex pairs) of total degree n.
pub fn companion_multisets(n: usize) -> Vec<Vec<usize>> {
    fn rec(start: usize, left: usize, cur: &mut Vec<usize>, out: &mut Vec<Vec<usize>>) {
        if left == 0 {
            out.push(cur.clone());
            return;
        }
        for b in start..REAL_ROOTS.len() + QUADS.len() {
            let deg = if b < REAL_ROOTS.len() { 1 } else { 2 };
            if deg <= left {
                cur.push(b);
                rec(b, left - deg, cur, out);
                cur.pop();
            }
        }
    }
    let mut out = Vec::new();
    rec(0, n, &mut Vec::new(), &mut out);
    out
}

const ROT: &[(f64, f64)] = &[(3.0 / 5.0, 4.0 / 5.0), (5.0 / 13.0, 12.0 / 13.0), (0.0, 1.0), (-4.0 / 5.0, 3.0 / 5.0)];

fn perfect_shuffle(n: usize) -> Vec<usize> {
    // position i receives index: evens first, then odds
    let mut p: Vec<usize> = (0..n).step_by(2).collect();
    p.extend((1..n).step_by(2));
    p
}

fn perm_similarity(a: &Mat, p: &[usize]) -> Mat {
    let n = a.len();
    (0..n).map(|i| (0..n).map(|j| a[p[i]][p[j]]).collect()).collect()
}

/// L A L^-1 with L = I + (ones on the first subdiagonal): L^-1 has entries (-1)^(i-j) below the diagonal.
fn unit_lower_similarity(a: &Mat) -> Mat {
    let n = a.len();
    let mut l = o::eye(n);
    let mut li = o::eye(n);
    for i in 0..n {
        for j in 0..i {
            if i == j + 1 {
                l[i][j] = 1.0;
            }
            li[i][j] = if (i - j) % 2 == 0 { 1.0 } else { -1.0 };
        }
    }
    o::matmul(&o::matmul(&l, a), &li)
}

pub fn gen_variants(fam: &str, n: usize, thorough: bool) -> usize {
    match fam {
        "triu" | "tril" => 9,
        "trirep" => 6,
        "jordan" => 6,
        "sperm" => {
            if n >= 2 {
                3 * (n - 1) + 6
            } else {
                0
            }
        }
        "companion" => {
            let cap = if thorough { 8 } else { 6 };
            if n <= cap {
                2 * companion_multisets(n).len()
            } else {
                0
            }
        }
        "rotblocks" => {
            if n >= 2 {
                ROT.len() * 3
            } else {
                0
            }
        }
        "badbal" => {
            if n >= 2 {
                3 * 4
            } else {
                0
            }
        }
        "circulant" => 6,
        "skew" => {
            if n >= 2 {
                MODP.len()
            } else {
                0
            }
        }
        "symgen" => 4,
        "moddense" => MODP.len(),
        _ => 0,
    }
}

fn rotblock_sum(n: usize, offset: usize) -> (Mat, Vec<C>) {
    let mut blocks: Vec<Mat> = Vec::new();
    let mut spec: Vec<C> = Vec::new();
    let mut left = n;
    let mut k = offset;
    while left > 0 {
        if left >= 2 && k % 3 != 2 {
            let (cs, sn) = ROT[k % ROT.len()];
            let rho = if k % 2 == 0 { 1.0 } else { 2.0 };
            blocks.push(vec![vec![rho * cs, -rho * sn], vec![rho * sn, rho * cs]]);
            spec.push((rho * cs, rho * sn));
            spec.push((rho * cs, -rho * sn));
            left -= 2;
        } else {
            let x = [1.0, -1.0, 2.0, 3.0][k % 4];
            blocks.push(vec![vec![x]]);
            spec.push((x, 0.0));
            left -= 1;
        }
        k += 1;
    }
    (direct_sum(&blocks), spec)
}

pub fn gen_case(fam: &str, n: usize, v: usize, seed: u64) -> Case {
    let mut c = Case::default();
    c.desc = format!("{} n={} variant={}", fam, n, v);
    let sd = seed as usize;
    match fam {
        "triu" | "tril" | "trirep" => {
            let (dv, ov) = (v / 3, v % 3);
            let diag: Vec<f64> = if fam == "trirep" {
                match dv {
                    0 => (0..n).map(|i| (1 + i / 2) as f64).collect(),
                    _ => vec![2.0; n],
                }
            } else {
                match dv {
                    0 => (1..=n).map(|i| i as f64).collect(),
                    1 => (1..=n).rev().map(|i| i as f64).collect(),
                    _ => (0..n).map(|i| if i % 2 == 0 { (i / 2 + 1) as f64 } else { (n - i / 2) as f64 + 0.5 }).collect(),
                }
            };
            let mut m = o::zeros(n, n);
            for i in 0..n {
                m[i][i] = diag[i];
                for j in i + 1..n {
                    m[i][j] = match ov {
                        0 => 1.0,
                        1 => {
                            if (i + j) % 2 == 0 {
                                1.0
                            } else {
                                -1.0
                            }
                        }
                        _ => ((i + 2 * j + sd) % 3) as f64 - 1.0,
                    };
                }
            }
            let lower = fam == "tril" || (fam == "trirep" && v % 2 == 1);
            c.a = if lower { o::transpose(&m) } else { m };
            if fam != "trirep" {
                c.real_sep = Some(diag.clone());
                c.tags = vec!["gen_fam_real_separated"];
            } else {
                c.tags = vec!["gen_fam_defective"];
            }
        }
        "jordan" => {
            let lam = [0.0, 1.0, -2.0][v % 3];
            let mut m = o::zeros(n, n);
            for i in 0..n {
                m[i][i] = lam;
                if i + 1 < n {
                    if v < 3 {
                        m[i][i + 1] = 1.0;
                    } else {
                        m[i + 1][i] = 1.0;
                    }
                }
            }
            c.a = m;
            c.tags = vec!["gen_fam_defective"];
        }
        "sperm" => {
            // signed permutation matrices: every cyclic shift x 3 sign patterns, then reversal /
            // perfect shuffle x 3 sign patterns
            let nshift = 3 * (n - 1);
            let (perm, sv): (Vec<usize>, usize) = if v < nshift {
                let k = v / 3 + 1;
                ((0..n).map(|i| (i + k) % n).collect(), v % 3)
            } else {
                let w = v - nshift;
                (if w < 3 { (0..n).rev().collect() } else { perfect_shuffle(n) }, w % 3)
            };
            let sign: Vec<f64> = (0..n)
                .map(|i| match sv {
                    0 => 1.0,
                    1 => {
                        if i == (n - 1 + sd) % n {
                            -1.0
                        } else {
                            1.0
                        }
                    }
                    _ => {
                        if i % 2 == 0 {
                            1.0
                        } else {
                            -1.0
                        }
                    }
                })
                .collect();
            let mut m = o::zeros(n, n);
            for i in 0..n {
                m[i][perm[i]] = sign[i];
            }
            c.a = m;
            c.spectrum = Some(orc::signed_perm_spectrum(&perm, &sign));
            c.tags = vec!["gen_fam_normal"];
            if v < nshift && n >= 3 {
                c.tags.push("gen_fam_exceptional_shift_candidate");
            }
        }
        "companion" => {
            let ms = companion_multisets(n);
            let (mi, form) = (v / 2, v % 2);
            let blocks = &ms[mi];
            let rr: Vec<i64> = blocks.iter().filter(|b| **b < REAL_ROOTS.len()).map(|b| REAL_ROOTS[*b]).collect();
            let qq: Vec<(i64, i64)> = blocks.iter().filter(|b| **b >= REAL_ROOTS.len()).map(|b| QUADS[*b - REAL_ROOTS.len()]).collect();
            let p = orc::poly_from_factors(&rr, &qq);
            let mut m = o::zeros(n, n);
            for i in 0..n {
                if form == 0 {
                    // first row holds -c1..-cn, ones on the subdiagonal
                    m[0][i] = -(p[i + 1] as f64);
                    if i + 1 < n {
                        m[i + 1][i] = 1.0;
                    }
                } else {
                    // last column holds -cn..-c1, ones on the subdiagonal
                    m[i][n - 1] = -(p[n - i] as f64);
                    if i + 1 < n {
                        m[i + 1][i] = 1.0;
                    }
                }
            }
            c.a = m;
            c.charpoly = Some(p.iter().map(|x| *x as f64).collect());
            let mut sorted = rr.clone();
            sorted.sort();
            let distinct_real = qq.is_empty() && sorted.windows(2).all(|w| w[0] != w[1]);
            if distinct_real {
                c.real_sep = Some(rr.iter().map(|x| *x as f64).collect());
                c.tags.push("gen_fam_real_separated");
            }
            if !qq.is_empty() {
                c.tags.push("gen_fam_complex");
            }
            c.desc = format!("companion n={} form={} real roots {:?} quadratic factors (b,c) {:?}", n, form, rr, qq);
        }
        "rotblocks" => {
            let (off, sim) = (v / 3 + sd, v % 3);
            let (b, spec) = rotblock_sum(n, off);
            match sim {
                0 => {
                    c.a = b;
                    c.spectrum = Some(spec);
                    c.tags = vec!["gen_fam_normal", "gen_fam_complex"];
                }
                1 => {
                    c.a = perm_similarity(&b, &perfect_shuffle(n));
                    c.spectrum = Some(spec);
                    c.tags = vec!["gen_fam_normal", "gen_fam_complex"];
                }
                _ => {
                    c.a = unit_lower_similarity(&b);
                    c.tags = vec!["gen_fam_complex"];
                }
            }
        }
        "badbal" => {
            // D A D^-1, D = diag(2^k_i): exactly similar to A, badly balanced
            let (av, dvv) = (v / 4, v % 4);
            let a: Mat = match av {
                0 => toeplitz3(n, 2.0, -1.0),
                1 => perm_similarity(&rotblock_sum(n, sd).0, &perfect_shuffle(n)),
                _ => moddense(n, 1, seed),
            };
            let k: Vec<i32> = (0..n as i32)
                .map(|i| match dvv {
                    0 => (i * 12) / (n as i32 - 1).max(1),
                    1 => 12 - (i * 12) / (n as i32 - 1).max(1),
                    2 => {
                        if i % 2 == 0 {
                            6
                        } else {
                            -6
                        }
                    }
                    _ => (i * 5) % 13,
                })
                .collect();
            c.a = (0..n).map(|i| (0..n).map(|j| a[i][j] * 2f64.powi(k[i] - k[j])).collect()).collect();
            c.tags = vec!["gen_fam_badly_balanced"];
        }
        "circulant" => {
            let first: Vec<f64> = match v {
                0 => (1..=n).map(|i| i as f64).collect(),
                1 => (0..n).map(|i| if i == 0 || i == n - 1 { 1.0 } else { 0.0 }).collect(),
                2 => (0..n).map(|i| ((3 * i + 1 + sd) % 5) as f64 - 2.0).collect(),
                3 => (0..n).map(|i| ((2 * i + 3 + sd) % 5) as f64 - 2.0).collect(),
                4 => (0..n).map(|i| if i == 1 % n { 1.0 } else if i == 2 % n { -2.0 } else { 0.0 }).collect(),
                _ => (0..n).map(|i| ((i * i + sd) % 7) as f64 - 3.0).collect(),
            };
            c.a = (0..n).map(|i| (0..n).map(|j| first[(j + n - i) % n]).collect()).collect();
            c.spectrum = Some(
                (0..n)
                    .map(|j| {
                        let (mut re, mut im) = (0.0, 0.0);
                        for k in 0..n {
                            let ang = 2.0 * PI * ((j * k) % n) as f64 / n as f64;
                            re += first[k] * ang.cos();
                            im += first[k] * ang.sin();
                        }
                        (re, im)
                    })
                    .collect(),
            );
            c.tags = vec!["gen_fam_normal"];
        }
        "skew" => {
            let b = moddense(n, v, seed);
            let s: Mat = (0..n).map(|i| (0..n).map(|j| b[i][j] - b[j][i]).collect()).collect();
            // spectrum ±i*sigma, sigma = the singular values of S (each twice), from the oracle's one-sided Jacobi
            let sv = o::singular_values(&s);
            let mut spec: Vec<C> = Vec::new();
            let mut i = 0;
            while i + 1 < n {
                let sg = 0.5 * (sv[i] + sv[i + 1]);
                spec.push((0.0, sg));
                spec.push((0.0, -sg));
                i += 2;
            }
            if n % 2 == 1 {
                spec.push((0.0, 0.0));
            }
            c.a = s;
            c.spectrum = Some(spec);
            c.tags = vec!["gen_fam_normal", "gen_fam_complex"];
        }
        "symgen" => {
            // symmetric matrices given to the general solver
            let mut sep = false;
            match v {
                0 => {
                    let mut m = toeplitz3(n, 0.0, 1.0);
                    for i in 0..n {
                        m[i][i] = 2.0 * (i + 1) as f64;
                    }
                    c.a = m;
                    sep = true;
                    c.tags = vec!["gen_fam_real_separated", "gen_fam_normal"];
                }
                1 => {
                    let mut m = toeplitz3(n, 0.0, -1.0);
                    for i in 0..n {
                        m[i][i] = 3.0 * (n - i) as f64;
                    }
                    c.a = m;
                    sep = true;
                    c.tags = vec!["gen_fam_real_separated", "gen_fam_normal"];
                }
                2 => {
                    c.a = toeplitz3(n, 2.0, -1.0);
                    c.spectrum = real_spec(toeplitz3_spectrum(n, 2.0, -1.0));
                    c.tags = vec!["gen_fam_normal"];
                }
                _ => {
                    let b = moddense(n, 2, seed);
                    c.a = (0..n).map(|i| (0..n).map(|j| b[i][j] + b[j][i]).collect()).collect();
                    c.tags = vec!["gen_fam_normal"];
                }
            }
            if c.spectrum.is_none() {
                let (ev, _) = o::jacobi_eig(&c.a);
                c.spectrum = real_spec(ev);
            }
            if sep {
                c.real_sep = c.spectrum.as_ref().map(|s| s.iter().map(|z| z.0).collect());
            }
        }
        "moddense" => {
            c.a = moddense(n, v, seed);
        }
        _ => panic!("unknown general family {}", fam),
    }
    c
}
