//! C02 — eigen-decomposition returns genuine eigenvalues and eigenvectors.
//!
//! E1 over (matrix, scale, width): every symmetric / general matrix of a small order over a small
//! integer alphabet (the lattice), plus finite catalogues of structured matrices up to n = 30, each
//! at power-of-two scales 2^-40 .. 2^40 and in f64 and f32, is given to the real `evd(true)` /
//! `evd(false)`; the result is judged by definition-level oracles evaluated in f64 (orthonormality,
//! A V = V D residuals, ordering, conjugate pairing, trace identities, backward-error eigenvector
//! residuals, exact characteristic polynomials, closed-form spectra of normal matrices).

mod fam;
mod orc;

use mc_core::oracle::{self as o, Mat};
use mc_core::{self as mc, json, Harness, Job, Plan, Tier, Value};
use mc_sc::{dm, rows_of, vec_f64};
use orc::C;
use smartcore::linalg::evd::EVDDecomposableMatrix;
use smartcore::linalg::naive::dense_matrix::DenseMatrix;
use smartcore::math::num::RealNumber;

struct C02;

// ---- tolerances (units of eps_T, see NOTES.md for the calibration headroom) ----------------------
const C_SYM_ORTH: f64 = 64.0; // max |V^T V - I| <= 64 n eps
const C_SYM_RESID: f64 = 64.0; // ||A v_j - d_j v_j||_2 <= 64 n eps ||A||_F
const C_SYM_SPEC: f64 = 256.0; // |d_i - lambda_i(reference)| <= 256 n eps ||A||_F
const C_GEN: f64 = 256.0; // traces, eigenvector residuals, pairing, roots, normal spectra

/// Extra factor on the eigenvector-residual bound of the GENERAL solver: max(1, (n/4)^2). The
/// reduction to Hessenberg form uses non-orthogonal elementary similarity transformations, so the
/// backward error of a back-substituted eigenvector carries their growth; on the structured
/// families (unit-lower-triangular similarities of rotation blocks, n = 20..30) it reaches
/// 2100 n eps ||A||, i.e. 8x the lattice-calibrated 256 n eps. With the factor the bound is
/// 16 n^3 eps for n >= 4 — still 8+ orders below what a wrong index / sign / pivot produces.
fn growth(n: usize) -> f64 {
    let q = n as f64 / 4.0;
    (q * q).max(1.0)
}

const SIGMA: [i64; 5] = [0, 1, -1, 2, -2];
const SCALES: [i32; 5] = [0, -40, 40, -20, 20];
/// seed -> (multiplier, additive quarter offset) applied to the integer alphabet (seed 0 = plain)
const PERTURB: [(i64, i64); 8] = [(1, 0), (3, 0), (1, 1), (5, 0), (1, 3), (7, 0), (3, 2), (5, 1)];

#[derive(Default)]
struct RealSep {
    /// isolating intervals of the eigenvalues at scale 1, ascending (lo == hi: exactly known)
    intervals: Vec<(f64, f64)>,
    /// an eigenvalue may be reported up to `slack` outside its interval
    slack: f64,
    /// condition number of the true eigenvector matrix (multiplies the residual tolerance)
    cond: f64,
}

#[derive(Default)]
struct Expect {
    spectrum: Option<Vec<C>>,
    charpoly: Option<Vec<f64>>,
    real_sep: Option<RealSep>,
    multiple: Multiplicity,
}

/// Does the exact spectrum have a multiple eigenvalue? (input class of a convergence failure)
#[derive(Default)]
enum Multiplicity {
    #[default]
    Unknown,
    Known(bool),
    /// the spectrum is known (normal families)
    Spectrum(Vec<C>),
    /// decided on demand from the exact integer characteristic polynomial
    FromPoly(Vec<i64>),
    /// decided on demand from the numerical rank (oracle's one-sided Jacobi): nullity >= 2 means the
    /// eigenvalue 0 is multiple; otherwise unknown
    FromRank(Mat),
}

impl Multiplicity {
    fn class(&self) -> &'static str {
        match self {
            Multiplicity::Unknown => ":multiplicity-unknown",
            Multiplicity::Known(true) => ":repeated-eigenvalue",
            Multiplicity::Known(false) => ":simple-spectrum",
            Multiplicity::Spectrum(sp) => {
                let scale = sp.iter().map(|z| orc::cabs(*z)).fold(0.0f64, f64::max).max(1e-300);
                if (0..sp.len()).any(|i| (0..i).any(|j| orc::cabs((sp[i].0 - sp[j].0, sp[i].1 - sp[j].1)) <= 1e-9 * scale)) {
                    ":repeated-eigenvalue"
                } else {
                    orc::spectrum_class(sp)
                }
            }
            Multiplicity::FromPoly(c) => {
                if orc::has_multiple_root(c) {
                    ":repeated-eigenvalue"
                } else {
                    let cls = orc::spectrum_class(&orc::roots_dk(&c.iter().map(|x| *x as f64).collect::<Vec<_>>()));
                    // the real / non-real split is decided exactly (Sturm), the root finder only decides "equimodular"
                    if cls == ":simple-equimodular-spectrum" {
                        cls
                    } else if orc::count_real_roots(c) == 0 {
                        ":simple-nonreal-spectrum"
                    } else {
                        ":simple-spectrum"
                    }
                }
            }
            Multiplicity::FromRank(a) => {
                let sv = o::singular_values(a);
                let top = sv.first().copied().unwrap_or(0.0);
                if sv.iter().filter(|x| **x <= 1e-9 * top).count() >= 2 {
                    ":repeated-eigenvalue"
                } else {
                    ":multiplicity-unknown"
                }
            }
        }
    }
}

// calibration: worst observed value / tolerance per clause
const CAL_NAMES: [&str; 10] = ["sym_orth", "sym_resid", "sym_spec", "gen_trace", "gen_trace2", "gen_eigvec", "gen_pairs", "gen_root", "gen_normal_spec", "gen_fullid"];
const CAL_BUCKETS: [[&str; 5]; 10] = [
    ["cal.sym_orth>=1/2", "cal.sym_orth>=1/4", "cal.sym_orth>=1/8", "cal.sym_orth>=1/16", "cal.sym_orth>=1/64"],
    ["cal.sym_resid>=1/2", "cal.sym_resid>=1/4", "cal.sym_resid>=1/8", "cal.sym_resid>=1/16", "cal.sym_resid>=1/64"],
    ["cal.sym_spec>=1/2", "cal.sym_spec>=1/4", "cal.sym_spec>=1/8", "cal.sym_spec>=1/16", "cal.sym_spec>=1/64"],
    ["cal.gen_trace>=1/2", "cal.gen_trace>=1/4", "cal.gen_trace>=1/8", "cal.gen_trace>=1/16", "cal.gen_trace>=1/64"],
    ["cal.gen_trace2>=1/2", "cal.gen_trace2>=1/4", "cal.gen_trace2>=1/8", "cal.gen_trace2>=1/16", "cal.gen_trace2>=1/64"],
    ["cal.gen_eigvec>=1/2", "cal.gen_eigvec>=1/4", "cal.gen_eigvec>=1/8", "cal.gen_eigvec>=1/16", "cal.gen_eigvec>=1/64"],
    ["cal.gen_pairs>=1/2", "cal.gen_pairs>=1/4", "cal.gen_pairs>=1/8", "cal.gen_pairs>=1/16", "cal.gen_pairs>=1/64"],
    ["cal.gen_root>=1/2", "cal.gen_root>=1/4", "cal.gen_root>=1/8", "cal.gen_root>=1/16", "cal.gen_root>=1/64"],
    ["cal.gen_normal_spec>=1/2", "cal.gen_normal_spec>=1/4", "cal.gen_normal_spec>=1/8", "cal.gen_normal_spec>=1/16", "cal.gen_normal_spec>=1/64"],
    ["cal.gen_fullid>=1/2", "cal.gen_fullid>=1/4", "cal.gen_fullid>=1/8", "cal.gen_fullid>=1/16", "cal.gen_fullid>=1/64"],
];

fn calibrating() -> bool {
    static ON: std::sync::OnceLock<bool> = std::sync::OnceLock::new();
    *ON.get_or_init(|| std::env::var("MC_CALIB").is_ok())
}

#[derive(Default)]
struct Out {
    /// (clause, what)
    viols: Vec<(&'static str, String)>,
    panic: Option<(String, String)>,
    returned: bool,
    d: Vec<f64>,
    e: Vec<f64>,
    v: Mat,
    a: Mat,
    cal: [f64; 10],
}

/// violations and calibration ratios accumulated while judging one returned decomposition
#[derive(Default)]
struct Acc {
    viols: Vec<(&'static str, String)>,
    cal: [f64; 10],
}

impl Acc {
    fn fail(&mut self, clause: &'static str, what: String) {
        if !self.viols.iter().any(|v| v.0 == clause) {
            self.viols.push((clause, what));
        }
    }
    /// records observed/tolerance for calibration and returns true when the bound is exceeded
    fn over(&mut self, cal: usize, observed: f64, tol: f64) -> bool {
        let bad = !(observed <= tol);
        let ratio = if observed == 0.0 {
            0.0
        } else if tol > 0.0 {
            observed / tol
        } else {
            f64::INFINITY
        };
        if ratio > self.cal[cal] || ratio.is_nan() {
            self.cal[cal] = ratio;
        }
        bad
    }
}

fn panic_site(comp: &str, p: &mc::PanicInfo) -> String {
    let m = &p.msg;
    let kind = if m.contains("add with overflow") {
        "add"
    } else if m.contains("subtract with overflow") {
        "sub"
    } else if p.is_overflow_check() {
        "arith"
    } else if m.contains("Too many iterations") {
        "no-convergence"
    } else if m.contains("index out of bounds") || m.contains("out of range") || m.contains("Invalid index") {
        "index"
    } else {
        "other"
    };
    format!("{}:panic-{}{}", comp, kind, if p.is_overflow_check() { ":overflow-check" } else { "" })
}

fn colv(v: &Mat, j: usize) -> Vec<f64> {
    v.iter().map(|r| r[j]).collect()
}

/// (||A v - lam v||_2, ||v||_2)
fn eig_resid(a: &Mat, v: &[f64], lam: f64) -> (f64, f64) {
    let n = a.len();
    let mut r = vec![0.0; n];
    for i in 0..n {
        let mut s = 0.0;
        for k in 0..n {
            s += a[i][k] * v[k];
        }
        r[i] = s - lam * v[i];
    }
    (o::norm2(&r), o::norm2(v))
}

fn fmt_mat(a: &Mat) -> String {
    let rows: Vec<String> = a.iter().map(|r| format!("[{}]", r.iter().map(|x| format!("{}", x)).collect::<Vec<_>>().join(","))).collect();
    format!("[{}]", rows.join(","))
}

/// One run of the real solver on `base * 2^sexp` in width T, judged against the statement.
fn judge<T: RealNumber>(base: &Mat, sym: bool, sexp: i32, exp: &Expect) -> Out {
    let s = 2f64.powi(sexp);
    let scaled: Mat = if sexp == 0 { base.clone() } else { o::scale(base, s) };
    let m: DenseMatrix<T> = dm::<T>(&scaled);
    let a: Mat = if std::mem::size_of::<T>() == 8 { scaled } else { rows_of(&m) }; // the actual input, exactly, as f64
    let n = a.len();
    let width: u8 = if std::mem::size_of::<T>() == 4 { 32 } else { 64 };
    let comp = if sym { "evd.sym" } else { "evd.general" };
    let r = mc::guard(|| m.evd(sym));
    let evd = match r {
        Err(p) => {
            let over = p.is_overflow_check();
            let mut site = panic_site(comp, &p);
            if !sym && site.ends_with("panic-no-convergence") {
                site.push_str(exp.multiple.class());
            }
            let what = format!(
                "{} of {} (n={}, {}, scale 2^{}): {}{}",
                if sym { "evd(true)" } else { "evd(false)" },
                fmt_mat(&a),
                n,
                if width == 32 { "f32" } else { "f64" },
                sexp,
                p.brief(),
                if over { " (only in builds with arithmetic overflow checks, e.g. the dev/test profile; plain release wraps)" } else { "" }
            );
            return Out { a, panic: Some((site, what)), ..Default::default() };
        }
        Ok(Err(e)) => {
            let what = format!("evd({}) of {} returned Err({})", sym, fmt_mat(&a), e);
            return Out { a, viols: vec![("error", what)], ..Default::default() };
        }
        Ok(Ok(x)) => x,
    };
    let (d, e, v) = (vec_f64(&evd.d), vec_f64(&evd.e), rows_of(&evd.V));
    let mut acc = Acc::default();
    check(&mut acc, &a, &d, &e, &v, sym, sexp, width, exp);
    Out { viols: acc.viols, cal: acc.cal, panic: None, returned: true, d, e, v, a }
}

/// The oracle proper: judges the returned (d, e, V) for the input `a` (f64 image of the actual input).
#[allow(clippy::too_many_arguments)]
fn check(out: &mut Acc, a: &Mat, d: &[f64], e: &[f64], v: &Mat, sym: bool, sexp: i32, width: u8, exp: &Expect) {
    let n = a.len();
    let s = 2f64.powi(sexp);
    let eps = o::eps_of(width);
    let hdr = || format!("{} n={} {} scale 2^{} A={}", if sym { "evd(true)" } else { "evd(false)" }, n, if width == 32 { "f32" } else { "f64" }, sexp, fmt_mat(a));
    if d.len() != n || e.len() != n || o::shape(v) != (n, n) {
        out.fail("shape", format!("{}: |d|={} |e|={} V is {:?}", hdr(), d.len(), e.len(), o::shape(v)));
        return;
    }
    if d.iter().chain(e.iter()).any(|x| !x.is_finite()) {
        out.fail("non-finite-eigenvalue", format!("{}: d={:?} e={:?}", hdr(), d, e));
        return;
    }
    let fro = o::fro(a);
    let nf = n as f64;
    if sym {
        // ---- imaginary parts all zero, eigenvalues non-increasing (exact comparisons)
        if e.iter().any(|x| *x != 0.0) {
            out.fail("imaginary-part-nonzero", format!("{}: e={:?}", hdr(), e));
        }
        if let Some(i) = (0..n.saturating_sub(1)).find(|&i| d[i] < d[i + 1]) {
            out.fail("order", format!("{}: d[{}]={:e} < d[{}]={:e}; d={:?}", hdr(), i, d[i], i + 1, d[i + 1], d));
        }
        if !o::all_finite(v) {
            out.fail("non-finite-eigenvector", format!("{}: V={}", hdr(), fmt_mat(v)));
            return;
        }
        // ---- orthonormal V
        let od = o::orth_defect(v);
        if out.over(0, od, C_SYM_ORTH * nf * eps) {
            // input class: at least 6 eigenvalues of A (reference spectrum) are zero relative to eps_T ||A||
            let (refd, _) = o::jacobi_eig(a);
            let zeros = refd.iter().filter(|x| x.abs() <= eps.max(1e-13) * fro).count();
            out.fail(if zeros >= 6 { "not-orthonormal:many-zero-eigenvalues" } else { "not-orthonormal" }, format!("{}: max|V^T V - I| = {:e} > {:e}; V={}", hdr(), od, C_SYM_ORTH * nf * eps, fmt_mat(v)));
        }
        // ---- A V = V diag(d) relative to ||A||
        let tol = C_SYM_RESID * nf * eps * fro;
        let mut worst = (0.0f64, 0usize);
        for j in 0..n {
            let (r, _) = eig_resid(a, &colv(v, j), d[j]);
            if r > worst.0 || r.is_nan() {
                worst = (r, j);
            }
        }
        if out.over(1, worst.0, tol) {
            out.fail("residual", format!("{}: ||A v_{} - d_{} v_{}|| = {:e} > {:e}; d={:?} V={}", hdr(), worst.1, worst.1, worst.1, worst.0, tol, d, fmt_mat(v)));
        }
        // ---- the values are the eigenvalues: reference spectrum from the oracle's cyclic Jacobi
        //      (implied by the two clauses above through Weyl's inequality, hence the larger constant)
        let (refd, _) = o::jacobi_eig(a);
        let tol = C_SYM_SPEC * nf * eps * fro + 1e-13 * fro;
        let dev = d.iter().zip(&refd).map(|(x, y)| (x - y).abs()).fold(0.0f64, f64::max);
        if out.over(2, dev, tol) {
            out.fail("spectrum", format!("{}: d={:?} but the eigenvalues are {:?} (max deviation {:e} > {:e})", hdr(), d, refd, dev, tol));
        }
        if let Some(sp) = &exp.spectrum {
            let mut want: Vec<f64> = sp.iter().map(|z| z.0 * s).collect();
            want.sort_by(|x, y| y.partial_cmp(x).unwrap());
            let dev = d.iter().zip(&want).map(|(x, y)| (x - y).abs()).fold(0.0f64, f64::max);
            if out.over(2, dev, tol) {
                out.fail("spectrum-closed-form", format!("{}: d={:?} but the closed-form eigenvalues are {:?} (max deviation {:e} > {:e})", hdr(), d, want, dev, tol));
            }
        }
    } else {
        let tol1 = C_GEN * nf * eps * fro;
        // ---- complex values occur in conjugate pairs
        let pos: Vec<C> = (0..n).filter(|&i| e[i] > 0.0).map(|i| (d[i], e[i])).collect();
        let neg: Vec<C> = (0..n).filter(|&i| e[i] < 0.0).map(|i| (d[i], -e[i])).collect();
        let pd = orc::spectra_distance(&pos, &neg);
        if out.over(6, pd, tol1) {
            out.fail("conjugate-pairs", format!("{}: the complex values do not pair up (worst mismatch {:e} > {:e}): d={:?} e={:?}", hdr(), pd, tol1, d, e));
        }
        // ---- sum = trace(A), sum of squares = trace(A^2)
        let tr: f64 = (0..n).map(|i| a[i][i]).sum();
        let mut tr2 = 0.0;
        for i in 0..n {
            for j in 0..n {
                tr2 += a[i][j] * a[j][i];
            }
        }
        let sd: f64 = d.iter().sum();
        let sq: f64 = (0..n).map(|i| d[i] * d[i] - e[i] * e[i]).sum();
        if out.over(3, (sd - tr).abs(), tol1) {
            out.fail("trace", format!("{}: sum of eigenvalues {:e} but trace(A) = {:e} (|diff| {:e} > {:e}); d={:?} e={:?}", hdr(), sd, tr, (sd - tr).abs(), tol1, d, e));
        }
        let tol2 = C_GEN * nf * eps * fro * fro;
        if out.over(4, (sq - tr2).abs(), tol2) {
            out.fail("trace-of-square", format!("{}: sum of squared eigenvalues {:e} but trace(A^2) = {:e} (|diff| {:e} > {:e}); d={:?} e={:?}", hdr(), sq, tr2, (sq - tr2).abs(), tol2, d, e));
        }
        // ---- every column reported for a real eigenvalue is a non-zero eigenvector (backward-error form)
        let sep = exp.real_sep.as_ref();
        for j in 0..n {
            let real = e[j] == 0.0;
            if !real && sep.is_none() {
                continue;
            }
            let vj = colv(v, j);
            let (clause_zero, clause_nf, clause_res, cal, factor): (&'static str, &'static str, &'static str, usize, f64) =
                if real { ("eigvec-zero", "eigvec-non-finite", "eigvec-residual", 5, 1.0) } else { ("real-separated-full-identity", "real-separated-full-identity", "real-separated-full-identity", 9, sep.unwrap().cond) };
            if vj.iter().any(|x| !x.is_finite()) {
                out.fail(clause_nf, format!("{}: column {} of V (eigenvalue {:e}{:+e}i) is not finite: {:?}", hdr(), j, d[j], e[j], vj));
                continue;
            }
            let (r, nv) = eig_resid(a, &vj, d[j]);
            if nv == 0.0 {
                out.fail(clause_zero, format!("{}: column {} of V (eigenvalue {:e}{:+e}i) is the zero vector", hdr(), j, d[j], e[j]));
                continue;
            }
            let tol = C_GEN * nf * growth(n) * eps * fro * nv * factor;
            if out.over(cal, r, tol) {
                out.fail(clause_res, format!("{}: ||A v - d v|| = {:e} > {:e} for column {} (eigenvalue {:e}{:+e}i, v={:?})", hdr(), r, tol, j, d[j], e[j], vj));
            }
        }
        // ---- every returned value is a root of the exact characteristic polynomial (backward-error form)
        if let Some(cp) = &exp.charpoly {
            let fb = fro / s;
            for j in 0..n {
                let z = (d[j] / s, e[j] / s);
                let pv = orc::poly_abs_at(cp, z);
                let tol = C_GEN * nf * eps * (orc::cabs(z) + fb).powi(n as i32);
                if out.over(7, pv, tol) {
                    out.fail("eigenvalue-not-a-root", format!("{}: |p(lambda)| = {:e} > {:e} for lambda_{} = {:e}{:+e}i, p = det(xI - A/2^{}) = {:?}", hdr(), pv, tol, j, d[j], e[j], sexp, cp));
                }
            }
        }
        // ---- all-real, well-separated spectrum: every eigenvalue sits in its isolating interval
        if let Some(rs) = sep {
            let fb = fro / s;
            if rs.cond * C_GEN * nf * eps * fb < 0.5 * rs.slack {
                let mut ds: Vec<f64> = d.iter().map(|x| x / s).collect();
                ds.sort_by(|x, y| x.partial_cmp(y).unwrap());
                for (i, (lo, hi)) in rs.intervals.iter().enumerate() {
                    if !(ds[i] >= lo - rs.slack && ds[i] <= hi + rs.slack) {
                        out.fail("real-separated-spectrum", format!("{}: the {}-th smallest returned real part {:e} is not in [{}, {}] (x 2^{}) where A has exactly one eigenvalue; d={:?} e={:?}", hdr(), i, ds[i] * s, lo, hi, sexp, d, e));
                        break;
                    }
                }
            }
        }
        // ---- normal matrices: the spectrum is known in closed form and perfectly conditioned
        if let Some(sp) = &exp.spectrum {
            let want: Vec<C> = sp.iter().map(|z| (z.0 * s, z.1 * s)).collect();
            let got: Vec<C> = (0..n).map(|i| (d[i], e[i])).collect();
            let mut gap = f64::INFINITY;
            for i in 0..n {
                for j in 0..i {
                    gap = gap.min(orc::cabs((want[i].0 - want[j].0, want[i].1 - want[j].1)));
                }
            }
            let tol = if gap > 4.0 * tol1 { tol1 } else { tol1 * nf };
            let dist = orc::spectra_distance(&got, &want);
            if out.over(8, dist, tol + 1e-13 * fro) {
                out.fail("spectrum-normal-matrix", format!("{}: returned spectrum d={:?} e={:?} differs from the closed-form spectrum {:?} by {:e} > {:e}", hdr(), d, e, want, dist, tol));
            }
        }
    }
    }

/// Runs one case, reports violations / counters / digest / description.
fn exec_case(label: &str, base: &Mat, sym: bool, sexp: i32, width: u8, exp: &Expect, tags: &[&'static str]) {
    let out = if width == 32 { judge::<f32>(base, sym, sexp, exp) } else { judge::<f64>(base, sym, sexp, exp) };
    let comp = if sym { "evd.sym" } else { "evd.general" };
    let n = base.len();
    if let Some((site, what)) = &out.panic {
        mc::violation(site.clone(), what.clone());
        mc::count(if sym { "sym_panicked" } else { "gen_panicked" });
    }
    if !out.viols.is_empty() {
        // input class: does the same clause already fail for the plain f64 input at scale 1? If not:
        // ":f32-only" when the f64 run at the same scale passes the clause, else ":scaled-only".
        let reference = if width == 32 || sexp != 0 { Some(judge::<f64>(base, sym, 0, exp)) } else { None };
        let same_scale = if width == 32 && sexp != 0 { Some(judge::<f64>(base, sym, sexp, exp)) } else { None };
        let head = |c: &str| c.split(':').next().unwrap_or("").to_string();
        let passes = |r: &Out, clause: &str| r.panic.is_none() && !r.viols.iter().any(|v| head(v.0) == head(clause));
        for (clause, what) in &out.viols {
            let only = match &reference {
                Some(r) if passes(r, clause) => {
                    if width == 32 && same_scale.as_ref().map(|q| passes(q, clause)).unwrap_or(true) {
                        ":f32-only"
                    } else {
                        ":scaled-only"
                    }
                }
                _ => "",
            };
            mc::violation(format!("{}:{}{}", comp, clause, only), what.clone());
        }
    }
    // ---- non-vacuity counters (all decided from the input or the returned values)
    let a = &out.a;
    if out.returned {
        mc::count(if sym { "sym_returned" } else { "gen_returned" });
        if width == 32 {
            mc::count("f32_cases");
        }
        if sexp != 0 {
            mc::count("scaled_cases");
        }
        let fro = o::fro(a);
        let offdiag = (0..n).any(|i| (0..n).any(|j| i != j && a[i][j] != 0.0));
        if sym {
            if n >= 2 && (1..n).any(|k| (0..k).all(|i| (k..n).all(|j| a[i][j] == 0.0))) {
                mc::count("sym_direct_sum");
            }
            if n >= 2 && (0..n - 1).all(|j| a[n - 1][j] == 0.0) {
                mc::count("sym_tred2_zero_scale_row");
            }
            if fro > 0.0 && out.d.windows(2).any(|w| (w[0] - w[1]).abs() <= 1e-9 * fro) {
                mc::count("sym_repeated_eigenvalue");
            }
            if fro > 0.0 && out.d.iter().any(|x| x.abs() <= 1e-9 * fro) {
                mc::count("sym_singular");
            }
            if out.d.iter().any(|x| *x < 0.0) && out.d.iter().any(|x| *x > 0.0) {
                mc::count("sym_indefinite");
            }
        } else {
            let nc = out.e.iter().filter(|x| **x != 0.0).count();
            if nc > 0 {
                mc::count("gen_complex_pair_cases");
            }
            if nc >= 4 {
                mc::count("gen_two_complex_pairs");
            }
            mc::count_n("gen_real_columns_checked", (n - nc) as u64);
            if nc > 0 && nc < n {
                mc::count("gen_mixed_real_complex");
            }
            if orc::balancing_nontrivial(a) {
                mc::count("gen_balancing_nontrivial");
            }
            if exp.real_sep.is_some() {
                mc::count("gen_certified_real_separated");
            }
            if n >= 3 && (2..n).any(|j| a[j][0].abs() > a[1][0].abs()) {
                mc::count("gen_elmhes_pivot_candidate");
            }
            if n >= 3 && (2..n).any(|i| (0..i - 1).any(|j| a[i][j] != 0.0)) {
                mc::count("gen_not_hessenberg");
            }
            if fro > 0.0 && (0..n).any(|i| (0..i).any(|j| orc::cabs((out.d[i] - out.d[j], out.e[i] - out.e[j])) <= 1e-6 * fro)) {
                mc::count("gen_repeated_eigenvalue");
            }
            if fro == 0.0 {
                mc::count("gen_zero_matrix");
            }
        }
        for t in tags {
            mc::count(t);
        }
        if offdiag {
            mc::nontrivial();
        }
        let s = 2f64.powi(sexp);
        let dn: Vec<f64> = out.d.iter().map(|x| x / s).collect();
        let en: Vec<f64> = out.e.iter().map(|x| x / s).collect();
        mc::outcome(mc::hash::mix(mc::hash::h_u64s(&[sym as u64, width as u64, n as u64]), mc::hash::mix(mc::hash::h_f64s_rounded(&dn, 9), mc::hash::h_f64s_rounded(&en, 9))));
        if calibrating() {
            for (k, r) in out.cal.iter().enumerate() {
                let b = [0.5, 0.25, 0.125, 0.0625, 0.015625];
                if let Some(i) = b.iter().position(|t| *r >= *t) {
                    mc::count(CAL_BUCKETS[k][i]);
                    if i <= 1 && std::env::var("MC_CALIB").as_deref() == Ok("2") {
                        eprintln!("[calib] {} ratio {:.3} : {} n={} sym={} 2^{} f{} A={}", CAL_NAMES[k], r, label, n, sym, sexp, width, fmt_mat(&out.a));
                    }
                }
            }
        }
    } else if out.panic.is_some() {
        mc::outcome(mc::hash::h_str("panic"));
    }
    mc::describe(|| {
        json!({
            "case": label, "solver": if sym { "evd(true)" } else { "evd(false)" }, "n": n, "width": if width == 32 { "f32" } else { "f64" },
            "scale": format!("2^{}", sexp), "A": out.a, "returned": out.returned, "d": out.d, "e": out.e, "V": out.v,
            "panic": out.panic.as_ref().map(|p| p.1.clone()), "violated_clauses": out.viols.iter().map(|v| v.0).collect::<Vec<_>>(),
        })
    });
}

// ------------------------------------------------------------------------------------------------
// lattice

/// Free entries of a lattice shape: (row, column, first alphabet index, number of alternatives).
/// `k` is the alphabet size (SIGMA[0..k]). Shapes: "full"; "tridiag" (symmetric tridiagonal);
/// "hess" (upper Hessenberg); "hess1" (unreduced upper Hessenberg: sub-diagonal entries in {1,-1}).
fn positions(shape: &str, sym: bool, n: usize, k: usize) -> Vec<(usize, usize, usize, usize)> {
    let mut p = Vec::new();
    for i in 0..n {
        for j in 0..n {
            let keep = match (shape, sym) {
                ("full", true) => j >= i,
                ("full", false) => true,
                ("tridiag", true) => j == i || j == i + 1,
                ("hess", false) | ("hess1", false) => j + 1 >= i,
                _ => panic!("unknown lattice shape {} (sym={})", shape, sym),
            };
            if keep {
                if shape == "hess1" && i == j + 1 {
                    p.push((i, j, 1, 2));
                } else {
                    p.push((i, j, 0, k));
                }
            }
        }
    }
    p
}

fn lattice_case(job: &Job) {
    let (sym, n, k) = (job.b("sym"), job.u("n"), job.u("k"));
    let (sexp, width) = (job.i("sexp") as i32, job.u("width") as u8);
    let (mul, add) = (job.i("mul"), job.i("add"));
    let shape = job.s("shape");
    let pos = positions(shape, sym, n, k);
    let lead: Vec<usize> = job.params["lead"].as_array().map(|a| a.iter().map(|x| x.as_u64().unwrap() as usize).collect()).unwrap_or_default();
    let mut ib = vec![vec![0i64; n]; n];
    for (t, &(i, j, lo, cnt)) in pos.iter().enumerate() {
        let idx = lo + if t < lead.len() { lead[t] } else { mc::choose(cnt) };
        let val = if add == 0 { mul * SIGMA[idx] } else { 4 * mul * SIGMA[idx] + add };
        ib[i][j] = val;
        if sym {
            ib[j][i] = val;
        }
    }
    let base: Mat = ib.iter().map(|r| r.iter().map(|x| *x as f64).collect()).collect();
    let sexp_eff = if add == 0 { sexp } else { sexp - 2 };
    let mut exp = Expect::default();
    if !sym {
        let cp = orc::charpoly_int(&ib);
        let radius = ib.iter().map(|r| r.iter().map(|x| x.abs()).sum::<i64>()).max().unwrap_or(0);
        if let Some((iv, h)) = orc::real_separated(&cp, radius) {
            // tiny integer matrices with gaps >= h: the eigenvector matrix is well conditioned, no cond factor
            exp.real_sep = Some(RealSep { intervals: iv, slack: 0.5 * h, cond: 1.0 });
        }
        exp.charpoly = Some(cp.iter().map(|x| *x as f64).collect());
        exp.multiple = Multiplicity::FromPoly(cp);
    }
    exec_case("lattice", &base, sym, sexp_eff, width, &exp, &[]);
}

fn family_case(job: &Job) {
    let (sym, n) = (job.b("sym"), job.u("n"));
    let fam_name = job.s("fam");
    let seed = job.i("seed") as u64;
    let thorough = job.b("thorough");
    let scales: Vec<i32> = job.params["scales"].as_array().unwrap().iter().map(|x| x.as_i64().unwrap() as i32).collect();
    let nv = if sym { fam::sym_variants(fam_name, n) } else { fam::gen_variants(fam_name, n, thorough) };
    let v = mc::choose(nv);
    let sexp = mc::pick(&scales);
    let width = mc::pick(&[64u8, 32u8]);
    let c = if sym { fam::sym_case(fam_name, n, v, seed) } else { fam::gen_case(fam_name, n, v, seed) };
    let mut exp = Expect { spectrum: c.spectrum.clone(), charpoly: c.charpoly.clone(), real_sep: None, multiple: Multiplicity::Unknown };
    exp.multiple = if let Some(cp) = &c.charpoly {
        Multiplicity::FromPoly(cp.iter().map(|x| *x as i64).collect::<Vec<_>>())
    } else if let Some(sp) = &c.spectrum {
        Multiplicity::Spectrum(sp.clone())
    } else if c.real_sep.is_some() {
        Multiplicity::Known(false)
    } else if c.tags.contains(&"gen_fam_defective") {
        Multiplicity::Known(true)
    } else {
        Multiplicity::FromRank(c.a.clone())
    };
    if let Some(eigs) = &c.real_sep {
        let mut sorted = eigs.clone();
        sorted.sort_by(|x, y| x.partial_cmp(y).unwrap());
        let cond = if c.tags.contains(&"gen_fam_normal") { 1.0 } else { orc::eigvec_cond(&c.a, &sorted) };
        exp.real_sep = Some(RealSep { intervals: sorted.iter().map(|x| (*x, *x)).collect(), slack: 0.25, cond: cond.max(1.0) });
    }
    exec_case(&c.desc, &c.a, sym, sexp, width, &exp, &c.tags);
}

fn lattice_jobs(jobs: &mut Vec<Job>, spaces: &mut Vec<String>, sym: bool, shape: &str, n: usize, k: usize, variants: &[(i32, u8)], target: u64, seed: u64) {
    let (mul, add) = PERTURB[(seed % 8) as usize];
    let pos = positions(shape, sym, n, k);
    let size_from = |l: usize| -> u64 { pos[l..].iter().fold(1u64, |a, p| a.saturating_mul(p.3 as u64)) };
    spaces.push(format!(
        "{} {} n={} over Sigma{}: {} matrices x {} (scale, width) variants {:?}",
        if sym { "symmetric" } else { "general" },
        shape,
        n,
        k,
        size_from(0),
        variants.len(),
        variants.iter().map(|v| format!("2^{}/f{}", v.0, v.1)).collect::<Vec<_>>()
    ));
    let mut lead_len = 0usize;
    while size_from(lead_len) > target && lead_len < pos.len() {
        lead_len += 1;
    }
    let mut leads: Vec<Vec<usize>> = vec![Vec::new()];
    for t in 0..lead_len {
        let cnt = pos[t].3;
        leads = leads
            .iter()
            .flat_map(|l| {
                (0..cnt).map(move |x| {
                    let mut m = l.clone();
                    m.push(x);
                    m
                })
            })
            .collect();
    }
    for &(sexp, width) in variants {
        for l in &leads {
            let name = format!(
                "lat-{}-{}-n{}-k{}-s{}-f{}{}",
                if sym { "sym" } else { "gen" },
                shape,
                n,
                k,
                sexp,
                width,
                if l.is_empty() { String::new() } else { format!("-lead{}", l.iter().map(|x| x.to_string()).collect::<String>()) }
            );
            jobs.push(Job::new(name, json!({"kind": "lat", "sym": sym, "shape": shape, "n": n, "k": k, "sexp": sexp, "width": width, "lead": l, "mul": mul, "add": add})));
        }
    }
}

impl Harness for C02 {
    fn id(&self) -> &'static str {
        "C02"
    }

    fn plan(&self, tier: Tier, seed: u64) -> Plan {
        let t = tier.is_thorough();
        let scales: Vec<i32> = if t {
            SCALES.to_vec()
        } else {
            let pr = [(-40, 40), (-20, 20), (-40, 20), (-20, 40)][(seed % 4) as usize];
            vec![0, pr.0, pr.1]
        };
        let variants: Vec<(i32, u8)> = scales.iter().flat_map(|s| [(*s, 64u8), (*s, 32u8)]).collect();
        let unit: Vec<(i32, u8)> = vec![(0, 64), (0, 32)];
        let target: u64 = if t { 2_000_000 } else { 150_000 };
        let mut jobs: Vec<Job> = Vec::new();
        let mut spaces: Vec<String> = Vec::new();
        // ---- lattices, simplest first
        for n in 1..=3 {
            lattice_jobs(&mut jobs, &mut spaces, true, "full", n, 5, &variants, target, seed);
        }
        for n in 1..=2 {
            lattice_jobs(&mut jobs, &mut spaces, false, "full", n, 5, &variants, target, seed);
        }
        // ---- structured families
        let nmax = if t { 30 } else { 12 };
        for n in 1..=nmax {
            for f in fam::SYM_FAMILIES {
                if fam::sym_variants(f, n) > 0 {
                    jobs.push(Job::new(format!("fam-sym-{}-n{}", f, n), json!({"kind": "fam", "sym": true, "fam": f, "n": n, "seed": seed, "scales": scales, "thorough": t})));
                }
            }
            for f in fam::GEN_FAMILIES {
                if fam::gen_variants(f, n, t) > 0 {
                    jobs.push(Job::new(format!("fam-gen-{}-n{}", f, n), json!({"kind": "fam", "sym": false, "fam": f, "n": n, "seed": seed, "scales": scales, "thorough": t})));
                }
            }
        }
        // ---- the larger lattices
        lattice_jobs(&mut jobs, &mut spaces, true, "full", 4, 3, &variants, target, seed);
        lattice_jobs(&mut jobs, &mut spaces, false, "full", 3, if t { 5 } else { 4 }, &variants, target, seed);
        if t {
            lattice_jobs(&mut jobs, &mut spaces, true, "full", 4, 5, &variants, target, seed);
            lattice_jobs(&mut jobs, &mut spaces, true, "full", 5, 3, &variants, target, seed);
            lattice_jobs(&mut jobs, &mut spaces, false, "full", 4, 3, &variants, target, seed);
            lattice_jobs(&mut jobs, &mut spaces, true, "tridiag", 6, 5, &unit, target, seed);
            lattice_jobs(&mut jobs, &mut spaces, false, "hess1", 5, 3, &unit[..1], target, seed);
        } else {
            lattice_jobs(&mut jobs, &mut spaces, false, "hess", 4, 3, &unit, target, seed);
        }
        Plan {
            jobs,
            budget_s: if t { 2700 } else { 40 },
            case_deadline_ms: 20_000,
            floors: vec![
                ("sym_returned", 100_000),
                ("gen_returned", 300_000),
                ("f32_cases", 100_000),
                ("scaled_cases", 100_000),
                ("gen_complex_pair_cases", 100_000),
                ("gen_mixed_real_complex", 50_000),
                ("gen_two_complex_pairs", 1_000),
                ("gen_real_columns_checked", 500_000),
                ("gen_balancing_nontrivial", 10_000),
                ("gen_certified_real_separated", 10_000),
                ("gen_elmhes_pivot_candidate", 10_000),
                ("gen_repeated_eigenvalue", 1_000),
                ("gen_fam_exceptional_shift_candidate", 100),
                ("gen_fam_badly_balanced", 100),
                ("gen_fam_defective", 100),
                ("gen_fam_normal", 500),
                ("gen_fam_real_separated", 200),
                ("gen_fam_complex", 1_000),
                ("sym_direct_sum", 500),
                ("sym_fam_deflation", 200),
                ("sym_repeated_eigenvalue", 500),
                ("sym_singular", 500),
                ("sym_tred2_zero_scale_row", 200),
                ("sym_indefinite", 1_000),
                ("sym_fam_closed_form", 100),
                ("sym_fam_rank_deficient", 100),
                ("sym_fam_repeated", 300),
            ],
            bounds: json!({
                "scales": scales.iter().map(|s| format!("2^{}", s)).collect::<Vec<_>>(),
                "widths": ["f64", "f32"],
                "alphabet": format!("Sigma5 = {{0,1,-1,2,-2}} (Sigma4, Sigma3 = its prefixes); seed perturbation (mul, quarter offset) = {:?}", PERTURB[(seed % 8) as usize]),
                "lattices": spaces,
                "structured_families": format!(
                    "every member of the symmetric families {:?} and the general families {:?} for n = 1..{}, each at every scale and width (companion matrices up to degree {})",
                    fam::SYM_FAMILIES, fam::GEN_FAMILIES, nmax, if t { 8 } else { 6 }
                ),
            }),
        }
    }

    fn run(&self, job: &Job) {
        match job.kind() {
            "lat" => lattice_case(job),
            "fam" => family_case(job),
            other => panic!("unknown job kind {}", other),
        }
    }

    fn rule(&self) -> String {
        "one execution = one (matrix, solver, power-of-two scale, width) given to the real evd; non-trivial = the solver returned and the matrix has a non-zero off-diagonal entry; distinct = distinct digest of (solver, width, n, returned real and imaginary parts divided by the scale and rounded to 9 significant digits)".into()
    }

    fn assumptions(&self) -> Vec<String> {
        vec![
            "residuals, traces and reference spectra are evaluated in f64 (also for f32 inputs); the input seen by the oracle is the exact f64 image of the matrix handed to the library".into(),
            "no RNG on the explored paths (evd draws nothing); the harness uses no HashMap".into(),
            "harness profile: release with overflow-checks and debug-assertions on (the arithmetic of the dev/test profile)".into(),
        ]
    }
}

fn main() {
    mc::main(C02)
}

#[allow(dead_code)]
fn _v(_: Value) {}
