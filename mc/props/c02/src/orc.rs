//! Oracle helpers private to C02: exact characteristic polynomials of small integer matrices, an
//! exact certificate "all eigenvalues real and pairwise separated", complex Horner evaluation,
//! multiset matching of spectra, and the Parlett-Reinsch balancing predicate (used only for a
//! non-vacuity counter). Shares no code with /repo.

use mc_core::oracle::Mat;

pub type C = (f64, f64);

/// Monic characteristic polynomial det(xI - A) of an integer matrix, coefficients in descending
/// order [1, c1, .., cn] (Faddeev-LeVerrier; all divisions are exact). i64 arithmetic is checked by
/// the harness profile (overflow-checks on), so an overflow is a loud machinery failure, not a wrong
/// oracle.
pub fn charpoly_int(a: &[Vec<i64>]) -> Vec<i64> {
    let n = a.len();
    let mut c = vec![0i64; n + 1];
    c[0] = 1;
    // m = M_k, starts as M_1 = I * c0
    let mut m = vec![vec![0i64; n]; n];
    for i in 0..n {
        m[i][i] = 1;
    }
    for k in 1..=n {
        // am = A * M_k
        let mut am = vec![vec![0i64; n]; n];
        let mut tr = 0i64;
        for i in 0..n {
            for j in 0..n {
                let mut s = 0i64;
                for l in 0..n {
                    s += a[i][l] * m[l][j];
                }
                am[i][j] = s;
            }
            tr += am[i][i];
        }
        debug_assert!(tr % k as i64 == 0);
        c[k] = -tr / k as i64;
        for i in 0..n {
            am[i][i] += c[k];
        }
        m = am;
    }
    c
}

/// sign of 2^(deg*sh) * p(k * 2^-sh) for sh in {0,1} (grid step 1 or 1/2), or of p(k*step) for an
/// integer step. `num`/`half`: the abscissa is num/2 when half, else num.
fn sign_at(c: &[i64], num: i64, half: bool) -> i32 {
    // Horner in i128: value = sum c_j * x^(n-j); with x = num/2 multiply through by 2^n.
    let n = c.len() - 1;
    let mut v: i128 = 0;
    if half {
        // 2^n p(num/2) = sum_j c_j num^(n-j) 2^j  -> Horner on coefficients c_j * 2^j
        let mut pow2: i128 = 1;
        for j in 0..=n {
            v = v * num as i128 + c[j] as i128 * pow2;
            pow2 *= 2;
        }
    } else {
        for j in 0..=n {
            v = v * num as i128 + c[j] as i128;
        }
    }
    v.signum() as i32
}

/// Exact certificate that the monic integer polynomial has `n` distinct real roots whose pairwise
/// distances all exceed the grid step h, where h = 1/2 when radius <= 16 and the smallest power of
/// two >= radius/32 otherwise (all roots lie in [-radius, radius], e.g. a Gershgorin bound).
/// Returns the isolating intervals (lo, hi) in ascending order (lo == hi for a root on the grid)
/// and h, or None when the certificate cannot be given (which does NOT mean the spectrum is not real).
pub fn real_separated(c: &[i64], radius: i64) -> Option<(Vec<(f64, f64)>, f64)> {
    let n = c.len() - 1;
    if n == 0 {
        return None;
    }
    let (half, step): (bool, i64) = if radius <= 16 {
        (true, 1)
    } else {
        let mut s = 1i64;
        while s * 32 < radius {
            s *= 2;
        }
        (false, s)
    };
    let h = if half { 0.5 } else { step as f64 };
    // grid indices k: abscissa = k*h
    let kmax = if half { 2 * radius + 2 } else { radius / step + 2 };
    // (position index, is_point): point root at k, or interval root in (k, k+1)
    let mut roots: Vec<(i64, bool)> = Vec::new();
    let mut prev = sign_at(c, if half { -kmax } else { -kmax * step }, half);
    if prev == 0 {
        roots.push((-kmax, true));
    }
    for k in (-kmax + 1)..=kmax {
        let s = sign_at(c, if half { k } else { k * step }, half);
        if s == 0 {
            roots.push((k, true));
        } else if prev != 0 && s != prev {
            roots.push((k - 1, false));
        }
        prev = s;
        if roots.len() > n {
            return None;
        }
    }
    if roots.len() != n {
        return None;
    }
    for w in roots.windows(2) {
        let ((k0, p0), (k1, p1)) = (w[0], w[1]);
        let ok = match (p0, p1) {
            (true, true) => k1 >= k0 + 1,
            (true, false) => k1 >= k0 + 1,  // root in (k1, k1+1), k1 >= k0+1 -> distance > h
            (false, true) => k1 >= k0 + 2,  // root in (k0, k0+1), point at k1 >= k0+2
            (false, false) => k1 >= k0 + 2, // (k0,k0+1) and (k1,k1+1)
        };
        if !ok {
            return None;
        }
    }
    Some((roots.iter().map(|&(k, p)| if p { (k as f64 * h, k as f64 * h) } else { (k as f64 * h, (k + 1) as f64 * h) }).collect(), h))
}

pub fn cmul(a: C, b: C) -> C {
    (a.0 * b.0 - a.1 * b.1, a.0 * b.1 + a.1 * b.0)
}

pub fn cabs(a: C) -> f64 {
    a.0.hypot(a.1)
}

/// |p(z)| for a monic polynomial with real coefficients in descending order (complex Horner, f64).
pub fn poly_abs_at(c: &[f64], z: C) -> f64 {
    let mut v: C = (0.0, 0.0);
    for &cj in c {
        v = cmul(v, z);
        v.0 += cj;
    }
    cabs(v)
}

/// Greedy nearest matching of two equally long multisets of complex numbers; returns the largest
/// distance of a matched pair (f64::INFINITY when the sizes differ). Both lists are sorted
/// lexicographically first, then every element of `a` takes the nearest unused element of `b`.
pub fn match_spectra(a: &[C], b: &[C]) -> f64 {
    if a.len() != b.len() {
        return f64::INFINITY;
    }
    let mut used = vec![false; b.len()];
    let mut worst = 0.0f64;
    // match the elements of `a` with the smallest slack first would be optimal; for the tolerances
    // used here (far below the gaps, or ties that are exact) nearest-first in any order suffices,
    // and a second pass with the roles swapped is taken when the first is worse.
    for &x in a {
        let mut best = f64::INFINITY;
        let mut bi = usize::MAX;
        for (j, &y) in b.iter().enumerate() {
            if !used[j] {
                let d = cabs((x.0 - y.0, x.1 - y.1));
                if d < best || d.is_nan() && bi == usize::MAX {
                    best = d;
                    bi = j;
                }
            }
        }
        if bi == usize::MAX {
            return f64::INFINITY;
        }
        used[bi] = true;
        if best.is_nan() {
            return f64::INFINITY;
        }
        worst = worst.max(best);
    }
    worst
}

/// The better of the two greedy directions.
pub fn spectra_distance(a: &[C], b: &[C]) -> f64 {
    match_spectra(a, b).min(match_spectra(b, a))
}

/// True when the first sweep of Parlett-Reinsch balancing (radix 2, threshold 0.95) rescales some
/// row/column of `a`: then the library's `balance` is non-trivial on this input. Only used for a
/// non-vacuity counter.
pub fn balancing_nontrivial(a: &Mat) -> bool {
    let n = a.len();
    for i in 0..n {
        let (mut r, mut c) = (0.0f64, 0.0f64);
        for j in 0..n {
            if j != i {
                c += a[j][i].abs();
                r += a[i][j].abs();
            }
        }
        if c != 0.0 && r != 0.0 {
            let s = c + r;
            let mut f = 1.0f64;
            let mut g = r / 2.0;
            while c < g {
                f *= 2.0;
                c *= 4.0;
            }
            g = r * 2.0;
            while c > g {
                f /= 2.0;
                c /= 4.0;
            }
            if (c + r) / f < 0.95 * s {
                return true;
            }
        }
    }
    false
}

/// Spectrum of a signed permutation matrix P (P[i][perm[i]] = sign[i]): for every cycle of length L
/// with sign product s the L-th roots of s.
pub fn signed_perm_spectrum(perm: &[usize], sign: &[f64]) -> Vec<C> {
    let n = perm.len();
    let mut seen = vec![false; n];
    let mut out = Vec::new();
    for s0 in 0..n {
        if seen[s0] {
            continue;
        }
        let (mut l, mut sp, mut i) = (0usize, 1.0f64, s0);
        while !seen[i] {
            seen[i] = true;
            sp *= sign[i];
            l += 1;
            i = perm[i];
        }
        for j in 0..l {
            let ang = if sp > 0.0 { 2.0 * std::f64::consts::PI * j as f64 / l as f64 } else { std::f64::consts::PI * (2 * j + 1) as f64 / l as f64 };
            out.push((ang.cos(), ang.sin()));
        }
    }
    out
}

/// Multiply out prod (x - r) * prod (x^2 + b x + c) into monic integer coefficients (descending).
pub fn poly_from_factors(real_roots: &[i64], quads: &[(i64, i64)]) -> Vec<i64> {
    let mut p: Vec<i64> = vec![1];
    let mul = |p: &Vec<i64>, q: &[i64]| -> Vec<i64> {
        let mut r = vec![0i64; p.len() + q.len() - 1];
        for (i, x) in p.iter().enumerate() {
            for (j, y) in q.iter().enumerate() {
                r[i + j] += x * y;
            }
        }
        r
    };
    for &r in real_roots {
        p = mul(&p, &[1, -r]);
    }
    for &(b, c) in quads {
        p = mul(&p, &[1, b, c]);
    }
    p
}

/// A unit null vector of the (numerically) singular square matrix `m`, by Gaussian elimination
/// with complete pivoting: the last pivot is treated as zero, the free variable is set to one.
pub fn null_vector(m: &Mat) -> Vec<f64> {
    let n = m.len();
    let mut a = m.clone();
    let mut colperm: Vec<usize> = (0..n).collect();
    for k in 0..n.saturating_sub(1) {
        let (mut pi, mut pj, mut best) = (k, k, -1.0f64);
        for i in k..n {
            for j in k..n {
                if a[i][j].abs() > best {
                    best = a[i][j].abs();
                    pi = i;
                    pj = j;
                }
            }
        }
        a.swap(k, pi);
        if pj != k {
            for row in a.iter_mut() {
                row.swap(k, pj);
            }
            colperm.swap(k, pj);
        }
        if a[k][k] == 0.0 {
            continue;
        }
        for i in k + 1..n {
            let f = a[i][k] / a[k][k];
            if f != 0.0 {
                for j in k..n {
                    a[i][j] -= f * a[k][j];
                }
            }
        }
    }
    let mut y = vec![0.0; n];
    if n > 0 {
        y[n - 1] = 1.0;
    }
    for k in (0..n.saturating_sub(1)).rev() {
        let mut s = 0.0;
        for j in k + 1..n {
            s -= a[k][j] * y[j];
        }
        y[k] = if a[k][k] != 0.0 { s / a[k][k] } else { 0.0 };
    }
    let mut x = vec![0.0; n];
    for k in 0..n {
        x[colperm[k]] = y[k];
    }
    let nv = mc_core::oracle::norm2(&x);
    if nv > 0.0 && nv.is_finite() {
        x.iter_mut().for_each(|v| *v /= nv);
    }
    x
}

/// 2-norm condition number of the matrix of unit eigenvectors of `a` belonging to the given
/// (real, simple) eigenvalues — the factor by which a backward error in A may show up in A V = V D.
pub fn eigvec_cond(a: &Mat, eigs: &[f64]) -> f64 {
    let n = a.len();
    let mut v = mc_core::oracle::zeros(n, n);
    for (k, &lam) in eigs.iter().enumerate() {
        let mut m = a.clone();
        for i in 0..n {
            m[i][i] -= lam;
        }
        let x = null_vector(&m);
        for i in 0..n {
            v[i][k] = x[i];
        }
    }
    mc_core::oracle::cond2(&v)
}

fn igcd(a: i128, b: i128) -> i128 {
    let (mut a, mut b) = (a.abs(), b.abs());
    while b != 0 {
        let t = a % b;
        a = b;
        b = t;
    }
    a
}

fn primitive(p: &mut Vec<i128>) {
    while p.first() == Some(&0) {
        p.remove(0);
    }
    let g = p.iter().fold(0i128, |g, x| igcd(g, *x));
    if g > 1 {
        p.iter_mut().for_each(|x| *x /= g);
    }
}

/// Exact test: does the integer polynomial (descending coefficients) have a multiple root over C,
/// i.e. is gcd(p, p') non-constant? Primitive pseudo-remainder sequence in i128 (checked arithmetic).
pub fn has_multiple_root(c: &[i64]) -> bool {
    let n = c.len() - 1;
    if n < 2 {
        return false;
    }
    let mut a: Vec<i128> = c.iter().map(|x| *x as i128).collect();
    let mut b: Vec<i128> = (0..n).map(|j| c[j] as i128 * (n - j) as i128).collect();
    primitive(&mut a);
    primitive(&mut b);
    loop {
        if b.is_empty() {
            // a is the gcd
            return a.len() > 1;
        }
        if b.len() == 1 {
            return false;
        }
        // pseudo-remainder of a by b
        let mut r = a.clone();
        while r.len() >= b.len() {
            let lead_r = r[0];
            let lead_b = b[0];
            let g = igcd(lead_r, lead_b);
            let (mr, mb) = (lead_b / g, lead_r / g);
            for x in r.iter_mut() {
                *x *= mr;
            }
            for (k, y) in b.iter().enumerate() {
                r[k] -= mb * y;
            }
            debug_assert!(r[0] == 0);
            r.remove(0);
            // keep numbers small
            let g2 = r.iter().fold(0i128, |g, x| igcd(g, *x));
            if g2 > 1 {
                r.iter_mut().for_each(|x| *x /= g2);
            }
        }
        primitive(&mut r);
        a = b;
        b = r;
    }
}

fn sign_variations(seq: &[i32]) -> usize {
    let nz: Vec<i32> = seq.iter().cloned().filter(|s| *s != 0).collect();
    nz.windows(2).filter(|w| w[0] != w[1]).count()
}

/// Exact number of DISTINCT real roots of an integer polynomial (descending coefficients), by a
/// Sturm chain built with sign-preserving pseudo-remainders (only positive multipliers) in i128.
pub fn count_real_roots(c: &[i64]) -> usize {
    let mut p0: Vec<i128> = c.iter().map(|x| *x as i128).collect();
    while p0.first() == Some(&0) {
        p0.remove(0);
    }
    let n = p0.len().saturating_sub(1);
    if n == 0 {
        return 0;
    }
    let mut p1: Vec<i128> = (0..n).map(|j| p0[j] * (n - j) as i128).collect();
    let content = |p: &mut Vec<i128>| {
        let g = p.iter().fold(0i128, |g, x| igcd(g, *x));
        if g > 1 {
            p.iter_mut().for_each(|x| *x /= g);
        }
    };
    content(&mut p0);
    content(&mut p1);
    let mut chain: Vec<Vec<i128>> = vec![p0, p1];
    loop {
        let a = &chain[chain.len() - 2];
        let b = &chain[chain.len() - 1];
        if b.len() <= 1 {
            break;
        }
        let mut r = a.clone();
        while r.len() >= b.len() {
            let lb = b[0];
            let lr = r[0];
            let m = lb.abs();
            let sgn = lb.signum();
            for x in r.iter_mut() {
                *x *= m;
            }
            for (k, y) in b.iter().enumerate() {
                r[k] -= sgn * lr * y;
            }
            debug_assert!(r[0] == 0);
            r.remove(0);
            let g = r.iter().fold(0i128, |g, x| igcd(g, *x));
            if g > 1 {
                r.iter_mut().for_each(|x| *x /= g);
            }
        }
        while r.first() == Some(&0) {
            r.remove(0);
        }
        if r.is_empty() {
            break;
        }
        let next: Vec<i128> = r.iter().map(|x| -x).collect();
        chain.push(next);
    }
    let at_pos: Vec<i32> = chain.iter().map(|p| p[0].signum() as i32).collect();
    let at_neg: Vec<i32> = chain.iter().map(|p| (p[0].signum() as i32) * if (p.len() - 1) % 2 == 0 { 1 } else { -1 }).collect();
    sign_variations(&at_neg) - sign_variations(&at_pos)
}

/// All complex roots of a monic polynomial with simple roots (descending real coefficients) by the
/// Durand-Kerner iteration in f64. Only used to name the input class of a convergence failure.
pub fn roots_dk(c: &[f64]) -> Vec<C> {
    let n = c.len() - 1;
    let radius = 1.0 + c.iter().skip(1).fold(0.0f64, |m, x| m.max(x.abs()));
    let mut z: Vec<C> = (0..n)
        .map(|k| {
            let ang = 2.0 * std::f64::consts::PI * k as f64 / n as f64 + 0.4;
            (0.5 * radius * ang.cos(), 0.5 * radius * ang.sin())
        })
        .collect();
    for _ in 0..2000 {
        let mut moved = 0.0f64;
        for i in 0..n {
            let mut p: C = (0.0, 0.0);
            for &cj in c {
                p = cmul(p, z[i]);
                p.0 += cj;
            }
            let mut q: C = (1.0, 0.0);
            for j in 0..n {
                if j != i {
                    q = cmul(q, (z[i].0 - z[j].0, z[i].1 - z[j].1));
                }
            }
            let den = q.0 * q.0 + q.1 * q.1;
            if den == 0.0 {
                continue;
            }
            let step = ((p.0 * q.0 + p.1 * q.1) / den, (p.1 * q.0 - p.0 * q.1) / den);
            z[i] = (z[i].0 - step.0, z[i].1 - step.1);
            moved = moved.max(cabs(step));
        }
        if moved <= 1e-15 * radius {
            break;
        }
    }
    z
}

/// Input class of a simple spectrum: all eigenvalues of (nearly) the same modulus — the situation
/// in which the standard double shift stalls and the exceptional shifts are needed — or not.
pub fn spectrum_class(z: &[C]) -> &'static str {
    let hi = z.iter().map(|x| cabs(*x)).fold(0.0f64, f64::max);
    let lo = z.iter().map(|x| cabs(*x)).fold(f64::INFINITY, f64::min);
    if z.len() >= 2 && hi - lo <= 1e-6 * hi {
        ":simple-equimodular-spectrum"
    } else if z.iter().all(|x| x.1.abs() > 1e-9 * hi) {
        ":simple-nonreal-spectrum"
    } else {
        ":simple-spectrum"
    }
}
