//! Alphabets and deterministic structured families for C05. Nothing here is random: `seed` only
//! selects which of eight fixed alphabet variants is enumerated (seed 0 = the plain one).

/// Feature alphabet of the lattices (three letters, simplest first).
pub fn x_alphabet(seed: u64) -> [f64; 3] {
    match seed % 8 {
        0 => [0.0, 1.0, 2.0],
        1 => [-1.0, 0.0, 1.0],
        2 => [0.1, 0.25, 7.0],
        3 => [-2.5, -0.3, 1000.0],
        4 => [0.25, 3.25, 6.25],
        5 => [1e-3, 1e-2, 1e-1],
        6 => [-7.0, -5.0, -1.0],
        _ => [0.3, 0.6, 0.9],
    }
}

/// Target alphabet of the regression lattices.
pub fn y_alphabet(seed: u64) -> [f64; 3] {
    match seed % 8 {
        0 => [0.0, 1.0, 3.0],
        1 => [-1.5, 0.25, 3.0],
        2 => [0.1, 0.2, 0.7],
        3 => [-3.0, 7.0, 10.0],
        4 => [0.0, 1.0, 3.0],
        5 => [100.0, 101.0, 103.5],
        6 => [-0.3, 0.0, 0.3],
        _ => [1e3, -1e3, 0.5],
    }
}

/// Four-letter alphabet of the sort-regime family.
pub fn x4_alphabet(seed: u64) -> [f64; 4] {
    let a = x_alphabet(seed);
    [a[0], a[1], a[2], a[2] + (a[2] - a[0])]
}

/// Monotone map applied to the ranks 0..n-1 of the distinct-valued (permutation) family.
pub fn rank_value(seed: u64, r: usize) -> f64 {
    let r = r as f64;
    match seed % 8 {
        0 => r,
        1 => r - 2.0,
        2 => 0.37 * r - 1.0,
        3 => r * r * 0.1 + 0.05,
        4 => 3.0 * r + 0.25,
        5 => (r + 1.0) * 1e-3,
        6 => r * 1.5 - 7.0,
        _ => (r + 1.0).sqrt(),
    }
}

/// Label bijections (letter -> original label value): contiguous, ugly, ugly non-monotone, signed.
pub const LABEL_MAPS: [[f64; 3]; 4] = [[0.0, 1.0, 2.0], [-3.0, 7.0, 10.0], [7.0, -3.0, 10.0], [1.0, -1.0, 2.5]];

/// Labels of the structured families (letter -> value), up to 5 classes, non-contiguous, negative,
/// not in numeric order.
pub const UGLY5: [f64; 5] = [7.0, -3.0, 10.0, -20.0, 4.5];

/// Three adjacent doubles just above 1: b = 1+2^-52, b+ulp, b+2ulp. The floating-point midpoint of
/// (b, b+ulp) rounds to the UPPER value; the midpoint of (b+ulp, b+2ulp) rounds to the lower one.
pub fn ulp_alphabet() -> [f64; 3] {
    let b = 1.0f64.to_bits();
    [f64::from_bits(b + 1), f64::from_bits(b + 2), f64::from_bits(b + 3)]
}

fn frac(x: f64) -> f64 {
    x - x.floor()
}

const PHI: f64 = 0.618_033_988_749_894_9;
const PLA: f64 = 0.754_877_666_246_692_7;

pub const N_COLS: usize = 10;
pub const COL_NAMES: [&str; N_COLS] = ["ramp", "weyl", "reversed-ramp", "weyl2", "sawtooth3", "step4", "two-level", "constant", "weyl-quantised4", "organ-pipe"];

/// Value of row i in a feature column of the given kind (n rows). Kinds 0..3 are pairwise distinct
/// within the column (checked at run time by `classify`, never assumed).
pub fn col(kind: usize, n: usize, i: usize, seed: u64) -> f64 {
    let rot = (seed % 8) as f64 * 0.123;
    match kind % N_COLS {
        0 => i as f64,
        1 => frac((i + 1) as f64 * PHI + rot) * 8.0 - 3.0,
        2 => (n - 1 - i) as f64 * 0.5,
        3 => frac((i + 1) as f64 * PLA + rot) * 100.0,
        4 => (i % 3) as f64,
        5 => ((i * 4) / n) as f64,
        6 => (i & 1) as f64 * 2.0 - 1.0,
        7 => 5.0,
        8 => (frac((i + 1) as f64 * PHI + rot) * 4.0).floor(),
        _ => ((i as i64) - (n as i64) / 2).abs() as f64,
    }
}

pub const N_YREG: usize = 4;
pub const YREG_NAMES: [&str; N_YREG] = ["linear", "cycle{0,1,3}", "weyl", "two-level"];

pub fn y_reg(kind: usize, n: usize, i: usize, seed: u64) -> f64 {
    let rot = (seed % 8) as f64 * 0.217;
    match kind % N_YREG {
        0 => 0.5 * i as f64,
        1 => [0.0, 1.0, 3.0][i % 3],
        2 => frac((i + 1) as f64 * PLA + rot) * 10.0 - 5.0,
        _ => {
            if i < n / 2 {
                -1.0
            } else {
                2.0
            }
        }
    }
}

pub const N_YCLS: usize = 3;
pub const YCLS_NAMES: [&str; N_YCLS] = ["blocks", "cycle", "weyl"];

/// Class letter (0..k) of row i.
pub fn y_cls(kind: usize, k: usize, n: usize, i: usize, seed: u64) -> usize {
    let rot = (seed % 8) as f64 * 0.217;
    match kind % N_YCLS {
        0 => (i * k) / n,
        1 => i % k,
        _ => ((frac((i + 1) as f64 * PLA + rot) * k as f64).floor() as usize).min(k - 1),
    }
}

// ------------------------------------------------------------------------------------------------
// Extension (round 2): real-valued class-label tables and regression targets with a common offset

/// Real-valued label tables (letter -> original label value): span = k-1 without unit spacing
/// (three of them, one with k = 4 whose upper three labels again span k-1), unit spacing with a
/// fractional offset, two labels with the same integer part, large labels with unit / non-unit gaps.
/// (the last two: distinct labels closer together than machine epsilon — 0 / 1e-17 and the adjacent
/// doubles 0.3 / 0.1+0.2 — which a tolerant de-duplication of the class table would merge)
pub const REAL_TABLES: [&[f64]; 8] =
    [&[0.0, 0.5, 2.0], &[1.0, 1.5, 3.0], &[-1.5, -0.5, 0.25, 1.5], &[0.5, 1.5, 2.5], &[0.25, 0.75], &[300_000_001.0, 300_000_002.0, 300_000_005.0], &[0.0, 1e-17, 4.0], &[0.3, 0.30000000000000004, 1.0]];

/// Label of letter `l` in table `t`; `seed` rotates the letter -> label assignment (seed 0: identity).
pub fn table_label(t: usize, l: usize, seed: u64) -> f64 {
    let tab = REAL_TABLES[t % REAL_TABLES.len()];
    tab[(l + (seed % 8) as usize) % tab.len()]
}

/// Common offsets of the regression targets y = offset + small.
pub const OFFSETS: [f64; 3] = [1013.25, 20000.0, 1e6];

/// `offset + small`, exactly: `small` is first rounded to a multiple of 2^-8 (a no-op for the
/// dyadic alphabets), so that the sum is representable and `y - offset` gives `small` back.
pub fn offset_target(offset: f64, small: f64) -> f64 {
    let q = (small * 256.0).round() / 256.0;
    let y = offset + q;
    assert!(y - offset == q, "offset target {} + {} is not exactly representable", offset, q);
    y
}
