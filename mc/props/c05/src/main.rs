//! C05 — a fitted decision tree is a consistent, greedy-optimal partition within limits.
//!
//! E1 over (training set, criterion, max_depth, min_samples_leaf, min_samples_split): every data
//! set over small alphabets (lattices with many ties, all permutations of distinct values, three
//! adjacent doubles) and every member of deterministic structured families (n = 8..150, p = 1..6)
//! is fitted by the real `DecisionTreeClassifier` / `DecisionTreeRegressor`; the node array is read
//! back from the model's serde serialisation and judged by a brute-force oracle (`oracle.rs`).
//! Extension (round 2): real-valued class-label tables (`ext = "tables"`) and regression targets
//! with a large common offset (`ext = "offsets"`) on the lattices and the structured sets.

mod data;
mod mirror;
mod oracle;

use mc_core::{self as mc, json, Harness, Job, Plan, Tier};
use mc_sc::{own_rng, release_rng, take_draws, RngMode};
use mirror::MTree;
use oracle::{classify, judge, Cfg, Crit, Data, Model};
use smartcore::linalg::naive::dense_matrix::DenseMatrix;
use smartcore::tree::decision_tree_classifier::{DecisionTreeClassifier, DecisionTreeClassifierParameters, SplitCriterion};
use smartcore::tree::decision_tree_regressor::{DecisionTreeRegressor, DecisionTreeRegressorParameters};
use smartcore::verif_hooks::QuickArgSort;

struct C05;

enum Fitted {
    R(DecisionTreeRegressor<f64>),
    C(DecisionTreeClassifier<f64>),
}

impl Fitted {
    fn bytes(&self) -> Result<Vec<u8>, String> {
        match self {
            Fitted::R(m) => mirror::bytes_of(m),
            Fitted::C(m) => mirror::bytes_of(m),
        }
    }
    fn cross_check(&self) -> Result<(), String> {
        match self {
            Fitted::R(m) => mirror::cross_check(m, false),
            Fitted::C(m) => mirror::cross_check(m, true),
        }
    }
    fn predict(&self, x: &DenseMatrix<f64>) -> Result<Vec<f64>, String> {
        match self {
            Fitted::R(m) => m.predict(x).map_err(|e| e.to_string()),
            Fitted::C(m) => m.predict(x).map_err(|e| e.to_string()),
        }
    }
}

fn fit(x: &DenseMatrix<f64>, y: &Vec<f64>, cfg: &Cfg) -> Result<Fitted, String> {
    match cfg.model {
        Model::Reg => {
            DecisionTreeRegressor::fit(x, y, DecisionTreeRegressorParameters { max_depth: cfg.depth, min_samples_leaf: cfg.msl, min_samples_split: cfg.mss }).map(Fitted::R).map_err(|e| e.to_string())
        }
        Model::Cls(c) => {
            let criterion = match c {
                Crit::Gini => SplitCriterion::Gini,
                Crit::Entropy => SplitCriterion::Entropy,
                Crit::ClsErr => SplitCriterion::ClassificationError,
            };
            DecisionTreeClassifier::fit(x, y, DecisionTreeClassifierParameters { criterion, max_depth: cfg.depth, min_samples_leaf: cfg.msl, min_samples_split: cfg.mss }).map(Fitted::C).map_err(|e| e.to_string())
        }
    }
}

/// Fit under the panic guard and read the node array back. Violations are reported under `site`.
fn fit_and_read(x: &DenseMatrix<f64>, y: &Vec<f64>, cfg: &Cfg, site: &str, what: &dyn Fn() -> String) -> Option<(Fitted, Vec<u8>, MTree)> {
    let model = match mc::guard(|| fit(x, y, cfg)) {
        Err(p) => {
            let sfx = if p.is_overflow_check() { ":overflow-check" } else { "" };
            mc::violation(format!("{}:panic{}", site, sfx), format!("{}: fit panicked: {}", what(), p.brief()));
            return None;
        }
        Ok(Err(e)) => {
            mc::violation(format!("{}:error", site), format!("{}: fit failed: {}", what(), e));
            return None;
        }
        Ok(Ok(m)) => m,
    };
    let read = model.bytes().and_then(|b| mirror::from_bytes(&b, cfg.model.is_cls()).map(|t| (b, t)));
    match read {
        Ok((b, t)) => Some((model, b, t)),
        Err(e) => {
            mc::violation(format!("{}:serialisation", site), format!("{}: {}", what(), e));
            None
        }
    }
}

const SCALES: [i32; 2] = [-3, 5];

static CROSS_CHECKED: std::sync::atomic::AtomicBool = std::sync::atomic::AtomicBool::new(false);

/// One execution: fit, judge, fit again, fit on rescaled features.
fn exec_case(d: &Data, cfg: &Cfg, full: bool) {
    let ic = classify(d);
    let comp = cfg.model.comp();
    let site = |clause: &str| format!("{}.{}:{}", comp, clause, ic.name);
    let what = || format!("{} on {}", cfg.text(), d.text());
    let x = DenseMatrix::from_2d_vec(&d.x);

    // the library hands thread_rng to the tree; with all features tried it must not draw from it
    own_rng(RngMode::All);
    let fitted = fit_and_read(&x, &d.y, cfg, &site("fit"), &what);
    let draws = take_draws();
    release_rng();
    if !draws.is_empty() {
        mc::violation(site("deterministic"), format!("{}: fit on all rows / all features made {} random draws", what(), draws.len()));
    }
    let Some((model, bytes, tree)) = fitted else { return };
    // read-back self-check: the first model fitted in every process and every sampled / replayed
    // case is also read by field name from its JSON value and compared with the bincode view
    // (done here, inside a supervised case, so that the parent process never runs library code)
    if mc::sampling() || !CROSS_CHECKED.swap(true, std::sync::atomic::Ordering::Relaxed) {
        if let Err(e) = model.cross_check() {
            panic!("harness self-check failed: {}", e);
        }
    }

    let mut predict = |q: &[Vec<f64>]| -> Option<Vec<f64>> {
        let qm = DenseMatrix::from_2d_vec(&q.to_vec());
        match mc::guard(|| model.predict(&qm)) {
            Ok(Ok(v)) => Some(v),
            Ok(Err(e)) => {
                mc::violation(format!("{}:error", site("predict")), format!("{}: predict failed: {}", what(), e));
                None
            }
            Err(p) => {
                mc::violation(format!("{}:panic", site("predict")), format!("{}: predict panicked: {}", what(), p.brief()));
                None
            }
        }
    };
    let judged = judge(&tree, d, cfg, &ic, &mut predict);

    // ---- fitted twice => identical model
    if !full {
        mc::count("base_fit_only");
    } else if let Some((_, bytes2, _)) = fit_and_read(&x, &d.y, cfg, &site("fit"), &what) {
        if bytes2 != bytes {
            mc::violation_nondet(site("deterministic"), format!("{}: two fits on the same rows give different serialised models", what()));
        }
    }

    // ---- features multiplied by a positive power of two => same tree, thresholds scaled exactly
    for k in SCALES.iter().copied().filter(|_| full) {
        let s = 2f64.powi(k);
        let xs: Vec<Vec<f64>> = d.x.iter().map(|r| r.iter().map(|v| v * s).collect()).collect();
        let xm = DenseMatrix::from_2d_vec(&xs);
        if let Some((_, _, ts)) = fit_and_read(&xm, &d.y, cfg, &site("fit"), &what) {
            let mut scaled = tree.clone();
            scaled.nodes.iter_mut().for_each(|n| n.thr = n.thr.map(|t| t * s));
            // a leaf may keep the threshold of a split that was found but not carried out; compare it too
            if !scaled.same(&ts) {
                mc::violation(
                    site("scale-invariance"),
                    format!("{}: fitting on features x 2^{} changes the tree: {} vs (thresholds x 2^{}) {}", what(), k, ts.to_json(), k, scaled.to_json()),
                );
            }
        }
    }

    if tree.nodes.len() > 1 {
        mc::nontrivial();
        mc::count("root_split");
    } else {
        mc::count("unsplit_root");
    }
    if let Some(j) = &judged {
        if j.max_path >= 2 {
            mc::count("trees_2plus_levels");
        }
        if j.max_path >= 4 {
            mc::count("trees_4plus_levels");
        }
    }
    mc::outcome(tree.digest());
    mc::describe(|| {
        json!({
            "model": cfg.text(), "input_class": ic.name, "family": d.family, "x": d.x, "y": d.y,
            "tree": tree.to_json(),
            "leaves": judged.as_ref().map(|j| j.n_leaves), "longest_path_splits": judged.as_ref().map(|j| j.max_path),
            "predict_on_training_rows": model.predict(&x).ok(),
            "checked": ["routing", "leaf value", "leaf size", "path length", "greedy optimality", "completeness", "reproduce", "fit twice", "features x 2^-3, 2^5"],
        })
    });
}

// ------------------------------------------------------------------------------------------------
// job decoding

const LAT_DEPTH: [i64; 4] = [0, 1, 2, 3]; // 0 = None
const LAT_MSL: [i64; 3] = [1, 2, 3];
const LAT_MSS: [i64; 4] = [0, 2, 3, 4];

const ST_DEPTH_Q: [i64; 4] = [0, 2, 3, 8];
const ST_MSL_Q: [i64; 3] = [1, 2, 5];
const ST_MSS_Q: [i64; 3] = [0, 2, 8];
const ST_DEPTH_T: [i64; 7] = [0, 1, 2, 3, 4, 5, 8];
const ST_MSL_T: [i64; 5] = [1, 2, 3, 4, 5];
const ST_MSS_T: [i64; 6] = [0, 1, 2, 3, 5, 8];
const ST_K: [usize; 4] = [2, 3, 5, 4];

// Extension (round 2): configuration grids of the label-table and offset-target families
const TAB_DEPTH: [i64; 2] = [0, 2];
const TAB_MSL: [i64; 2] = [1, 2];
const TAB_MSS: [i64; 1] = [0];
const OFF_DEPTH: [i64; 3] = [1, 2, 0]; // the stump first: the sharpest observation of the root's choice
const OFF_MSL: [i64; 3] = [1, 2, 3];
const OFF_MSS: [i64; 2] = [0, 3];
const ST_TAB_DEPTH: [i64; 3] = [0, 2, 8];
const ST_TAB_MSL: [i64; 2] = [1, 2];
const ST_TAB_MSS: [i64; 2] = [0, 2];
const ST_OFF_DEPTH: [i64; 3] = [1, 2, 0];
const ST_OFF_MSL: [i64; 3] = [1, 2, 5];
const ST_OFF_MSS: [i64; 2] = [0, 8];

/// "tables" (classification: real-valued label tables), "offsets" (regression: targets with a
/// large common offset) or "" (the original families).
fn ext_of(job: &Job) -> &str {
    job.params.get("ext").and_then(|v| v.as_str()).unwrap_or("")
}

fn dim(job: &Job, key: &str, alphabet: &[i64]) -> i64 {
    match job.params.get(key).and_then(|v| v.as_i64()) {
        Some(v) => v,
        None => mc::pick(alphabet),
    }
}

fn model_of(s: &str) -> Model {
    match s {
        "reg" => Model::Reg,
        "gini" => Model::Cls(Crit::Gini),
        "entropy" => Model::Cls(Crit::Entropy),
        "error" => Model::Cls(Crit::ClsErr),
        other => panic!("unknown model {}", other),
    }
}

fn cfg_of(job: &Job, model: Model, depths: &[i64], msls: &[i64], msss: &[i64]) -> Cfg {
    let depth = dim(job, "depth", depths);
    let msl = dim(job, "msl", msls) as usize;
    let mss = dim(job, "mss", msss) as usize;
    Cfg { model, depth: if depth == 0 { None } else { Some(depth as u16) }, msl, mss }
}

/// Chooses the targets (n letters); None when a classification target has a single class (outside
/// the property's quantifier: the classifier rejects it).
fn choose_y(model: Model, n: usize, yalpha: &[f64; 3], map: &[f64; 3]) -> Option<Vec<f64>> {
    let letters: Vec<usize> = (0..n).map(|_| mc::choose(3)).collect();
    if model.is_cls() {
        if letters.iter().all(|l| *l == letters[0]) {
            mc::count("single_class_outside_domain");
            return None;
        }
        Some(letters.iter().map(|l| map[*l]).collect())
    } else {
        Some(letters.iter().map(|l| yalpha[*l]).collect())
    }
}

/// Targets of the extension families: the label table / the common offset is a choice, then every
/// sequence of n letters (classification: at least two classes, as above).
fn choose_y_ext(job: &Job, model: Model, n: usize, seed: u64) -> Option<Vec<f64>> {
    match (ext_of(job), model.is_cls()) {
        ("tables", true) => {
            let t = mc::choose(data::REAL_TABLES.len());
            let k = data::REAL_TABLES[t].len();
            let letters: Vec<usize> = (0..n).map(|_| mc::choose(k)).collect();
            if letters.iter().all(|l| *l == letters[0]) {
                mc::count("single_class_outside_domain");
                return None;
            }
            mc::count("ext_label_table_cases");
            Some(letters.iter().map(|l| data::table_label(t, *l, seed)).collect())
        }
        ("offsets", false) => {
            let off = mc::pick(&data::OFFSETS);
            let small = data::y_alphabet(seed);
            mc::count("ext_offset_target_cases");
            Some((0..n).map(|_| data::offset_target(off, small[mc::choose(3)])).collect())
        }
        (e, _) => panic!("job {}: extension {:?} does not apply to this model", job.name, e),
    }
}

fn lattice_cfg_and_y(job: &Job, model: Model, n: usize, seed: u64) -> (Cfg, Option<Vec<f64>>) {
    match ext_of(job) {
        "" => {
            let cfg = cfg_of(job, model, &LAT_DEPTH, &LAT_MSL, &LAT_MSS);
            let map = data::LABEL_MAPS[job.u("map") % data::LABEL_MAPS.len()];
            (cfg, choose_y(model, n, &data::y_alphabet(seed), &map))
        }
        "tables" => (cfg_of(job, model, &TAB_DEPTH, &TAB_MSL, &TAB_MSS), choose_y_ext(job, model, n, seed)),
        _ => (cfg_of(job, model, &OFF_DEPTH, &OFF_MSL, &OFF_MSS), choose_y_ext(job, model, n, seed)),
    }
}

fn run_lattice(job: &Job, seed: u64) {
    let model = model_of(job.s("model"));
    let (n, p) = (job.u("n"), job.u("p"));
    let xa = if job.s("alpha") == "ulp" { data::ulp_alphabet() } else { data::x_alphabet(seed) };
    let (cfg, y) = lattice_cfg_and_y(job, model, n, seed);
    let Some(y) = y else { return };
    let x: Vec<Vec<f64>> = (0..n).map(|_| (0..p).map(|_| xa[mc::choose(3)]).collect()).collect();
    exec_case(&Data { x, y, family: String::new() }, &cfg, !job.b("base_only"));
}

fn choose_perm(n: usize) -> Vec<usize> {
    let mut rest: Vec<usize> = (0..n).collect();
    (0..n).map(|_| rest.remove(mc::choose(rest.len()))).collect()
}

fn run_perm(job: &Job, seed: u64) {
    let model = model_of(job.s("model"));
    let (n, p) = (job.u("n"), job.u("p"));
    let (cfg, y) = lattice_cfg_and_y(job, model, n, seed);
    let Some(y) = y else { return };
    let mut x = vec![vec![0.0; p]; n];
    for j in 0..p {
        let perm = choose_perm(n);
        for i in 0..n {
            x[i][j] = data::rank_value(seed, perm[i]);
        }
    }
    exec_case(&Data { x, y, family: String::new() }, &cfg, !job.b("base_only"));
}

const SORT_CFGS: [(i64, i64, i64); 3] = [(0, 1, 0), (0, 2, 4), (2, 3, 2)];

/// p = 1, n >= 8 rows over a four-letter alphabet: every such column, so that the library's
/// argsort leaves its insertion-sort regime on every arrangement of ties.
fn run_sorttree(job: &Job, seed: u64) {
    let model = model_of(job.s("model"));
    let n = job.u("n");
    let (depth, msl, mss) = mc::pick(&SORT_CFGS);
    let cfg = Cfg { model, depth: if depth == 0 { None } else { Some(depth as u16) }, msl: msl as usize, mss: mss as usize };
    let ykind = mc::choose(2);
    let xa = data::x4_alphabet(seed);
    let first = job.u("first");
    let x: Vec<Vec<f64>> = (0..n).map(|i| vec![xa[if i == 0 { first } else { mc::choose(4) }]]).collect();
    let y: Vec<f64> = (0..n)
        .map(|i| match (model.is_cls(), ykind) {
            (false, 0) => data::y_alphabet(seed)[i % 3],
            (false, _) => ((i * 7) % 5) as f64 - 1.5,
            (true, 0) => data::LABEL_MAPS[2][i % 3],
            (true, _) => data::LABEL_MAPS[1][(i * 7 % 5) % 3],
        })
        .collect();
    exec_case(&Data { x, y, family: String::new() }, &cfg, !job.b("base_only"));
}

fn run_struct(job: &Job, seed: u64, thorough: bool) {
    let model = model_of(job.s("model"));
    let (n, p) = (job.u("n"), job.u("p"));
    let ext = ext_of(job);
    let cfg = match ext {
        "tables" => cfg_of(job, model, &ST_TAB_DEPTH, &ST_TAB_MSL, &ST_TAB_MSS),
        "offsets" => cfg_of(job, model, &ST_OFF_DEPTH, &ST_OFF_MSL, &ST_OFF_MSS),
        _ if job.s("grid") == "fine" => cfg_of(job, model, &ST_DEPTH_T, &ST_MSL_T, &ST_MSS_T),
        _ => cfg_of(job, model, &ST_DEPTH_Q, &ST_MSL_Q, &ST_MSS_Q),
    };
    let start = mc::choose(data::N_COLS);
    let x: Vec<Vec<f64>> = (0..n).map(|i| (0..p).map(|j| data::col(start + j, n, i, seed)).collect()).collect();
    let cols: Vec<&str> = (0..p).map(|j| data::COL_NAMES[(start + j) % data::N_COLS]).collect();
    let (y, yname): (Vec<f64>, String) = if ext == "tables" {
        // real-valued label table (a choice); the number of classes is the size of the table
        let t = mc::choose(data::REAL_TABLES.len());
        let k = data::REAL_TABLES[t].len();
        let yk = mc::choose(data::N_YCLS);
        mc::count("ext_label_table_cases");
        ((0..n).map(|i| data::table_label(t, data::y_cls(yk, k, n, i, seed), seed)).collect(), format!("{} classes {} with labels {:?}", k, data::YCLS_NAMES[yk], data::REAL_TABLES[t]))
    } else if ext == "offsets" {
        // the regression patterns (rounded to multiples of 2^-8) on top of a common offset (a choice)
        let off = mc::pick(&data::OFFSETS);
        let yk = mc::choose(data::N_YREG);
        mc::count("ext_offset_target_cases");
        ((0..n).map(|i| data::offset_target(off, data::y_reg(yk, n, i, seed))).collect(), format!("{} + {}", off, data::YREG_NAMES[yk]))
    } else if model.is_cls() {
        let k = if thorough { mc::pick(&ST_K) } else { mc::pick(&ST_K[..3]) };
        let yk = mc::choose(data::N_YCLS);
        ((0..n).map(|i| data::UGLY5[data::y_cls(yk, k, n, i, seed)]).collect(), format!("{} classes {}", k, data::YCLS_NAMES[yk]))
    } else {
        let yk = mc::choose(data::N_YREG);
        ((0..n).map(|i| data::y_reg(yk, n, i, seed)).collect(), data::YREG_NAMES[yk].to_string())
    };
    let family = format!("structured features {:?}, targets {}, seed {}", cols, yname, seed % 8);
    exec_case(&Data { x, y, family }, &cfg, true);
}

/// The pre-sorting mechanism itself: every vector over a four-letter alphabet.
fn run_argsort(job: &Job, seed: u64) {
    let n = job.u("n");
    let xa = data::x4_alphabet(seed);
    let fixed: Vec<usize> = job.params["fixed"].as_array().map(|a| a.iter().map(|v| v.as_u64().unwrap() as usize).collect()).unwrap_or_default();
    let v: Vec<f64> = (0..n).map(|i| xa[if i < fixed.len() { fixed[i] } else { mc::choose(4) }]).collect();
    let regime = if n <= 7 { "insertion-sort-regime" } else { "partition-regime" };
    let mut w = v.clone();
    let idx = match mc::guard(|| w.quick_argsort_mut()) {
        Ok(i) => i,
        Err(p) => {
            mc::violation(format!("quicksort.argsort:{}:panic", regime), format!("quick_argsort_mut({:?}) panicked: {}", v, p.brief()));
            return;
        }
    };
    let mut seen = vec![false; n];
    let is_perm = idx.len() == n && idx.iter().all(|&i| i < n && !std::mem::replace(&mut seen[i], true));
    if !is_perm {
        mc::violation(format!("quicksort.argsort:{}:not-a-permutation", regime), format!("quick_argsort_mut({:?}) returned {:?}", v, idx));
        return;
    }
    if idx.windows(2).any(|p| v[p[0]] > v[p[1]]) || (0..n).any(|i| w[i] != v[idx[i]]) {
        mc::violation(format!("quicksort.argsort:{}:not-sorted", regime), format!("quick_argsort_mut({:?}) returned order {:?} leaving the vector as {:?}", v, idx, w));
    }
    if idx.windows(2).any(|p| v[p[0]] == v[p[1]] && p[0] > p[1]) {
        mc::count("argsort_unstable_among_ties");
    }
    mc::nontrivial();
    mc::outcome(mc::hash::h_usizes(&idx));
    mc::describe(|| json!({"op": "quick_argsort_mut", "input": v, "order": idx, "sorted": w}));
}

// ------------------------------------------------------------------------------------------------

const MODELS: [&str; 4] = ["reg", "gini", "entropy", "error"];

fn lat(name: String, alpha: &str, model: &str, p: usize, n: usize, map: usize, fixed: &[(&str, i64)]) -> Job {
    let mut params = json!({"kind": "lat", "alpha": alpha, "model": model, "p": p, "n": n, "map": map});
    for (k, v) in fixed {
        params[*k] = json!(*v);
    }
    Job::new(name, params)
}

impl Harness for C05 {
    fn id(&self) -> &'static str {
        "C05"
    }

    fn plan(&self, tier: Tier, seed: u64) -> Plan {
        let t = tier.is_thorough();
        let mut jobs: Vec<Job> = Vec::new();

        // ---- argsort mechanism
        let amax = if t { 12 } else { 10 };
        for n in 1..=amax {
            if n <= 9 {
                jobs.push(Job::new(format!("argsort-n{}", n), json!({"kind": "argsort", "n": n, "fixed": []})));
            } else {
                for a in 0..4 {
                    for b in 0..4 {
                        if n >= 12 {
                            for c in 0..4 {
                                jobs.push(Job::new(format!("argsort-n{}-{}{}{}", n, a, b, c), json!({"kind": "argsort", "n": n, "fixed": [a, b, c]})));
                            }
                        } else {
                            jobs.push(Job::new(format!("argsort-n{}-{}{}", n, a, b), json!({"kind": "argsort", "n": n, "fixed": [a, b]})));
                        }
                    }
                }
            }
        }

        // ---- lattices, p = 1 (small n: all configurations inside one job)
        let small_max = 4;
        for n in 2..=small_max {
            jobs.push(lat(format!("lat-reg-p1-n{}", n), "int", "reg", 1, n, 0, &[]));
            for m in &MODELS[1..] {
                for map in 0..data::LABEL_MAPS.len() {
                    if !t && n == 4 && map % 2 == 1 {
                        continue;
                    }
                    jobs.push(lat(format!("lat-{}-p1-n{}-labels{}", m, n, map), "int", m, 1, n, map, &[]));
                }
            }
        }
        // ---- three adjacent doubles
        let ulp_max = if t { 5 } else { 3 };
        for n in 2..=ulp_max {
            for m in MODELS {
                jobs.push(lat(format!("ulp-{}-p1-n{}", m, n), "ulp", m, 1, n, 1, &[]));
            }
        }
        if t {
            for n in 2..=3 {
                for m in MODELS {
                    jobs.push(lat(format!("ulp-{}-p2-n{}", m, n), "ulp", m, 2, n, 1, &[]));
                }
            }
        }
        // ---- lattices, p = 2
        for m in MODELS {
            jobs.push(lat(format!("lat-{}-p2-n2", m), "int", m, 2, 2, 2, &[]));
        }
        // ---- distinct values (all permutations), small n
        for n in 2..=4 {
            for m in MODELS {
                jobs.push(Job::new(format!("perm-{}-p1-n{}", m, n), json!({"kind": "perm", "model": m, "p": 1, "n": n, "map": 2})));
            }
        }
        for n in 2..=3 {
            for m in MODELS {
                jobs.push(Job::new(format!("perm-{}-p2-n{}", m, n), json!({"kind": "perm", "model": m, "p": 2, "n": n, "map": 1})));
            }
        }
        // ---- extension (round 2), small sizes: real-valued label tables (the table is a choice inside
        // the job) and regression targets offset + small (the offset is a choice), every x, full case
        let ext = |name: String, kind: &str, ext: &str, model: &str, p: usize, n: usize, fixed: &[(&str, i64)], base_only: bool| -> Job {
            let mut params = json!({"kind": kind, "alpha": "int", "ext": ext, "model": model, "p": p, "n": n, "map": 0, "base_only": base_only});
            for (k, v) in fixed {
                params[*k] = json!(*v);
            }
            Job::new(name, params)
        };
        for n in 2..=4 {
            jobs.push(ext(format!("lat-reg-p1-n{}-offsets", n), "lat", "offsets", "reg", 1, n, &[], false));
            for m in &MODELS[1..] {
                jobs.push(ext(format!("lat-{}-p1-n{}-rtables", m, n), "lat", "tables", m, 1, n, &[], false));
                jobs.push(ext(format!("perm-{}-p1-n{}-rtables", m, n), "perm", "tables", m, 1, n, &[], false));
            }
        }
        jobs.push(ext("lat-reg-p2-n2-offsets".into(), "lat", "offsets", "reg", 2, 2, &[], false));
        for n in 2..=3 {
            jobs.push(ext(format!("perm-reg-p2-n{}-offsets", n), "perm", "offsets", "reg", 2, n, &[], false));
        }

        // ---- every column of n >= 8 rows over four letters (sort regime), full tree oracle
        let smax = if t { 10 } else { 8 };
        for n in 8..=smax {
            for m in if t { &MODELS[..] } else { &MODELS[..2] } {
                for first in 0..4 {
                    jobs.push(Job::new(format!("sorttree-{}-n{}-first{}", m, n, first), json!({"kind": "sorttree", "model": m, "n": n, "first": first})));
                }
            }
        }

        // ---- structured families (n = 8..150)
        let (ns, ps): (&[usize], &[usize]) = if t { (&[8, 9, 10, 11, 12, 13, 16, 17, 23, 32, 40, 64, 100, 150], &[1, 2, 3, 4, 5, 6]) } else { (&[8, 11, 16, 23, 40, 150], &[1, 2, 3, 6]) };
        for &n in ns {
            for &p in ps {
                if !t && n == 150 && p > 2 {
                    continue; // quick tier: the large size (arg-sort beyond its small-partition regime) for p <= 2 only
                }
                for m in MODELS {
                    if t && n >= 64 {
                        // the coarse configuration grid, one job per depth setting
                        for d in ST_DEPTH_Q {
                            jobs.push(Job::new(format!("struct-{}-n{}-p{}-depth{}", m, n, p, d), json!({"kind": "struct", "model": m, "n": n, "p": p, "depth": d, "grid": "coarse"})));
                        }
                    } else if t && n >= 23 {
                        for d in ST_DEPTH_T {
                            jobs.push(Job::new(format!("struct-{}-n{}-p{}-depth{}", m, n, p, d), json!({"kind": "struct", "model": m, "n": n, "p": p, "depth": d, "grid": "fine"})));
                        }
                    } else {
                        jobs.push(Job::new(format!("struct-{}-n{}-p{}", m, n, p), json!({"kind": "struct", "model": m, "n": n, "p": p, "grid": if t { "fine" } else { "coarse" }})));
                    }
                }
            }
        }
        // ---- extension (round 2), structured sets
        let (tns, tps): (&[usize], &[usize]) = if t { (ns, ps) } else { (&[8, 11, 16, 23, 40], &[1, 2, 3, 6]) };
        for &n in tns {
            for &p in tps {
                for m in &MODELS[1..] {
                    jobs.push(Job::new(format!("struct-{}-n{}-p{}-rtables", m, n, p), json!({"kind": "struct", "ext": "tables", "model": m, "n": n, "p": p, "grid": "ext"})));
                }
            }
        }
        for &n in ns {
            for &p in ps {
                if !t && n == 150 && p > 2 {
                    continue;
                }
                jobs.push(Job::new(format!("struct-reg-n{}-p{}-offsets", n, p), json!({"kind": "struct", "ext": "offsets", "model": "reg", "n": n, "p": p, "grid": "ext"})));
            }
        }
        // ---- extension (round 2), larger sizes (bulk: fit + predict + judge); the longest jobs of the tier, so they start before the many small bulk jobs
        {
            // label tables: quick n = 5 with the limits disabled; thorough n = 5 on the table grid, n = 6 with the limits disabled
            let off: &[(&str, i64)] = &[("depth", 0), ("msl", 1), ("mss", 0)];
            for m in &MODELS[1..] {
                jobs.push(ext(format!("lat-{}-p1-n5-rtables", m), "lat", "tables", m, 1, 5, if t { &[] } else { off }, true));
                jobs.push(ext(format!("perm-{}-p1-n5-rtables", m), "perm", "tables", m, 1, 5, if t { &[] } else { off }, true));
                if t {
                    jobs.push(ext(format!("lat-{}-p1-n6-rtables", m), "lat", "tables", m, 1, 6, off, true));
                    jobs.push(ext(format!("perm-{}-p1-n6-rtables", m), "perm", "tables", m, 1, 6, off, true));
                }
            }
            // offset targets: p = 1, n = 5 [6]: max_depth {1,2,None} x msl {1,2} (thorough n = 5: the whole offset grid); p = 2, n = 3 [4]: msl 1
            for d in OFF_DEPTH {
                for l in [1i64, 2] {
                    if t {
                        jobs.push(ext(format!("lat-reg-p1-n6-offsets-depth{}-msl{}", d, l), "lat", "offsets", "reg", 1, 6, &[("depth", d), ("msl", l), ("mss", 0)], true));
                    } else {
                        jobs.push(ext(format!("lat-reg-p1-n5-offsets-depth{}-msl{}", d, l), "lat", "offsets", "reg", 1, 5, &[("depth", d), ("msl", l), ("mss", 0)], true));
                    }
                }
                if t {
                    jobs.push(ext(format!("lat-reg-p1-n5-offsets-depth{}", d), "lat", "offsets", "reg", 1, 5, &[("depth", d)], true));
                    jobs.push(ext(format!("lat-reg-p2-n3-offsets-depth{}", d), "lat", "offsets", "reg", 2, 3, &[("depth", d)], true));
                    jobs.push(ext(format!("lat-reg-p2-n4-offsets-depth{}", d), "lat", "offsets", "reg", 2, 4, &[("depth", d), ("msl", 1), ("mss", 0)], true));
                } else {
                    jobs.push(ext(format!("lat-reg-p2-n3-offsets-depth{}", d), "lat", "offsets", "reg", 2, 3, &[("depth", d), ("msl", 1), ("mss", 0)], true));
                }
            }
        }
        // ---- larger lattices: one job per (model, depth, msl) [and first letters]
        let mut big = |name: &str, kind: &str, p: usize, n: usize, map: usize, split_mss: bool, base_only: bool| {
            for m in MODELS {
                for d in LAT_DEPTH {
                    for l in LAT_MSL {
                        let mss_list: Vec<Option<i64>> = if split_mss { LAT_MSS.iter().map(|v| Some(*v)).collect() } else { vec![None] };
                        for s in mss_list {
                            let mut params = json!({"kind": kind, "alpha": "int", "model": m, "p": p, "n": n, "map": map, "depth": d, "msl": l, "base_only": base_only});
                            let mut nm = format!("{}-{}-p{}-n{}-depth{}-msl{}", name, m, p, n, d, l);
                            if let Some(s) = s {
                                params["mss"] = json!(s);
                                nm.push_str(&format!("-mss{}", s));
                            }
                            jobs.push(Job::new(nm, params));
                        }
                    }
                }
            }
        };
        // (quick: these bulk jobs fit and judge only; refit / rescaled fits are enumerated over every other job)
        big("lat", "lat", 1, 5, 2, false, !t);
        big("lat", "lat", 2, 3, 1, false, !t);
        big("perm", "perm", 1, 5, 1, false, !t);
        if t {
            big("lat", "lat", 1, 6, 1, false, true);
            big("perm", "perm", 1, 6, 2, false, true);
            big("perm", "perm", 2, 4, 2, false, true);
            big("lat", "lat", 2, 4, 2, true, true);
        }
        if t {
            // n = 7: every data set, a 2 x 2 x 2 sub-grid of the configurations
            for m in MODELS {
                for d in [0i64, 2] {
                    for l in [1i64, 2] {
                        for s in [0i64, 3] {
                            jobs.push(Job::new(
                                format!("lat-{}-p1-n7-depth{}-msl{}-mss{}", m, d, l, s),
                                json!({"kind": "lat", "alpha": "int", "model": m, "p": 1, "n": 7, "map": 2, "depth": d, "msl": l, "mss": s, "base_only": true}),
                            ));
                        }
                    }
                }
            }
        }
        for j in jobs.iter_mut() {
            j.params["seed"] = json!(seed % 8);
            j.params["thorough"] = json!(t);
        }

        let jobs = {
            let mut j: Vec<Job> = jobs;
            j.insert(0, Job::new("builders", json!({"kind": "builders"})));
            for i in 0..mc_sc::entry::n_parts("C05") {
                j.insert(1 + i, Job::new(format!("entry-{}", i), json!({"kind": "entry", "part": i})));
            }
            j
        };
        Plan {
            jobs,
            budget_s: if t { 2700 } else { 40 },
            case_deadline_ms: 20_000,
            // about 1/10 of what the complete quick tier reaches (see NOTES.md), so that a run cut
            // short by the wall budget on a busy machine still passes, and a vacuous one does not
            floors: vec![
                ("builder_chains", 5),
                ("entry_cases", 1000),
                ("root_split", 1_000_000),
                ("trees_2plus_levels", 150_000),
                ("trees_4plus_levels", 5_000),
                ("reg_opt_nodes", 400_000),
                ("cls_opt_nodes", 90_000),
                ("gain_tie_nodes", 100_000),
                ("zero_gain_split", 50_000),
                ("leaf_at_msl_boundary", 500_000),
                ("leaf_at_max_depth", 500_000),
                ("leaf_with_pending_split", 100_000),
                ("leaf_without_admissible_cut", 150_000),
                ("leaf_majority_tie", 500_000),
                ("impure_leaf", 1_000_000),
                ("reproduce_checked", 6_000),
                ("pure_leaf_above_mss", 20_000),
                ("argsort_unstable_among_ties", 100_000),
                // extension (round 2): real-valued label tables, offset regression targets
                ("ext_label_table_cases", 200_000),
                ("cls_labels_span_k_minus_1_not_unit_spaced", 50_000),
                ("cls_labels_same_integer_part", 8_000),
                ("cls_labels_large", 20_000),
                ("ext_offset_target_cases", 100_000),
                ("reg_offset_opt_nodes", 100_000),
                ("reg_offset_stump_choice_matters", 10_000),
            ],
            bounds: json!({
                "builders": mc_sc::builders::BOUNDS,
                "entry_paths": mc_sc::entry::BOUNDS,
                "seed_variant": seed % 8,
                "lattice_p1": format!("every x in A^n, y in B^n (|A|=|B|=3; classification: >= 2 classes, label maps {:?}), n = 2..{}", data::LABEL_MAPS, if t { 7 } else { 5 }),
                "lattice_p2": format!("every x in A^(2n), y in B^n, n = 2..{}", if t { 4 } else { 3 }),
                "distinct_values": format!("every permutation of n distinct values per feature x every y: p=1 n = 2..{}, p=2 n = 2..{}", if t { 6 } else { 5 }, if t { 4 } else { 3 }),
                "adjacent_doubles": format!("every x over {{1+1ulp,1+2ulp,1+3ulp}}^n, n = 2..{} (p=1){}", ulp_max, if t { ", n = 2..3 (p=2)" } else { "" }),
                "sort_regime": format!("every column over a 4-letter alphabet, n = 8..{}, 2 target patterns, 3 configurations, models {}", smax, if t { "all four" } else { "regressor + gini" }),
                "structured": format!("n in {:?} x p in {:?} x 10 feature-column rotations x target patterns (4 regression; 3 x k classes) x configuration grid", ns, ps),
                "configurations_lattice": "criterion {gini,entropy,classification error} x max_depth {None,1,2,3} x min_samples_leaf {1,2,3} x min_samples_split {0,2,3,4} (p=1 n=7: max_depth {None,2} x min_samples_leaf {1,2} x min_samples_split {0,3})",
                "configurations_structured": if t { "n < 64: max_depth {None,1,2,3,4,5,8} x msl {1..5} x mss {0,1,2,3,5,8}; n >= 64: max_depth {None,2,3,8} x msl {1,2,5} x mss {0,2,8}" } else { "max_depth {None,2,3,8} x msl {1,2,5} x mss {0,2,8}" },
                "argsort": format!("every vector over a 4-letter alphabet, n = 1..{}", amax),
                "ext_label_tables": format!(
                    "classification, label table chosen from {:?} (k = size of the table, every y with >= 2 classes): lattice p=1 every x in A^n and every permutation of n distinct values, n = 2..{}, criterion (3) x max_depth {{None,2}} x msl {{1,2}} x mss 0{}; structured sets n in {:?} x p in {:?} x 10 column rotations x 3 class patterns x 6 tables x max_depth {{None,2,8}} x msl {{1,2}} x mss {{0,2}}",
                    data::REAL_TABLES,
                    if t { 5 } else { 4 },
                    if t { ", n = 6 with max_depth None, msl 1, mss 0" } else { ", n = 5 with max_depth None, msl 1, mss 0" },
                    tns,
                    tps
                ),
                "ext_offset_targets": format!(
                    "regression, y = offset + small, offset chosen from {:?}, small in the target alphabet (lattice) / the 4 target patterns rounded to multiples of 2^-8 (structured), all sums exact: lattice p=1 every x in A^n, every y, n = 2..{} with max_depth {{1,2,None}} x msl {{1,2,3}} x mss {{0,3}}, n = {} with max_depth {{1,2,None}} x msl {{1,2}} x mss 0; p=2 n = 2{} (every x in A^(2n)), p=2 n = 2,3 every pair of permutations; structured sets n in {:?} x p in {:?} x 10 rotations x 3 offsets x 4 patterns x max_depth {{1,2,None}} x msl {{1,2,5}} x mss {{0,8}}",
                    data::OFFSETS,
                    if t { 5 } else { 4 },
                    if t { 6 } else { 5 },
                    if t { ",3 on that grid, n = 4 with max_depth {1,2,None}, msl 1, mss 0" } else { " on that grid, n = 3 with max_depth {1,2,None}, msl 1, mss 0" },
                    ns,
                    ps
                ),
                "per_case": format!("fit, predict (training rows + rows at/next to every threshold), refit, fit on features x 2^-3 and x 2^5; the bulk lattice jobs ({}) fit, predict and judge only", if t { "p=1 n=6,7; p=2 n=4; permutations p=1 n=6, p=2 n=4" } else { "p=1 n=5; p=2 n=3; permutations p=1 n=5" }),
            }),
        }
    }

    fn run(&self, job: &Job) {
        if job.kind() == "entry" {
            return mc_sc::entry::run_part("C05", job.u("part"));
        }
        let seed = job.params.get("seed").and_then(|v| v.as_u64()).unwrap_or(0);
        match job.kind() {
            "lat" => run_lattice(job, seed),
            "perm" => run_perm(job, seed),
            "sorttree" => run_sorttree(job, seed),
            "struct" => run_struct(job, seed, job.b("thorough")),
            "argsort" => run_argsort(job, seed),
            "builders" => mc_sc::builders::run("C05"),
            other => panic!("unknown job kind {}", other),
        }
    }

    fn cleanup(&self) {
        release_rng();
    }

    fn rule(&self) -> String {
        "one execution = one (training set, criterion, max_depth, min_samples_leaf, min_samples_split): fit + predict + refit + two rescaled fits; non-trivial = the root was split (argsort jobs: every vector); distinct = distinct digest of the fitted node array (children, split features, thresholds, outputs)".into()
    }

    fn assumptions(&self) -> Vec<String> {
        vec![
            "the node array read through bincode equals the one read by field name from serde_json::to_value (checked on the first model of every worker process and on every sampled / replayed case)".into(),
            "routing convention: a row goes to true_child iff value <= threshold (the alternative '<' is accepted when it reproduces predict everywhere)".into(),
            "classification optimality / completeness / exact reproduction are demanded only when min_samples_leaf = 1 and the values within each feature are pairwise distinct, as in the statement".into(),
            "the tree fit with all features tried makes no random draw (checked: the RNG seam must stay silent)".into(),
            "regression gains are computed from the node's centred targets (a squared-error reduction does not change when a constant is subtracted from the targets); a chosen threshold is accepted when its reduction is within max(64 m eps SST, 1e-9 best reduction) of the best one, never more than the former 1e-9 (sum y^2 + 1)".into(),
            "the RNG call sites of /repo/src equal /verif/rng_sites.allow (checked at start-up)".into(),
        ]
    }
}

fn main() {
    if let Err(e) = mc_sc::check_rng_sites() {
        eprintln!("MACHINERY-ERROR: {}", e);
        std::process::exit(2);
    }
    mc::main(C05)
}
