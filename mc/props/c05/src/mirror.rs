//! The fitted tree as exposed by its serde serialisation.
//!
//! The hot path reads the model through `bincode` into positional mirror structs (exact floats,
//! ~0.3 us); `from_json` reads the same model *by field name* from `serde_json::to_value` (also
//! exact: no text round trip). `cross_check` (run on the first model of every worker process and
//! for every sampled / replayed case) proves that both views agree, so a change of the struct
//! layout cannot go unnoticed.

use serde::{Deserialize, Serialize};
use serde_json::Value;

#[derive(Clone, Debug)]
pub struct MNode {
    /// regressor: the node's output; classifier: `classes[out_idx]` (NaN when out of range)
    pub out: f64,
    pub out_idx: usize,
    pub feat: usize,
    pub thr: Option<f64>,
    pub t: Option<usize>,
    pub f: Option<usize>,
}

impl MNode {
    pub fn is_leaf(&self) -> bool {
        self.t.is_none() && self.f.is_none()
    }
}

#[derive(Clone, Debug)]
pub struct MTree {
    pub nodes: Vec<MNode>,
    pub classes: Vec<f64>,
    pub is_cls: bool,
}

fn same_f(a: f64, b: f64) -> bool {
    a.to_bits() == b.to_bits() || (a.is_nan() && b.is_nan())
}

fn same_of(a: Option<f64>, b: Option<f64>) -> bool {
    match (a, b) {
        (Some(a), Some(b)) => same_f(a, b),
        (None, None) => true,
        _ => false,
    }
}

impl MTree {
    pub fn same(&self, o: &MTree) -> bool {
        self.is_cls == o.is_cls
            && self.nodes.len() == o.nodes.len()
            && self.classes.len() == o.classes.len()
            && self.classes.iter().zip(&o.classes).all(|(a, b)| same_f(*a, *b))
            && self.nodes.iter().zip(&o.nodes).all(|(a, b)| {
                same_f(a.out, b.out) && a.out_idx == b.out_idx && a.feat == b.feat && same_of(a.thr, b.thr) && a.t == b.t && a.f == b.f
            })
    }

    pub fn to_json(&self) -> Value {
        serde_json::json!({
            "classes": self.classes,
            "nodes": self.nodes.iter().enumerate().map(|(i, n)| serde_json::json!({
                "i": i, "output": if self.is_cls { serde_json::json!({"class_index": n.out_idx, "label": n.out}) } else { serde_json::json!(n.out) },
                "split_feature": n.feat, "split_value": n.thr, "true_child": n.t, "false_child": n.f,
            })).collect::<Vec<_>>(),
        })
    }

    pub fn digest(&self) -> u64 {
        use mc_core::hash::{canon_bits, mix};
        let mut h = 0x51ed_270b_u64;
        for n in &self.nodes {
            h = mix(h, canon_bits(n.out));
            h = mix(h, n.t.map(|v| v as u64 + 1).unwrap_or(0));
            h = mix(h, n.f.map(|v| v as u64 + 1).unwrap_or(0));
            if !n.is_leaf() {
                h = mix(h, n.feat as u64);
                h = mix(h, n.thr.map(canon_bits).unwrap_or(1));
            }
        }
        h
    }
}

#[allow(dead_code)]
#[derive(Deserialize)]
struct BNodeR {
    _index: usize,
    output: f64,
    split_feature: usize,
    split_value: Option<f64>,
    split_score: Option<f64>,
    true_child: Option<usize>,
    false_child: Option<usize>,
}

#[allow(dead_code)]
#[derive(Deserialize)]
struct BParamsR {
    max_depth: Option<u16>,
    min_samples_leaf: usize,
    min_samples_split: usize,
}

#[allow(dead_code)]
#[derive(Deserialize)]
struct BTreeR {
    nodes: Vec<BNodeR>,
    parameters: BParamsR,
    depth: u16,
}

#[allow(dead_code)]
#[derive(Deserialize)]
struct BNodeC {
    _index: usize,
    output: usize,
    split_feature: usize,
    split_value: Option<f64>,
    split_score: Option<f64>,
    true_child: Option<usize>,
    false_child: Option<usize>,
}

#[allow(dead_code)]
#[derive(Deserialize)]
enum BCrit {
    Gini,
    Entropy,
    ClassificationError,
}

#[allow(dead_code)]
#[derive(Deserialize)]
struct BParamsC {
    criterion: BCrit,
    max_depth: Option<u16>,
    min_samples_leaf: usize,
    min_samples_split: usize,
}

#[allow(dead_code)]
#[derive(Deserialize)]
struct BTreeC {
    nodes: Vec<BNodeC>,
    parameters: BParamsC,
    num_classes: usize,
    classes: Vec<f64>,
    depth: u16,
}

/// bincode bytes of a model (also used for the "fitted twice => identical" comparison).
pub fn bytes_of<S: Serialize>(model: &S) -> Result<Vec<u8>, String> {
    bincode::serialize(model).map_err(|e| format!("bincode serialisation failed: {}", e))
}

pub fn from_bytes(bytes: &[u8], is_cls: bool) -> Result<MTree, String> {
    if is_cls {
        let t: BTreeC = bincode::deserialize(bytes).map_err(|e| format!("bincode read-back of the classifier failed: {}", e))?;
        let classes = t.classes;
        let nodes = t
            .nodes
            .into_iter()
            .map(|n| MNode {
                out: classes.get(n.output).copied().unwrap_or(f64::NAN),
                out_idx: n.output,
                feat: n.split_feature,
                thr: n.split_value,
                t: n.true_child,
                f: n.false_child,
            })
            .collect();
        Ok(MTree { nodes, classes, is_cls })
    } else {
        let t: BTreeR = bincode::deserialize(bytes).map_err(|e| format!("bincode read-back of the regressor failed: {}", e))?;
        let nodes = t
            .nodes
            .into_iter()
            .map(|n| MNode { out: n.output, out_idx: 0, feat: n.split_feature, thr: n.split_value, t: n.true_child, f: n.false_child })
            .collect();
        Ok(MTree { nodes, classes: Vec::new(), is_cls })
    }
}

fn opt_usize(v: &Value) -> Result<Option<usize>, String> {
    if v.is_null() {
        Ok(None)
    } else {
        v.as_u64().map(|x| Some(x as usize)).ok_or_else(|| format!("not an index: {}", v))
    }
}

fn opt_f64(v: &Value) -> Result<Option<f64>, String> {
    if v.is_null() {
        Ok(None)
    } else {
        v.as_f64().map(Some).ok_or_else(|| format!("not a number: {}", v))
    }
}

/// The same model read by field name from its JSON value.
pub fn from_json(v: &Value, is_cls: bool) -> Result<MTree, String> {
    let classes: Vec<f64> = if is_cls {
        v["classes"].as_array().ok_or("no classes[]")?.iter().map(|c| c.as_f64().unwrap_or(f64::NAN)).collect()
    } else {
        Vec::new()
    };
    let mut nodes = Vec::new();
    for n in v["nodes"].as_array().ok_or("no nodes[]")? {
        for k in ["output", "split_feature", "split_value", "true_child", "false_child"] {
            if n.get(k).is_none() {
                return Err(format!("nodes[] entry lacks field {}", k));
            }
        }
        let (out, out_idx) = if is_cls {
            let i = n["output"].as_u64().ok_or("classifier output is not an index")? as usize;
            (classes.get(i).copied().unwrap_or(f64::NAN), i)
        } else {
            // serde_json writes a non-finite float as null
            (n["output"].as_f64().unwrap_or(f64::NAN), 0)
        };
        nodes.push(MNode {
            out,
            out_idx,
            feat: n["split_feature"].as_u64().ok_or("split_feature is not an index")? as usize,
            thr: opt_f64(&n["split_value"])?,
            t: opt_usize(&n["true_child"])?,
            f: opt_usize(&n["false_child"])?,
        });
    }
    Ok(MTree { nodes, classes, is_cls })
}

/// Cross-check of the two read-back routes on one model.
pub fn cross_check<S: Serialize>(model: &S, is_cls: bool) -> Result<(), String> {
    let a = from_bytes(&bytes_of(model)?, is_cls)?;
    let v = serde_json::to_value(model).map_err(|e| format!("serde_json::to_value failed: {}", e))?;
    let b = from_json(&v, is_cls)?;
    // a NaN output is written as null by JSON: compare with NaN == NaN
    if a.same(&b) {
        Ok(())
    } else {
        Err(format!("positional (bincode) and by-name (JSON) views of the model differ: {:?} vs {:?}", a, b))
    }
}
