//! The C05 oracle: judges one fitted tree against the training set it was fitted on, clause by
//! clause of the property statement. Nothing here shares code with /repo: the routing, the leaf
//! statistics, the impurity measures and the best-split search are re-derived by brute force from
//! the definition.

use crate::mirror::MTree;
use mc_core as mc;

#[derive(Clone, Copy, Debug, PartialEq, Eq)]
pub enum Crit {
    Gini,
    Entropy,
    ClsErr,
}

impl Crit {
    pub fn name(self) -> &'static str {
        match self {
            Crit::Gini => "gini",
            Crit::Entropy => "entropy",
            Crit::ClsErr => "classification-error",
        }
    }
}

#[derive(Clone, Copy, Debug, PartialEq, Eq)]
pub enum Model {
    Reg,
    Cls(Crit),
}

impl Model {
    pub fn comp(self) -> &'static str {
        match self {
            Model::Reg => "dtregressor",
            Model::Cls(_) => "dtclassifier",
        }
    }
    pub fn is_cls(self) -> bool {
        matches!(self, Model::Cls(_))
    }
}

#[derive(Clone, Copy, Debug)]
pub struct Cfg {
    pub model: Model,
    pub depth: Option<u16>,
    pub msl: usize,
    pub mss: usize,
}

impl Cfg {
    pub fn text(&self) -> String {
        format!(
            "{}{} max_depth={} min_samples_leaf={} min_samples_split={}",
            self.model.comp(),
            match self.model {
                Model::Cls(c) => format!("[{}]", c.name()),
                Model::Reg => String::new(),
            },
            self.depth.map(|d| d.to_string()).unwrap_or_else(|| "None".into()),
            self.msl,
            self.mss
        )
    }
}

pub struct Data {
    pub x: Vec<Vec<f64>>,
    pub y: Vec<f64>,
    /// generator description for the structured families (empty for enumerated lattices)
    pub family: String,
}

impl Data {
    pub fn n(&self) -> usize {
        self.x.len()
    }
    pub fn p(&self) -> usize {
        self.x.first().map(|r| r.len()).unwrap_or(0)
    }
    pub fn text(&self) -> String {
        if self.n() * self.p() <= 48 {
            format!("x={:?} y={:?}", self.x, self.y)
        } else {
            format!("{} (n={} p={})", self.family, self.n(), self.p())
        }
    }
}

/// The input class used in site keys, decided from the training set alone.
#[derive(Clone, Copy, Debug)]
pub struct InputClass {
    pub name: &'static str,
    /// values within each feature pairwise distinct
    pub distinct: bool,
    /// some feature holds two values a < b whose floating-point midpoint (a+b)/2 is not in [a, b)
    pub midpoint_trouble: bool,
    /// the targets share a large common offset: all of one sign, min |y| >= 8 (max y - min y) > 0
    pub offset_targets: bool,
}

pub fn classify(d: &Data) -> InputClass {
    let (n, p) = (d.n(), d.p());
    let mut distinct = true;
    let mut trouble = false;
    let mut col: Vec<f64> = Vec::with_capacity(n);
    for j in 0..p {
        col.clear();
        col.extend(d.x.iter().map(|r| r[j]));
        col.sort_by(|a, b| a.partial_cmp(b).unwrap());
        for w in col.windows(2) {
            if w[0] == w[1] {
                distinct = false;
            } else {
                let mid = (w[0] + w[1]) / 2.0;
                if !(mid >= w[0] && mid < w[1]) {
                    trouble = true;
                }
            }
        }
    }
    let name = if trouble {
        "midpoint-rounds-to-upper-value"
    } else if distinct {
        "distinct-feature-values"
    } else {
        "tied-feature-values"
    };
    let (lo, hi) = d.y.iter().fold((f64::INFINITY, f64::NEG_INFINITY), |(a, b), v| (a.min(*v), b.max(*v)));
    let offset_targets = hi > lo && lo * hi > 0.0 && lo.abs().min(hi.abs()) >= 8.0 * (hi - lo);
    InputClass { name, distinct, midpoint_trouble: trouble, offset_targets }
}

#[derive(Clone, Copy, PartialEq, Eq, Debug)]
pub enum Conv {
    /// value <= threshold goes to the true child (what the library does)
    Le,
    /// value < threshold goes to the true child (equally "comparing a feature with a threshold")
    Lt,
}

fn go_true(v: f64, thr: f64, c: Conv) -> bool {
    match c {
        Conv::Le => v <= thr,
        Conv::Lt => v < thr,
    }
}

/// Checks that the node array is a proper binary tree rooted at node 0. Returns the depth (number
/// of splits above) of every node.
pub fn validate_structure(t: &MTree, p: usize) -> Result<Vec<usize>, String> {
    let m = t.nodes.len();
    if m == 0 {
        return Err("the model has no nodes".into());
    }
    let mut depth = vec![usize::MAX; m];
    depth[0] = 0;
    let mut stack = vec![0usize];
    let mut seen = 1;
    while let Some(i) = stack.pop() {
        let nd = &t.nodes[i];
        match (nd.t, nd.f) {
            (None, None) => {}
            (Some(a), Some(b)) => {
                let thr = nd.thr.ok_or_else(|| format!("internal node {} has no split_value", i))?;
                if thr.is_nan() {
                    return Err(format!("internal node {} has a NaN threshold", i));
                }
                if nd.feat >= p {
                    return Err(format!("internal node {} splits on feature {} of {}", i, nd.feat, p));
                }
                for c in [a, b] {
                    if c >= m {
                        return Err(format!("node {} has child index {} out of range", i, c));
                    }
                    if depth[c] != usize::MAX || a == b {
                        return Err(format!("node {} is reached twice", c));
                    }
                    depth[c] = depth[i] + 1;
                    seen += 1;
                    stack.push(c);
                }
            }
            _ => return Err(format!("node {} has exactly one child", i)),
        }
    }
    if seen != m {
        return Err(format!("{} of {} nodes are unreachable from the root", m - seen, m));
    }
    Ok(depth)
}

pub fn route(t: &MTree, row: &[f64], c: Conv) -> usize {
    let mut i = 0;
    loop {
        let nd = &t.nodes[i];
        match (nd.t, nd.f) {
            (Some(a), Some(b)) => i = if go_true(row[nd.feat], nd.thr.unwrap(), c) { a } else { b },
            _ => return i,
        }
    }
}

fn next_up(x: f64) -> f64 {
    if x.is_nan() || x == f64::INFINITY {
        return x;
    }
    if x == 0.0 {
        return f64::from_bits(1);
    }
    let b = x.to_bits();
    f64::from_bits(if x > 0.0 { b + 1 } else { b - 1 })
}

fn next_down(x: f64) -> f64 {
    -next_up(-x)
}

/// Query rows for the routing clause: the training rows themselves, then for every internal node
/// two of the training rows with the split feature replaced by the threshold, its predecessor and
/// its successor.
pub fn make_probes(t: &MTree, d: &Data) -> Vec<Vec<f64>> {
    let mut q = d.x.clone();
    let n = d.n();
    for nd in &t.nodes {
        if nd.is_leaf() {
            continue;
        }
        let thr = nd.thr.unwrap();
        for &r in &[0, n - 1] {
            for v in [thr, next_down(thr), next_up(thr)] {
                let mut row = d.x[r].clone();
                row[nd.feat] = v;
                q.push(row);
            }
            if n == 1 {
                break;
            }
        }
    }
    q
}

fn same_value(a: f64, b: f64) -> bool {
    a == b || (a.is_nan() && b.is_nan())
}

pub fn impurity(c: Crit, counts: &[usize], n: usize) -> f64 {
    if n == 0 {
        return 0.0;
    }
    let nf = n as f64;
    match c {
        Crit::Gini => 1.0 - counts.iter().map(|&k| (k as f64 / nf) * (k as f64 / nf)).sum::<f64>(),
        Crit::Entropy => -counts.iter().filter(|&&k| k > 0).map(|&k| (k as f64 / nf) * (k as f64 / nf).log2()).sum::<f64>(),
        Crit::ClsErr => 1.0 - counts.iter().copied().max().unwrap_or(0) as f64 / nf,
    }
}

fn sse_gain(st: f64, nt: usize, sf: f64, nf: usize) -> f64 {
    // reduction of the sum of squared errors = S_T^2/n_T + S_F^2/n_F - S^2/n
    if nt == 0 || nf == 0 {
        return 0.0;
    }
    let s = st + sf;
    st * st / nt as f64 + sf * sf / nf as f64 - s * s / (nt + nf) as f64
}

struct Best {
    gain: f64,
    feat: usize,
    lo: f64,
    hi: f64,
    /// number of admissible (feature, cut) pairs
    admissible: usize,
    /// number of admissible cuts whose gain is within the tolerance of the best
    ties: usize,
    /// some admissible cut is worse than the best by more than the tolerance (the choice matters)
    distinct_gains: bool,
}

/// Brute force over every feature and every cut between two consecutive distinct values that
/// leaves at least `msl` rows on both sides.
///
/// `yv` are the regression targets to compute the gains from, indexed like `d.y` (the judge passes
/// the targets of the node CENTRED, so that the gains keep their precision whatever common offset
/// the targets carry; a variance reduction does not change when a constant is subtracted).
fn best_split(d: &Data, rows: &[usize], msl: usize, model: Model, yi: &[usize], yv: &[f64], k: usize, tol: f64) -> Best {
    let m = rows.len();
    let mut best = Best { gain: f64::NEG_INFINITY, feat: 0, lo: 0.0, hi: 0.0, admissible: 0, ties: 0, distinct_gains: false };
    let mut gains: Vec<f64> = Vec::new();
    let mut ord: Vec<usize> = Vec::with_capacity(m);
    let mut tot = vec![0usize; k];
    let mut stot = 0.0;
    for &r in rows {
        if model.is_cls() {
            tot[yi[r]] += 1;
        } else {
            stot += yv[r];
        }
    }
    let parent_imp = match model {
        Model::Cls(c) => impurity(c, &tot, m),
        Model::Reg => 0.0,
    };
    for j in 0..d.p() {
        ord.clear();
        ord.extend_from_slice(rows);
        ord.sort_by(|a, b| d.x[*a][j].partial_cmp(&d.x[*b][j]).unwrap());
        let mut cnt = vec![0usize; k];
        let mut s = 0.0;
        for c in 1..m {
            let r = ord[c - 1];
            if model.is_cls() {
                cnt[yi[r]] += 1;
            } else {
                s += yv[r];
            }
            let (a, b) = (d.x[ord[c - 1]][j], d.x[ord[c]][j]);
            if a == b || c < msl || m - c < msl {
                continue;
            }
            let g = match model {
                Model::Reg => sse_gain(s, c, stot - s, m - c),
                Model::Cls(cr) => {
                    let fc: Vec<usize> = tot.iter().zip(&cnt).map(|(t, c)| t - c).collect();
                    parent_imp - (c as f64 / m as f64) * impurity(cr, &cnt, c) - ((m - c) as f64 / m as f64) * impurity(cr, &fc, m - c)
                }
            };
            best.admissible += 1;
            gains.push(g);
            if g > best.gain {
                best.gain = g;
                best.feat = j;
                best.lo = a;
                best.hi = b;
            }
        }
    }
    best.ties = gains.iter().filter(|g| **g >= best.gain - tol).count();
    best.distinct_gains = gains.iter().any(|g| *g < best.gain - tol);
    best
}

/// The targets of the given rows centred twice: first on the target of the first row (exact when
/// the targets lie within a factor two of each other, as they do under a large common offset),
/// then on the mean of these differences. Returned indexed like `d.y` (zero elsewhere), together
/// with the sum of squares of the centred values (the total squared error of the node).
fn centred_targets(d: &Data, rows: &[usize]) -> (Vec<f64>, f64) {
    let mut c = vec![0.0; d.n()];
    if rows.is_empty() {
        return (c, 0.0);
    }
    let r0 = d.y[rows[0]];
    let mu = rows.iter().map(|&r| d.y[r] - r0).sum::<f64>() / rows.len() as f64;
    let mut sst = 0.0;
    for &r in rows {
        c[r] = (d.y[r] - r0) - mu;
        sst += c[r] * c[r];
    }
    (c, sst)
}

pub struct Judged {
    pub max_path: usize,
    pub n_leaves: usize,
}

/// Judge one fitted tree. `predict` runs the library's `predict` on the given query rows.
pub fn judge(t: &MTree, d: &Data, cfg: &Cfg, ic: &InputClass, predict: &mut dyn FnMut(&[Vec<f64>]) -> Option<Vec<f64>>) -> Option<Judged> {
    let comp = cfg.model.comp();
    let n = d.n();
    let site = |clause: &str| format!("{}.{}:{}", comp, clause, ic.name);
    let ctx = || format!("{} on {}", cfg.text(), d.text());

    let depth = match validate_structure(t, d.p()) {
        Ok(dp) => dp,
        Err(e) => {
            mc::violation(site("structure"), format!("{}: node array is not a binary tree with single-feature thresholds: {}", ctx(), e));
            return None;
        }
    };

    // ---- routing: the tree's own node array, walked by comparing one feature with the threshold,
    // must reproduce predict() on the training rows and on rows placed at / next to every threshold
    let probes = make_probes(t, d);
    let preds = predict(&probes)?;
    if preds.len() != probes.len() {
        mc::violation(site("routing"), format!("{}: predict returned {} values for {} rows", ctx(), preds.len(), probes.len()));
        return None;
    }
    let mismatch = |c: Conv| -> Option<usize> { (0..probes.len()).find(|&i| !same_value(t.nodes[route(t, &probes[i], c)].out, preds[i])) };
    let mut conv = Conv::Le;
    if let Some(i) = mismatch(Conv::Le) {
        if mismatch(Conv::Lt).is_none() {
            conv = Conv::Lt;
            mc::count("routing_convention_lt");
        } else {
            let leaf = route(t, &probes[i], Conv::Le);
            mc::violation(
                site("routing"),
                format!(
                    "{}: predict({:?}) = {} but walking nodes[] by feature/threshold comparisons ends in leaf {} with output {}{}",
                    ctx(),
                    probes[i],
                    preds[i],
                    leaf,
                    t.nodes[leaf].out,
                    if i < n { format!(" (training row {})", i) } else { String::new() }
                ),
            );
        }
    }

    // ---- rows held by every node
    let m = t.nodes.len();
    let mut rows_at: Vec<Vec<usize>> = vec![Vec::new(); m];
    for r in 0..n {
        let mut i = 0;
        loop {
            rows_at[i].push(r);
            let nd = &t.nodes[i];
            match (nd.t, nd.f) {
                (Some(a), Some(b)) => i = if go_true(d.x[r][nd.feat], nd.thr.unwrap(), conv) { a } else { b },
                _ => break,
            }
        }
    }

    // classes by my own reckoning
    let mut labels: Vec<f64> = Vec::new();
    let mut yi: Vec<usize> = Vec::new();
    if cfg.model.is_cls() {
        labels = d.y.clone();
        labels.sort_by(|a, b| a.partial_cmp(b).unwrap());
        labels.dedup();
        yi = d.y.iter().map(|v| labels.iter().position(|l| l == v).unwrap()).collect();
    }
    let k = labels.len().max(1);
    if cfg.model.is_cls() {
        // label tables that are not small integers (extension, round 2)
        if labels.iter().any(|l| l.fract() != 0.0) {
            mc::count("cls_noninteger_labels");
            if labels[k - 1] - labels[0] == (k - 1) as f64 && labels.windows(2).any(|w| w[1] - w[0] != 1.0) {
                mc::count("cls_labels_span_k_minus_1_not_unit_spaced");
            }
            if labels.iter().all(|l| l.floor() == labels[0].floor()) {
                mc::count("cls_labels_same_integer_part");
            }
        }
        if labels[0].abs() >= 1e8 {
            mc::count("cls_labels_large");
        }
    }
    let ymax = d.y.iter().fold(1.0f64, |a, v| a.max(v.abs()));
    let mean_tol = 64.0 * n as f64 * f64::EPSILON * ymax;
    let cls_opt = cfg.model.is_cls() && cfg.msl == 1 && ic.distinct;
    let check_opt = !cfg.model.is_cls() || cls_opt;

    let mut max_path = 0;
    let mut n_leaves = 0;
    for i in 0..m {
        let nd = &t.nodes[i];
        let rows = &rows_at[i];
        let cnt = rows.len();
        if nd.is_leaf() {
            n_leaves += 1;
            max_path = max_path.max(depth[i]);
            // ---- leaf size
            if i != 0 && cnt < cfg.msl {
                mc::violation(site("leaf-size"), format!("{}: leaf {} holds {} training rows {:?} < min_samples_leaf", ctx(), i, cnt, rows));
            }
            if cfg.msl > 1 && cnt == cfg.msl {
                mc::count("leaf_at_msl_boundary");
            }
            // ---- path length
            if let Some(md) = cfg.depth {
                if depth[i] > md as usize {
                    mc::violation(site("depth"), format!("{}: leaf {} lies below {} splits > max_depth", ctx(), i, depth[i]));
                }
                if depth[i] == md as usize {
                    mc::count("leaf_at_max_depth");
                }
            }
            // ---- leaf value
            if cnt > 0 {
                match cfg.model {
                    Model::Cls(_) => {
                        let mut c = vec![0usize; k];
                        rows.iter().for_each(|&r| c[yi[r]] += 1);
                        let top = *c.iter().max().unwrap();
                        let ok = labels.iter().position(|l| *l == nd.out).map(|j| c[j] == top).unwrap_or(false);
                        if !ok {
                            mc::violation(
                                site("leaf-majority"),
                                format!(
                                    "{}: leaf {} predicts label {} (class index {}) but the training rows {:?} routed to it have label counts {:?} over {:?}",
                                    ctx(),
                                    i,
                                    nd.out,
                                    nd.out_idx,
                                    rows,
                                    c,
                                    labels
                                ),
                            );
                        }
                        if c.iter().filter(|v| **v == top).count() > 1 {
                            mc::count("leaf_majority_tie");
                        }
                        if c.iter().filter(|v| **v > 0).count() > 1 {
                            mc::count("impure_leaf");
                        }
                    }
                    Model::Reg => {
                        let mean = rows.iter().map(|&r| d.y[r]).sum::<f64>() / cnt as f64;
                        let err = (nd.out - mean).abs();
                        if !(err <= mean_tol) {
                            mc::violation(
                                site("leaf-mean"),
                                format!("{}: leaf {} predicts {} but the mean target of the training rows {:?} routed to it is {} (tolerance {:e})", ctx(), i, nd.out, rows, mean, mean_tol),
                            );
                        }
                        // calibration buckets (units of n*eps*max|y|)
                        let u = if ic.midpoint_trouble { 0.0 } else { err / (n as f64 * f64::EPSILON * ymax) };
                        if u > 4.0 {
                            mc::count("mean_err_gt_4neps");
                        } else if u > 1.0 {
                            mc::count("mean_err_gt_1neps");
                        } else if u > 0.0 {
                            mc::count("mean_err_gt_0");
                        }
                    }
                }
            }
            // ---- completeness (only without a depth limit)
            if cfg.depth.is_none() && cnt > cfg.mss && check_opt {
                let pure = cfg.model.is_cls() && rows.iter().all(|&r| yi[r] == yi[rows[0]]);
                if pure {
                    mc::count("pure_leaf_above_mss");
                } else {
                    let b = best_split(d, rows, cfg.msl, cfg.model, &yi, &d.y, k, 0.0);
                    if b.admissible > 0 {
                        mc::violation(
                            site("complete"),
                            format!(
                                "{}: node {} holds {} rows {:?} (> min_samples_split{}) and stays a leaf although feature {} can be cut between {} and {} leaving min_samples_leaf rows on both sides ({} admissible cuts)",
                                ctx(),
                                i,
                                cnt,
                                rows,
                                if cfg.model.is_cls() { ", impure" } else { "" },
                                b.feat,
                                b.lo,
                                b.hi,
                                b.admissible
                            ),
                        );
                    } else {
                        mc::count("leaf_without_admissible_cut");
                    }
                }
            }
            if nd.thr.is_some() {
                mc::count("leaf_with_pending_split");
            }
        } else {
            // ---- greedy optimality of the chosen threshold
            if !check_opt {
                continue;
            }
            let (a, b) = (nd.t.unwrap(), nd.f.unwrap());
            let (nt, nf) = (rows_at[a].len(), rows_at[b].len());
            // Regression: all gains (the realised one and the brute-force ones) are computed from
            // the node's CENTRED targets, so they are as precise for y = 10^6 + {0,1,3} as for
            // {0,1,3}. Tolerance: max(64 m eps SST, 1e-9 best gain), SST = sum of squares of the
            // centred targets (every gain lies in [0, SST]) - a few ulps of the node's spread or
            // the design's relative 1e-9 of the spread-based best gain - and never more than the
            // former 1e-9 (sum y^2 + 1), which is useless under an offset (5000 for 10^6 + ...).
            let yc: Vec<f64>;
            let mut uncentred_unit = 0.0;
            let mut tol_old = 1e-9;
            let (realised, tol) = match cfg.model {
                Model::Reg => {
                    let (c, sst) = centred_targets(d, rows);
                    let st: f64 = rows_at[a].iter().map(|&r| c[r]).sum();
                    let sf: f64 = rows_at[b].iter().map(|&r| c[r]).sum();
                    let sq: f64 = rows.iter().map(|&r| d.y[r] * d.y[r]).sum();
                    yc = c;
                    // What rounding alone can do to a comparison of two gains evaluated as
                    // n_T mean_T^2 + n_F mean_F^2 - n mean^2 in double precision: each term is at
                    // most sum y^2 and carries a relative error of at most (m + 4) eps / 2 (m
                    // additions, one division, three multiplications). Used for the site key only.
                    uncentred_unit = 2.0 * (cnt as f64 + 6.0) * f64::EPSILON * sq;
                    tol_old = 1e-9 * (sq + 1.0);
                    (sse_gain(st, nt, sf, nf), tol_old.min(64.0 * cnt as f64 * f64::EPSILON * sst))
                }
                Model::Cls(cr) => {
                    let mut ct = vec![0usize; k];
                    let mut cf = vec![0usize; k];
                    rows_at[a].iter().for_each(|&r| ct[yi[r]] += 1);
                    rows_at[b].iter().for_each(|&r| cf[yi[r]] += 1);
                    let tot: Vec<usize> = ct.iter().zip(&cf).map(|(x, y)| x + y).collect();
                    let g = impurity(cr, &tot, cnt) - (nt as f64 / cnt as f64) * impurity(cr, &ct, nt) - (nf as f64 / cnt as f64) * impurity(cr, &cf, nf);
                    yc = Vec::new();
                    (g, 1e-9)
                }
            };
            let best = best_split(d, rows, cfg.msl, cfg.model, &yi, &yc, k, tol);
            // ... and never less than the design's relative 1e-9, now relative to the best gain
            // itself (a spread-based quantity) instead of sum y^2
            let tol = if cfg.model.is_cls() { tol } else { tol.max(1e-9 * best.gain).min(tol_old) };
            if !cfg.model.is_cls() && ic.offset_targets {
                mc::count("reg_offset_opt_nodes");
                if best.distinct_gains {
                    // the choice matters: some admissible cut is strictly worse than the best
                    mc::count("reg_offset_choice_matters");
                    if cfg.depth == Some(1) {
                        mc::count("reg_offset_stump_choice_matters");
                    }
                }
            }
            if cfg.model.is_cls() {
                mc::count("cls_opt_nodes");
            } else {
                mc::count("reg_opt_nodes");
            }
            if best.ties > 1 {
                mc::count("gain_tie_nodes");
            }
            if best.admissible > 0 && !(realised >= best.gain - tol) {
                // A deficit that is smaller than one rounding of the uncentred sums of squares
                // (n * mean^2 terms of magnitude sum y^2) is a different thing from a wrong sweep:
                // it gets its own input class.
                let key = if !cfg.model.is_cls() && best.gain - realised <= uncentred_unit {
                    format!("{}.optimal-threshold:deficit-below-rounding-of-uncentred-squares", comp)
                } else {
                    site("optimal-threshold")
                };
                mc::violation(
                    key,
                    format!(
                        "{}: node {} (rows {:?}) splits feature {} at {} ({}|{} rows) reducing {} by {}, but cutting feature {} between {} and {} reduces it by {}{}",
                        ctx(),
                        i,
                        rows,
                        nd.feat,
                        nd.thr.unwrap(),
                        nt,
                        nf,
                        match cfg.model {
                            Model::Reg => "the squared error".to_string(),
                            Model::Cls(c) => c.name().to_string(),
                        },
                        realised,
                        best.feat,
                        best.lo,
                        best.hi,
                        best.gain,
                        if cfg.model.is_cls() { String::new() } else { format!(" (gains from centred targets, tolerance {:e})", tol) }
                    ),
                );
            } else if realised < best.gain {
                mc::count("opt_gain_deficit_within_tolerance");
            }
            if realised.abs() <= tol {
                mc::count("zero_gain_split");
            }
        }
    }

    // ---- limits disabled, distinct values: the training data are reproduced exactly
    if cls_opt && cfg.depth.is_none() && cfg.mss <= 1 {
        mc::count("reproduce_checked");
        if let Some(r) = (0..n).find(|&r| preds[r] != d.y[r]) {
            mc::violation(site("reproduce"), format!("{}: size limits disabled and feature values pairwise distinct, but training row {} (label {}) is predicted as {}", ctx(), r, d.y[r], preds[r]));
        }
    }
    Some(Judged { max_path, n_leaves })
}
