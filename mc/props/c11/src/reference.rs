//! Reference sufficient statistics, smoothed log-probabilities and MAP scores for the four naive
//! Bayes variants, written from the property statement (closed forms), sharing no code with /repo.

use mc_core::{self as mc, json, Value};

#[derive(Clone, Copy, PartialEq, Eq, Debug)]
pub enum V {
    G,
    M,
    B,
    C,
}

impl V {
    pub fn name(self) -> &'static str {
        match self {
            V::G => "gaussianNB",
            V::M => "multinomialNB",
            V::B => "bernoulliNB",
            V::C => "categoricalNB",
        }
    }
    pub fn code(self) -> &'static str {
        match self {
            V::G => "G",
            V::M => "M",
            V::B => "B",
            V::C => "C",
        }
    }
    pub fn from_code(s: &str) -> V {
        match s {
            "G" => V::G,
            "M" => V::M,
            "B" => V::B,
            "C" => V::C,
            _ => panic!("unknown variant {}", s),
        }
    }
}

/// One fully determined fitting problem plus the rows to predict.
pub struct Inst {
    pub v: V,
    pub x: Vec<Vec<f64>>,
    pub y: Vec<f64>,
    pub alpha: f64,
    /// user-supplied priors (by position in the model's class list), None = empirical
    pub priors: Option<Vec<f64>>,
    /// Bernoulli binarisation threshold
    pub bin: Option<f64>,
    pub queries: std::rc::Rc<Vec<Vec<f64>>>,
}

impl Inst {
    pub fn brief(&self) -> String {
        let n = self.x.len();
        let shown = n.min(10);
        let mut s = format!("{} x={:?}{} y={:?}", self.v.name(), &self.x[..shown], if n > shown { format!("..({} rows, see replay)", n) } else { String::new() }, &self.y[..shown.min(self.y.len())]);
        if self.v != V::G {
            s.push_str(&format!(" alpha={}", self.alpha));
        }
        if let Some(p) = &self.priors {
            s.push_str(&format!(" priors={:?}", p));
        }
        if self.v == V::B {
            s.push_str(&format!(" binarize={:?}", self.bin));
        }
        s
    }
    pub fn to_json(&self) -> Value {
        json!({"variant": self.v.name(), "x": self.x, "y": self.y, "alpha": self.alpha, "priors": self.priors, "binarize": self.bin, "query_rows": self.queries.len()})
    }
}

/// What the fitted model reported.
#[derive(Default)]
pub struct Obs {
    pub classes: Vec<f64>,
    pub class_count: Vec<usize>,
    pub priors: Option<Vec<f64>>,
    pub theta: Vec<Vec<f64>>,
    pub var: Vec<Vec<f64>>,
    pub n_features: Option<usize>,
    pub feature_count: Vec<Vec<usize>>,
    pub flp: Vec<Vec<f64>>,
    pub n_categories: Vec<usize>,
    pub cat_count: Vec<Vec<Vec<usize>>>,
    pub cat_lp: Vec<Vec<Vec<f64>>>,
}

pub enum Pred {
    Labels(Vec<f64>),
    Failed(String),
    Panicked(String),
}

impl Pred {
    pub fn to_json(&self) -> Value {
        match self {
            Pred::Labels(l) => json!(l),
            Pred::Failed(e) => json!({"error": e}),
            Pred::Panicked(e) => json!({"panic": e}),
        }
    }
}

impl Obs {
    pub fn to_json(&self) -> Value {
        json!({"classes": self.classes, "class_count": self.class_count, "class_priors": self.priors, "theta": self.theta, "var": self.var,
               "n_features": self.n_features, "feature_count": self.feature_count, "feature_log_prob": self.flp,
               "n_categories": self.n_categories, "category_count": self.cat_count, "category_log_prob": self.cat_lp})
    }
    pub fn digest(&self, pred: &Pred) -> u64 {
        use mc::hash::*;
        let mut h = h_f64s(&self.classes);
        h = mix(h, h_usizes(&self.class_count));
        if let Some(p) = &self.priors {
            h = mix(h, h_f64s_rounded(p, 12));
        }
        for r in self.theta.iter().chain(self.var.iter()).chain(self.flp.iter()) {
            h = mix(h, h_f64s_rounded(r, 12));
        }
        for r in &self.feature_count {
            h = mix(h, h_usizes(r));
        }
        h = mix(h, h_usizes(&self.n_categories));
        for f in &self.cat_count {
            for r in f {
                h = mix(h, h_usizes(r));
            }
        }
        for f in &self.cat_lp {
            for r in f {
                h = mix(h, h_f64s_rounded(r, 12));
            }
        }
        match pred {
            Pred::Labels(l) => mix(h, h_f64s(l)),
            Pred::Failed(_) => mix(h, 1),
            Pred::Panicked(_) => mix(h, 2),
        }
    }
}

// ------------------------------------------------------------------------------------------------

/// The reference view of the training set: class labels and the rows of every class.
struct Ref {
    labels: Vec<f64>,
    rows: Vec<Vec<usize>>,
    /// the features as the model is documented to see them (Bernoulli: binarised)
    xm: Vec<Vec<f64>>,
}

fn binarise(v: f64, thr: Option<f64>) -> f64 {
    match thr {
        Some(t) => {
            if v > t {
                1.0
            } else {
                0.0
            }
        }
        None => v,
    }
}

impl Ref {
    fn new(inst: &Inst) -> Ref {
        let labels: Vec<f64> = if inst.v == V::C {
            let mx = inst.y.iter().cloned().fold(0.0f64, f64::max) as usize;
            (0..=mx).map(|c| c as f64).collect()
        } else {
            let mut l = inst.y.clone();
            l.sort_by(|a, b| a.partial_cmp(b).unwrap());
            l.dedup();
            l
        };
        let rows = labels.iter().map(|l| (0..inst.y.len()).filter(|i| inst.y[*i] == *l).collect()).collect();
        let xm = if inst.v == V::B { inst.x.iter().map(|r| r.iter().map(|e| binarise(*e, inst.bin)).collect()).collect() } else { inst.x.clone() };
        Ref { labels, rows, xm }
    }

    fn label_class(&self, v: V) -> &'static str {
        if v == V::C {
            if self.rows.iter().any(|r| r.is_empty()) {
                "classes=some-empty"
            } else {
                "classes=all-populated"
            }
        } else if self.labels.windows(2).any(|w| w[0] as f32 == w[1] as f32) {
            // two distinct labels (the list is sorted and deduplicated) that coincide once rounded to f32
            "labels=adjacent-beyond-f32"
        } else if self.labels.iter().enumerate().all(|(i, l)| *l == i as f64) {
            "labels=0..k-1"
        } else if self.labels.iter().any(|l| *l < 0.0) {
            "labels=negative"
        } else {
            "labels=offset-or-gapped"
        }
    }

    /// Mean and population variance of feature j over the rows of reference class r (two-pass on
    /// data shifted by the first value, so that a large common offset costs no accuracy).
    fn moments(&self, r: usize, j: usize) -> (f64, f64) {
        let rows = &self.rows[r];
        let x0 = self.xm[rows[0]][j];
        let m = rows.len() as f64;
        let d: Vec<f64> = rows.iter().map(|&i| self.xm[i][j] - x0).collect();
        let md = d.iter().sum::<f64>() / m;
        let var = d.iter().map(|e| (e - md) * (e - md)).sum::<f64>() / m;
        (x0 + md, var)
    }

    /// Sum of feature j over the rows of class r (multinomial counts; Bernoulli number of ones).
    fn fsum(&self, r: usize, j: usize) -> f64 {
        self.rows[r].iter().map(|&i| self.xm[i][j]).sum()
    }

    fn n_categories(&self, j: usize) -> usize {
        self.xm.iter().map(|r| r[j] as usize).max().unwrap() + 1
    }

    fn cat_count(&self, r: usize, j: usize, c: usize) -> usize {
        self.rows[r].iter().filter(|&&i| self.xm[i][j] as usize == c).count()
    }
}

/// Tracks how much of the tolerance the unchanged library uses (calibration headroom).
struct Tol {
    worst: f64,
}

impl Tol {
    fn close(&mut self, rep: f64, exp: f64, tol: f64) -> bool {
        let e = (rep - exp).abs();
        if !(e <= tol) {
            return false;
        }
        if tol > 0.0 {
            self.worst = self.worst.max(e / tol);
        }
        true
    }
}

fn shape2<T>(m: &[Vec<T>], r: usize, c: usize) -> bool {
    m.len() == r && m.iter().all(|x| x.len() == c)
}

/// Checks the class list and returns the map model class index -> reference class index.
fn match_classes(v: &str, lc: &str, inst: &Inst, rf: &Ref, obs: &Obs) -> Option<Vec<usize>> {
    let k = rf.labels.len();
    let mut m2r: Vec<usize> = Vec::with_capacity(k);
    let mut bad = obs.classes.len() != k;
    for c in &obs.classes {
        match rf.labels.iter().position(|l| l == c) {
            Some(r) if !m2r.contains(&r) => m2r.push(r),
            _ => {
                bad = true;
                break;
            }
        }
    }
    if bad {
        mc::violation(format!("{}.classes:{}", v, lc), format!("{}: classes() = {:?}, the class labels of the training data are {:?}", inst.brief(), obs.classes, rf.labels));
        return None;
    }
    Some(m2r)
}

/// Variance tolerance of the tiny-spread family, relative to the reference (two-pass, spread-based)
/// variance. The unchanged library's one-pass formula loses about eps * (mean/sd)^2 relative accuracy,
/// i.e. <= 1e-5 for |mean|/sd <= 1.3e5 (the members outside the known cancellation region).
const SPREAD_REL_TOL: f64 = 1e-3;

/// The full oracle of the statement.
pub fn check(inst: &Inst, obs: &Obs, pred: &Pred) {
    check_with(inst, obs, pred, false)
}

/// The full oracle with the Gaussian variance judged relative to the SPREAD-based reference variance
/// (instead of 1e-11 * max|x|^2, which a tiny spread under a large offset would make vacuous).
pub fn check_spread(inst: &Inst, obs: &Obs, pred: &Pred) {
    check_with(inst, obs, pred, true)
}

fn check_with(inst: &Inst, obs: &Obs, pred: &Pred, spread: bool) {
    let v = inst.v.name();
    let n = inst.x.len();
    let p = inst.x[0].len();
    let rf = Ref::new(inst);
    let lc = rf.label_class(inst.v);
    let pc = if inst.priors.is_some() { "priors=user" } else { "priors=empirical" };
    let ac = if inst.alpha == 1.0 { "alpha=1" } else { "alpha!=1" };
    // a training entry that already looks binary (exactly 0.0 or 1.0) and that the documented rule
    // `x > threshold -> 1, else 0` nevertheless changes (1 -> 0 when threshold >= 1, 0 -> 1 when threshold < 0)
    let one_to_zero = inst.v == V::B && inst.bin.is_some() && inst.x.iter().any(|r| r.iter().any(|e| *e == 1.0 && binarise(*e, inst.bin) == 0.0));
    let zero_to_one = inst.v == V::B && inst.bin.is_some() && inst.x.iter().any(|r| r.iter().any(|e| *e == 0.0 && binarise(*e, inst.bin) == 1.0));
    let bc = match (inst.bin.is_some(), one_to_zero || zero_to_one) {
        (true, true) => "binarize=threshold-changes-exact-0/1-entries",
        (true, false) => "binarize=threshold",
        _ => "binarize=none",
    };
    let k = rf.labels.len();
    let mut tol = Tol { worst: 0.0 };
    // Gaussian: largest |class mean| / class sd over (class, feature)
    let mut max_ratio = 0.0f64;

    // ---- non-vacuity counters (decided from the input only)
    if lc != "labels=0..k-1" && inst.v != V::C {
        mc::count("labels_not_0_to_k-1");
    }
    if lc == "labels=negative" {
        mc::count("labels_negative");
    }
    if lc == "labels=adjacent-beyond-f32" {
        mc::count("labels_adjacent_beyond_f32_instances");
        if k >= 3 {
            mc::count("labels_adjacent_beyond_f32_k_ge_3");
        }
    }
    if lc == "classes=some-empty" {
        mc::count("categorical_empty_class");
    }
    if inst.priors.is_some() {
        mc::count("user_priors");
    }
    if inst.v != V::G && inst.alpha != 1.0 {
        mc::count("alpha_not_1");
    }
    if rf.rows.iter().any(|r| r.len() != rf.rows[0].len()) {
        mc::count("class_sizes_differ");
    }
    if let (V::B, Some(t)) = (inst.v, inst.bin) {
        mc::count("bernoulli_binarized");
        if inst.x.iter().any(|r| r.iter().any(|e| *e == t)) {
            mc::count("bernoulli_value_equals_threshold");
        }
        if one_to_zero {
            mc::count("bernoulli_exact_one_entry_binarised_to_zero");
        }
        if zero_to_one {
            mc::count("bernoulli_exact_zero_entry_binarised_to_one");
        }
        // one training row holding a binary-looking entry that the threshold keeps and one that it changes
        if inst.x.iter().any(|r| {
            let looks = |e: &&f64| **e == 0.0 || **e == 1.0;
            r.iter().filter(looks).any(|e| binarise(*e, inst.bin) == *e) && r.iter().filter(looks).any(|e| binarise(*e, inst.bin) != *e)
        }) {
            mc::count("bernoulli_mixed_row_keeps_and_changes_binary_looking_entries");
        }
        let b0 = binarise(inst.x[0][0], inst.bin);
        if inst.x.iter().all(|r| r.iter().all(|e| binarise(*e, inst.bin) == b0)) {
            mc::count("bernoulli_all_training_entries_binarise_alike");
        }
    }

    // ---- clause: class labels
    let Some(m2r) = match_classes(v, lc, inst, &rf, obs) else { return };

    // ---- clause: class counts
    if obs.class_count.len() != k || (0..k).any(|i| obs.class_count[i] != rf.rows[m2r[i]].len()) {
        let want: Vec<usize> = m2r.iter().map(|r| rf.rows[*r].len()).collect();
        mc::violation(format!("{}.class_count:{}", v, lc), format!("{}: class_count() = {:?} for classes {:?}, the data have {:?}", inst.brief(), obs.class_count, obs.classes, want));
    }

    // ---- clause: priors are the class frequencies (or the supplied priors) and sum to one
    let prior: Vec<f64> = (0..k)
        .map(|i| match &inst.priors {
            Some(u) => u[i],
            None => rf.rows[m2r[i]].len() as f64 / n as f64,
        })
        .collect();
    match &obs.priors {
        Some(rep) => {
            mc::count("priors_observed_via_serde");
            let ok = rep.len() == k && (0..k).all(|i| tol.close(rep[i], prior[i], 1e-12)) && tol.close(rep.iter().sum::<f64>(), 1.0, 1e-12);
            if !ok {
                mc::violation(format!("{}.class_priors:{}", v, pc), format!("{}: reported priors {:?} for classes {:?}, expected {:?} (sum {})", inst.brief(), rep, obs.classes, prior, rep.iter().sum::<f64>()));
            }
        }
        None => mc::count("priors_not_observable"),
    }

    // ---- clause: per-class feature statistics
    match inst.v {
        V::G => {
            let scale = inst.x.iter().flat_map(|r| r.iter()).fold(0.0f64, |m, e| m.max(e.abs()));
            if !shape2(&obs.theta, k, p) || !shape2(&obs.var, k, p) {
                mc::violation(format!("{}.theta:shape", v), format!("{}: theta/var are not n_classes x n_features", inst.brief()));
                return;
            }
            let (mut bad_t, mut bad_v) = (None, None);
            let (mut below, mut above) = (false, false);
            for i in 0..k {
                for j in 0..p {
                    let (mu, var) = rf.moments(m2r[i], j);
                    let ratio = mu.abs() / var.sqrt();
                    max_ratio = max_ratio.max(ratio);
                    if !tol.close(obs.theta[i][j], mu, 1e-12 * scale) && bad_t.is_none() {
                        bad_t = Some((i, j, mu));
                    }
                    let vtol = if spread { SPREAD_REL_TOL * var } else { 1e-11 * scale * scale };
                    if spread && ratio >= 1e7 {
                        // the region of the known one-pass-variance finding: judged like every other member,
                        // but the library's numbers must not feed the calibration counters
                        if !((obs.var[i][j] - var).abs() <= vtol) && bad_v.is_none() {
                            bad_v = Some((i, j, var, ratio));
                        }
                    } else if !tol.close(obs.var[i][j], var, vtol) && bad_v.is_none() {
                        bad_v = Some((i, j, var, ratio));
                    }
                    if spread && j == 0 {
                        if var < mu * mu * f64::EPSILON.sqrt() {
                            below = true;
                        } else {
                            above = true;
                        }
                    }
                }
            }
            if spread {
                if rf.rows.iter().any(|r| r.len() != rf.rows[0].len()) {
                    mc::count("tiny_spread_class_sizes_differ");
                }
                if below {
                    mc::count("tiny_spread_variance_below_mean2_sqrt_eps");
                }
                if below && above {
                    mc::count("tiny_spread_variance_on_both_sides_of_mean2_sqrt_eps");
                }
                if max_ratio >= 1e7 {
                    mc::count("tiny_spread_known_cancellation_region");
                }
            }
            if let Some((i, j, mu)) = bad_t {
                mc::violation(format!("{}.theta:{}", v, lc), format!("{}: theta[class {}][feature {}] = {}, the class mean is {}", inst.brief(), obs.classes[i], j, obs.theta[i][j], mu));
            }
            if let Some((i, j, var, ratio)) = bad_v {
                if spread && ratio >= 1e7 {
                    // same input class and same site key as the reduced oracle of the `goff` family (known finding)
                    mc::violation(
                        format!("{}.var:cancellation,|mean|/sd>=1e7", v),
                        format!("{}: var[class {}][feature {}] = {}, the class (population) variance is {} (off by more than {} relative)", inst.brief(), obs.classes[i], j, obs.var[i][j], var, SPREAD_REL_TOL),
                    );
                } else {
                    mc::violation(format!("{}.var:{}", v, lc), format!("{}: var[class {}][feature {}] = {}, the class (population) variance is {}", inst.brief(), obs.classes[i], j, obs.var[i][j], var));
                }
            }
        }
        V::M | V::B => {
            if obs.n_features != Some(p) {
                mc::violation(format!("{}.n_features:any", v), format!("{}: n_features() = {:?}, the data have {}", inst.brief(), obs.n_features, p));
            }
            if !shape2(&obs.feature_count, k, p) || !shape2(&obs.flp, k, p) {
                mc::violation(format!("{}.feature_count:shape", v), format!("{}: feature_count/feature_log_prob are not n_classes x n_features", inst.brief()));
                return;
            }
            let (mut bad_c, mut bad_l, mut bad_s) = (None, None, None);
            for i in 0..k {
                let r = m2r[i];
                let nc = rf.rows[r].len() as f64;
                let tot: f64 = (0..p).map(|j| rf.fsum(r, j)).sum();
                let mut s = 0.0;
                for j in 0..p {
                    let fc = rf.fsum(r, j);
                    if obs.feature_count[i][j] as f64 != fc && bad_c.is_none() {
                        bad_c = Some((i, j, fc));
                    }
                    let want = if inst.v == V::M { ((fc + inst.alpha) / (tot + inst.alpha * p as f64)).ln() } else { ((fc + inst.alpha) / (nc + 2.0 * inst.alpha)).ln() };
                    if !tol.close(obs.flp[i][j], want, 1e-12) && bad_l.is_none() {
                        bad_l = Some((i, j, want));
                    }
                    s += obs.flp[i][j].exp();
                }
                if inst.v == V::M && !tol.close(s, 1.0, 1e-12) && bad_s.is_none() {
                    bad_s = Some((i, s));
                }
            }
            if let Some((i, j, fc)) = bad_c {
                let key = if inst.v == V::B { format!("{}.feature_count:{}+{}", v, lc, bc) } else { format!("{}.feature_count:{}", v, lc) };
                mc::violation(key, format!("{}: feature_count[class {}][feature {}] = {}, the data give {}", inst.brief(), obs.classes[i], j, obs.feature_count[i][j], fc));
            }
            if let Some((i, j, want)) = bad_l {
                mc::violation(format!("{}.feature_log_prob:{}", v, ac), format!("{}: feature_log_prob[class {}][feature {}] = {}, the smoothed relative frequency gives {}", inst.brief(), obs.classes[i], j, obs.flp[i][j], want));
            }
            if let Some((i, s)) = bad_s {
                mc::violation(format!("{}.feature_log_prob:not-normalised", v), format!("{}: the feature probabilities of class {} sum to {}", inst.brief(), obs.classes[i], s));
            }
        }
        V::C => {
            if obs.n_features != Some(p) {
                mc::violation(format!("{}.n_features:any", v), format!("{}: n_features() = {:?}, the data have {}", inst.brief(), obs.n_features, p));
            }
            let ncat: Vec<usize> = (0..p).map(|j| rf.n_categories(j)).collect();
            if obs.n_categories != ncat {
                mc::violation(format!("{}.n_categories:any", v), format!("{}: n_categories() = {:?}, the data have {:?}", inst.brief(), obs.n_categories, ncat));
            }
            let shape_ok = obs.cat_count.len() == p && obs.cat_lp.len() == p && (0..p).all(|j| shape2(&obs.cat_count[j], k, ncat[j]) && shape2(&obs.cat_lp[j], k, ncat[j]));
            if !shape_ok {
                mc::violation(format!("{}.category_count:shape", v), format!("{}: category_count/feature_log_prob are not n_features x n_classes x n_categories", inst.brief()));
                return;
            }
            let (mut bad_c, mut bad_l, mut bad_s) = (None, None, None);
            for j in 0..p {
                for i in 0..k {
                    let r = m2r[i];
                    let nc = rf.rows[r].len() as f64;
                    let mut s = 0.0;
                    for c in 0..ncat[j] {
                        let cc = rf.cat_count(r, j, c);
                        if obs.cat_count[j][i][c] != cc && bad_c.is_none() {
                            bad_c = Some((j, i, c, cc));
                        }
                        let want = ((cc as f64 + inst.alpha) / (nc + inst.alpha * ncat[j] as f64)).ln();
                        if !tol.close(obs.cat_lp[j][i][c], want, 1e-12) && bad_l.is_none() {
                            bad_l = Some((j, i, c, want));
                        }
                        s += obs.cat_lp[j][i][c].exp();
                    }
                    if !tol.close(s, 1.0, 1e-12) && bad_s.is_none() {
                        bad_s = Some((j, i, s));
                    }
                }
            }
            if let Some((j, i, c, cc)) = bad_c {
                mc::violation(format!("{}.category_count:{}", v, lc), format!("{}: category_count[feature {}][class {}][category {}] = {}, the data give {}", inst.brief(), j, obs.classes[i], c, obs.cat_count[j][i][c], cc));
            }
            if let Some((j, i, c, want)) = bad_l {
                mc::violation(format!("{}.feature_log_prob:{}", v, ac), format!("{}: feature_log_prob[feature {}][class {}][category {}] = {}, the smoothed relative frequency gives {}", inst.brief(), j, obs.classes[i], c, obs.cat_lp[j][i][c], want));
            }
            if let Some((j, i, s)) = bad_s {
                mc::violation(format!("{}.feature_log_prob:not-normalised", v), format!("{}: the category probabilities of feature {} in class {} sum to {}", inst.brief(), j, obs.classes[i], s));
            }
        }
    }
    if tol.worst > 0.01 {
        mc::count("tolerance_used_over_1pct");
    }
    if tol.worst > 0.1 {
        mc::count("tolerance_used_over_10pct");
    }

    // ---- clause: the predicted label is a MAP class of the scores computed "from those statistics".
    // When a reported statistic is wrong the reference scores are not the scores of the reported
    // statistics any more, so the prediction is not judged in that execution.
    if mc::n_violations() > 0 {
        mc::count("predict_not_judged_after_statistics_violation");
        // informational (tiny-spread family): is the wrong statistic also visible through the predictions?
        if let (true, Pred::Labels(l)) = (spread, pred) {
            if l.len() == inst.queries.len() {
                let scorer = Scorer::new(inst, &rf, &m2r, &prior);
                let mut off = 0u64;
                for (qi, q) in inst.queries.iter().enumerate() {
                    if !(0..p).all(|j| inst.x.iter().any(|r| r[j] == q[j])) {
                        continue;
                    }
                    let sc: Vec<f64> = (0..k).map(|i| scorer.score(i, q)).collect();
                    let best = sc.iter().cloned().fold(f64::NEG_INFINITY, f64::max);
                    let ok = match obs.classes.iter().position(|c| *c == l[qi]) {
                        Some(i) => sc[i] >= best - 1e-10 * best.abs().max(1.0),
                        None => false,
                    };
                    if !ok {
                        off += 1;
                    }
                }
                if off > 0 {
                    mc::count_n("tiny_spread_predictions_off_reference_map_after_statistics_violation", off);
                }
            }
        }
        return;
    }
    let mut pkey = format!("{}.predict:{}+{}", v, lc, pc);
    if inst.v == V::B {
        pkey.push('+');
        pkey.push_str(bc);
    }
    let labels = match pred {
        Pred::Labels(l) => l,
        Pred::Failed(e) => {
            mc::violation(format!("{}.predict:error", v), format!("{}: predict returned an error: {}", inst.brief(), e));
            return;
        }
        Pred::Panicked(e) => {
            let key = if spread && max_ratio >= 1e7 { format!("{}.predict:panic,|mean|/sd>=1e7", v) } else { format!("{}.predict:panic+{}", v, lc) };
            mc::violation(key, format!("{}: predict panicked on the query lattice: {}", inst.brief(), e));
            return;
        }
    };
    if labels.len() != inst.queries.len() {
        mc::violation(format!("{}.predict:length", v), format!("{}: {} labels for {} rows", inst.brief(), labels.len(), inst.queries.len()));
        return;
    }
    let scorer = Scorer::new(inst, &rf, &m2r, &prior);
    let largest_prior = (0..k).fold(0, |b, i| if prior[i] > prior[b] { i } else { b });
    let mut first_bad: Option<String> = None;
    let mut distinct_pred: Option<f64> = None;
    let mut varies = false;
    let (mut c_judged, mut c_outside, mut c_tie, mut c_notprior, mut c_unseen, mut c_unseen_diff) = (0u64, 0u64, 0u64, 0u64, 0u64, 0u64);
    let mut sc = vec![0.0; k];
    for (qi, q) in inst.queries.iter().enumerate() {
        let seen = (0..p).all(|j| inst.x.iter().any(|r| r[j] == q[j]));
        for i in 0..k {
            sc[i] = scorer.score(i, q);
        }
        let best = sc.iter().cloned().fold(f64::NEG_INFINITY, f64::max);
        let t = 1e-10 * best.abs().max(1.0);
        let pick = obs.classes.iter().position(|c| *c == labels[qi]);
        let ok = match pick {
            Some(i) => sc[i] >= best - t,
            None => false,
        };
        if seen {
            c_judged += 1;
            if !inst.x.iter().any(|r| r == q) {
                c_outside += 1;
            }
            if sc.iter().filter(|s| **s >= best - t).count() > 1 {
                c_tie += 1;
            }
            if let Some(i) = pick {
                if i != largest_prior {
                    c_notprior += 1;
                }
            }
            match distinct_pred {
                None => distinct_pred = Some(labels[qi]),
                Some(d) if d != labels[qi] => varies = true,
                _ => {}
            }
            if !ok && first_bad.is_none() {
                first_bad = Some(format!(
                    "{}: predict({:?}) = {}, but the MAP scores (log prior + sum of log-likelihoods) of classes {:?} are {:?}",
                    inst.brief(),
                    q,
                    labels[qi],
                    obs.classes,
                    sc
                ));
            }
        } else {
            c_unseen += 1;
            if !ok {
                c_unseen_diff += 1;
            }
        }
    }
    for (name, c) in [
        ("queries_judged", c_judged),
        ("queries_judged_outside_training_set", c_outside),
        ("map_tie_accepted", c_tie),
        ("prediction_not_the_largest_prior_class", c_notprior),
        ("queries_with_unseen_value_not_judged", c_unseen),
        ("unseen_value_query_differs_from_reference_map", c_unseen_diff),
    ] {
        if c > 0 {
            mc::count_n(name, c);
        }
    }
    if varies {
        mc::count("predictions_vary_within_execution");
    }
    if let Some(w) = first_bad {
        mc::violation(pkey, w);
    }
}

/// Reference MAP scores from the reference statistics.
struct Scorer<'a> {
    inst: &'a Inst,
    lnprior: Vec<f64>,
    /// G: (mean, var) per class, feature; M/B: log-prob (and for B log(1-prob)) per class, feature
    a: Vec<Vec<(f64, f64)>>,
    /// C: log-prob per class, feature, category
    c: Vec<Vec<Vec<f64>>>,
}

impl<'a> Scorer<'a> {
    fn new(inst: &'a Inst, rf: &Ref, m2r: &[usize], prior: &[f64]) -> Scorer<'a> {
        let k = m2r.len();
        let p = inst.x[0].len();
        let lnprior = prior.iter().map(|x| x.ln()).collect();
        let mut a = Vec::new();
        let mut c = Vec::new();
        for i in 0..k {
            let r = m2r[i];
            let nc = rf.rows[r].len() as f64;
            match inst.v {
                V::G => a.push((0..p).map(|j| if rf.rows[r].is_empty() { (0.0, 0.0) } else { rf.moments(r, j) }).collect()),
                V::M => {
                    let tot: f64 = (0..p).map(|j| rf.fsum(r, j)).sum();
                    a.push((0..p).map(|j| (((rf.fsum(r, j) + inst.alpha) / (tot + inst.alpha * p as f64)).ln(), 0.0)).collect());
                }
                V::B => a.push(
                    (0..p)
                        .map(|j| {
                            let fc = rf.fsum(r, j);
                            (((fc + inst.alpha) / (nc + 2.0 * inst.alpha)).ln(), ((nc - fc + inst.alpha) / (nc + 2.0 * inst.alpha)).ln())
                        })
                        .collect(),
                ),
                V::C => c.push(
                    (0..p)
                        .map(|j| {
                            let m = rf.n_categories(j);
                            (0..m).map(|cat| ((rf.cat_count(r, j, cat) as f64 + inst.alpha) / (nc + inst.alpha * m as f64)).ln()).collect()
                        })
                        .collect(),
                ),
            }
        }
        Scorer { inst, lnprior, a, c }
    }

    fn score(&self, i: usize, q: &[f64]) -> f64 {
        let mut s = self.lnprior[i];
        for (j, qv) in q.iter().enumerate() {
            s += match self.inst.v {
                V::G => {
                    let (mu, var) = self.a[i][j];
                    -0.5 * (2.0 * std::f64::consts::PI * var).ln() - (qv - mu) * (qv - mu) / (2.0 * var)
                }
                V::M => qv * self.a[i][j].0,
                V::B => {
                    if binarise(*qv, self.inst.bin) == 1.0 {
                        self.a[i][j].0
                    } else {
                        self.a[i][j].1
                    }
                }
                V::C => self.c[i][j][*qv as usize],
            };
        }
        s
    }
}

/// The reduced oracle of the large-offset Gaussian family: only blatant failures are reported (a
/// variance that is not positive or off by more than a factor two, a mean off by more than 1e-9
/// relative, a panic, or a predicted class that loses by more than one nat).
pub fn check_catastrophic(inst: &Inst, obs: &Obs, pred: &Pred) {
    let v = inst.v.name();
    let p = inst.x[0].len();
    let rf = Ref::new(inst);
    let lc = rf.label_class(inst.v);
    let k = rf.labels.len();
    let Some(m2r) = match_classes(v, lc, inst, &rf, obs) else { return };
    if !shape2(&obs.theta, k, p) || !shape2(&obs.var, k, p) {
        mc::violation(format!("{}.theta:shape", v), format!("{}: theta/var are not n_classes x n_features", inst.brief()));
        return;
    }
    let scale = inst.x.iter().flat_map(|r| r.iter()).fold(0.0f64, |m, e| m.max(e.abs()));
    let mut ratio = 0.0f64;
    let mut bad_v = None;
    for i in 0..k {
        for j in 0..p {
            let (mu, var) = rf.moments(m2r[i], j);
            ratio = ratio.max(mu.abs() / var.sqrt());
            if !((obs.theta[i][j] - mu).abs() <= 1e-9 * scale) {
                mc::violation(format!("{}.theta:large-offset", v), format!("{}: theta[class {}][{}] = {}, the class mean is {}", inst.brief(), obs.classes[i], j, obs.theta[i][j], mu));
            }
            let rep = obs.var[i][j];
            if !(rep > 0.5 * var && rep < 2.0 * var) && bad_v.is_none() {
                bad_v = Some((i, j, var));
            }
        }
    }
    let rc = if ratio >= 1e7 {
        "|mean|/sd>=1e7"
    } else if ratio >= 1e5 {
        "1e5<=|mean|/sd<1e7"
    } else {
        "|mean|/sd<1e5"
    };
    mc::count(match rc {
        "|mean|/sd>=1e7" => "offset_ratio_ge_1e7",
        "1e5<=|mean|/sd<1e7" => "offset_ratio_1e5_1e7",
        _ => "offset_ratio_lt_1e5",
    });
    if let Some((i, j, var)) = bad_v {
        mc::violation(
            format!("{}.var:cancellation,{}", v, rc),
            format!("{}: var[class {}][feature {}] = {}, the class (population) variance is {} (not positive or off by more than a factor 2)", inst.brief(), obs.classes[i], j, obs.var[i][j], var),
        );
    }
    let labels = match pred {
        Pred::Labels(l) if l.len() == inst.queries.len() => l,
        Pred::Labels(l) => {
            mc::violation(format!("{}.predict:length", v), format!("{}: {} labels for {} rows", inst.brief(), l.len(), inst.queries.len()));
            return;
        }
        Pred::Failed(e) => {
            mc::violation(format!("{}.predict:error", v), format!("{}: predict returned an error: {}", inst.brief(), e));
            return;
        }
        Pred::Panicked(e) => {
            mc::violation(format!("{}.predict:panic,{}", v, rc), format!("{}: predict panicked on the training rows: {}", inst.brief(), e));
            return;
        }
    };
    let n = inst.x.len();
    let prior: Vec<f64> = (0..k).map(|i| rf.rows[m2r[i]].len() as f64 / n as f64).collect();
    let scorer = Scorer::new(inst, &rf, &m2r, &prior);
    for (qi, q) in inst.queries.iter().enumerate() {
        let sc: Vec<f64> = (0..k).map(|i| scorer.score(i, q)).collect();
        let best = sc.iter().cloned().fold(f64::NEG_INFINITY, f64::max);
        mc::count("queries_judged");
        let ok = match obs.classes.iter().position(|c| *c == labels[qi]) {
            Some(i) => sc[i] >= best - 1.0,
            None => false,
        };
        if !ok {
            mc::violation(
                format!("{}.predict:wrong-class,{}", v, rc),
                format!("{}: predict({:?}) = {}, but the MAP scores of classes {:?} are {:?} (loses by more than 1 nat)", inst.brief(), q, labels[qi], obs.classes, sc),
            );
            break;
        }
    }
}
