//! C11 — naive Bayes stores the data's sufficient statistics and predicts the MAP class.
//!
//! E1 over (variant, training set, labelling, label values, alpha, user priors, binarisation): every
//! training set over a small sharp alphabet with every labelling is fitted with the real library,
//! every reported statistic is compared with closed-form reference statistics, and every row of the
//! query lattice is predicted and compared with the reference MAP set. Three job kinds:
//!
//! * `lat`  — the exhaustive lattice (DESIGN §4 C11),
//! * `fam`  — deterministic structured families up to 120 rows / 8 features / 5 classes (every member),
//! * `goff` — the Gaussian lattice translated by large offsets (numerical robustness of the moments).
//!
//! Extension (round 2): two more Bernoulli data kinds on the lattice and in the families — {0,1} data
//! against thresholds {1, 1.5, -0.5, -1} and the mixed alphabet {0, 1, 0.5, 2, -1} against thresholds
//! {0, 0.5, 1, -0.5}: entries that already look binary must still be compared with the threshold.

//!
//! Extension (round 7): (1) label maps of LARGE ADJACENT integers ({300000001, 300000002, ..}, {2^24,
//! 2^24+1, ..}, {-300000002, -300000001, 7, ..}: distinct as f64 / i64, equal as f32) on the Gaussian,
//! multinomial and Bernoulli lattices and families (jobs tagged `L`); (2) job kind `gtiny`: Gaussian
//! features with a large offset and a tiny spread (5000.1 .. 5000.9, classes of different sizes) under
//! the FULL oracle with the variance tolerance relative to the spread-based reference variance.

mod reference;

use mc_core::{self as mc, json, Harness, Job, Plan, Tier, Value};
use mc_sc::dm;
use reference::{check, Inst, Obs, Pred, V};
use smartcore::error::Failed;
use smartcore::linalg::naive::dense_matrix::DenseMatrix;
use smartcore::naive_bayes::bernoulli::{BernoulliNB, BernoulliNBParameters};
use smartcore::naive_bayes::categorical::{CategoricalNB, CategoricalNBParameters};
use smartcore::naive_bayes::gaussian::{GaussianNB, GaussianNBParameters};
use smartcore::naive_bayes::multinomial::{MultinomialNB, MultinomialNBParameters};
use std::cell::RefCell;
use std::collections::BTreeMap;
use std::rc::Rc;

struct C11;

type DM = DenseMatrix<f64>;

// ------------------------------------------------------------------------------------------------
// alphabets (seed 0 = the plain alphabets of DESIGN §4 C11; seeds 1..7 select other complete spaces)

const G_BASE: [f64; 4] = [-1.0, 0.0, 2.0, 5.0];
/// Gaussian "tight, well-separated clusters" alphabet (flag `real` on a Gaussian job): class spreads
/// of 1/8 at a separation of 8, i.e. query rows whose columns come from different classes lie tens
/// of standard deviations from a class mean.
const G_TIGHT: [f64; 4] = [0.0, 0.125, 8.0, 8.125];
const G_XFORM: [(f64, f64); 8] = [(1.0, 0.0), (1.0, 0.25), (3.0, 0.0), (0.5, -0.5), (1024.0, 0.0), (1.0 / 1024.0, 0.0), (1.0, 7.0), (-1.0, 0.5)];
const M_ALPH: [[f64; 4]; 8] = [
    [0.0, 1.0, 2.0, 3.0],
    [0.0, 1.0, 2.0, 4.0],
    [0.0, 1.0, 3.0, 5.0],
    [0.0, 2.0, 3.0, 7.0],
    [0.0, 1.0, 4.0, 6.0],
    [0.0, 3.0, 5.0, 8.0],
    [0.0, 1.0, 2.0, 9.0],
    [0.0, 2.0, 4.0, 5.0],
];
const B_REAL: [f64; 4] = [-0.5, 0.2, 0.7, 1.5];
const B_REAL_THR: [f64; 4] = [0.0, 0.5, 0.7, -0.7];
const B_SHIFT: [f64; 8] = [0.0, 0.25, -1.0, 3.0, 0.125, -0.375, 10.0, -7.5];
/// Extension (round 2), data kind 2: {0,1} data against thresholds that do NOT reproduce the data
/// (>= 1: every entry becomes 0; negative: every entry becomes 1).
const B_EXT_THR: [f64; 4] = [1.0, 1.5, -0.5, -1.0];
/// Extension (round 2), data kind 3: exact 0.0 / 1.0 entries mixed with other reals ...
const B_MIX: [f64; 5] = [0.0, 1.0, 0.5, 2.0, -1.0];
/// ... against thresholds of which two are data values that look binary (0.0, 1.0).
const B_MIX_THR: [f64; 4] = [0.0, 0.5, 1.0, -0.5];
const C_ALPH: [f64; 3] = [0.0, 1.0, 2.0];
const ALPHAS: [[f64; 3]; 8] = [
    [1.0, 0.01, 5.0],
    [1.0, 0.05, 2.0],
    [1.0, 0.5, 3.0],
    [1.0, 0.02, 4.5],
    [1.0, 0.1, 1.5],
    [1.0, 0.25, 4.0],
    [1.0, 0.03, 2.5],
    [1.0, 0.75, 5.0],
];

/// Data kind `dk`: 0 = the variant's plain alphabet, 1 = "real" (Gaussian: tight clusters; Bernoulli:
/// thresholded reals without exact 0/1), 2 = Bernoulli {0,1} data with the thresholds `B_EXT_THR`,
/// 3 = Bernoulli mixed alphabet `B_MIX` with the thresholds `B_MIX_THR` (2 and 3 do not depend on the seed:
/// their point is the exact values 0.0 and 1.0).
fn alphabet(v: V, dk: usize, seed: u64, asz: usize) -> Vec<f64> {
    let s = (seed % 8) as usize;
    let real = dk == 1;
    let a: Vec<f64> = match v {
        V::B if dk == 3 => B_MIX.to_vec(),
        V::G if real => G_TIGHT.iter().map(|x| x * G_XFORM[s].0 + G_XFORM[s].1).collect(),
        V::G => G_BASE.iter().map(|x| x * G_XFORM[s].0 + G_XFORM[s].1).collect(),
        V::M => M_ALPH[s].to_vec(),
        V::B if real => B_REAL.iter().map(|x| x + B_SHIFT[s]).collect(),
        V::B => vec![0.0, 1.0],
        V::C => C_ALPH.to_vec(),
    };
    a[..asz.min(a.len())].to_vec()
}

/// Binarisation setting for a Bernoulli configuration index.
fn binarize(dk: usize, seed: u64, idx: usize) -> Option<f64> {
    match dk {
        1 => Some(B_REAL_THR[idx] + B_SHIFT[(seed % 8) as usize]),
        2 => Some(B_EXT_THR[idx]),
        3 => Some(B_MIX_THR[idx]),
        _ => [None, Some(0.0), Some(0.5)][idx],
    }
}

const TWO40: f64 = 1099511627776.0;
const TWO52: f64 = 4503599627370496.0;

/// Label values of the k classes (ascending), by label-map index. Index 0 is 0..k-1.
fn label_map(k: usize, idx: usize) -> Vec<f64> {
    let t: Vec<f64> = match (k, idx) {
        (_, 0) => (0..k).map(|c| c as f64).collect(),
        // round-7 extension: labels that are large AND close (distinct as f64 / i64, indistinguishable
        // as f32: the f32 spacing is 32 at 3e8 and 2 at 2^24); prefix of length k
        (_, 4) => vec![300000001.0, 300000002.0, 300000005.0, 300000006.0, 300000009.0],
        (_, 5) => vec![16777216.0, 16777217.0, 16777218.0, 16777219.0, 16777220.0],
        (_, 6) => vec![-300000002.0, -300000001.0, 7.0, 300000001.0, 300000002.0],
        (2, 1) => vec![-3.0, 7.0],
        (2, 2) => vec![2.0, 3.0],
        (2, 3) => vec![-1.0, 1.0],
        (3, 1) => vec![-3.0, 7.0, 10.0],
        (3, 2) => vec![1.0, 2.0, 4.0],
        (3, 3) => vec![-TWO40, 5.0, TWO52],
        (_, 1) => vec![-7.0, -3.0, 2.0, 10.0, 11.0],
        (_, 2) => vec![3.0, 4.0, 5.0, 6.0, 7.0],
        _ => vec![-TWO40, -1.0, 0.0, 2147483649.0, TWO52],
    };
    t[..k].to_vec()
}

/// Label values used by the categorical families (index 1 leaves classes 0,3,5,6 empty).
fn cat_label_map(k: usize, idx: usize) -> Vec<f64> {
    let t: [f64; 5] = if idx == 0 { [0.0, 1.0, 2.0, 3.0, 4.0] } else { [1.0, 2.0, 4.0, 7.0, 8.0] };
    t[..k].to_vec()
}

/// User-supplied priors (exact binary fractions summing to one), by index 1 or 2; index 0 = none.
fn user_priors(k: usize, idx: usize) -> Option<Vec<f64>> {
    let v: &[f64] = match (k, idx) {
        (_, 0) => return None,
        (2, 1) => &[0.75, 0.25],
        (2, _) => &[0.125, 0.875],
        (3, 1) => &[0.5, 0.125, 0.375],
        (3, _) => &[0.0625, 0.6875, 0.25],
        (4, 1) => &[0.125, 0.5, 0.25, 0.125],
        (4, _) => &[0.4375, 0.0625, 0.0625, 0.4375],
        (5, 1) => &[0.0625, 0.25, 0.125, 0.5, 0.0625],
        (5, _) => &[0.3125, 0.0625, 0.25, 0.0625, 0.3125],
        _ => panic!("no user priors for k={}", k),
    };
    Some(v.to_vec())
}

// ------------------------------------------------------------------------------------------------
// configurations: [label map, alpha, priors, binarisation] indices

type Cfg = [usize; 4];

fn cfg_dims(v: V, dk: usize) -> [usize; 4] {
    match v {
        V::G => [4, 1, 3, 1],
        V::M => [4, 3, 3, 1],
        V::B => [4, 3, 3, [3, B_REAL_THR.len(), B_EXT_THR.len(), B_MIX_THR.len()][dk]],
        V::C => [1, 3, 1, 1],
    }
}

/// `part` = 1: the full cross product; 3: the tuples whose index sum is ≡ 0 (mod 3) — every pair of
/// values of two three-valued dimensions still occurs; 0: a three-element diagonal (data kinds 2 and
/// 3: a four-element diagonal, so that each of the four thresholds occurs).
fn cfg_set(v: V, dk: usize, part: usize) -> Vec<Cfg> {
    let d = cfg_dims(v, dk);
    let mut out = Vec::new();
    if part == 0 {
        for i in 0..(if dk >= 2 { 4 } else { 3 }) {
            out.push([(i * 3 + 1) % d[0], i % d[1], (i + 1) % d[2], (i + 2) % d[3]]);
        }
        out.dedup();
        return out;
    }
    for a in 0..d[0] {
        for b in 0..d[1] {
            for c in 0..d[2] {
                for e in 0..d[3] {
                    if part == 1 || (a + b + c + e) % 3 == 0 {
                        out.push([a, b, c, e]);
                    }
                }
            }
        }
    }
    out
}

/// First index of the round-7 label maps (large adjacent integers) and their number.
const LM_NEW: usize = 4;
const LM_NEW_N: usize = 3;

/// Configuration sets of the round-7 jobs: the label-map dimension ranges over the three NEW tables
/// (indices 4, 5, 6) only; the other dimensions as in `cfg_set`. `part` = 1: full cross product;
/// 3: index sum ≡ 0 (mod 3); 0: a diagonal on which every new label map occurs (3 tuples; data kinds
/// 2 and 3: 4 tuples, so that every threshold occurs as well).
fn cfg_set_l(v: V, dk: usize, part: usize) -> Vec<Cfg> {
    let d = cfg_dims(v, dk);
    let mut out = Vec::new();
    if part == 0 {
        for i in 0..(if dk >= 2 { 4 } else { 3 }) {
            out.push([LM_NEW + i % LM_NEW_N, i % d[1], (i + 1) % d[2], (i + 2) % d[3]]);
        }
        return out;
    }
    for a in 0..LM_NEW_N {
        for b in 0..d[1] {
            for c in 0..d[2] {
                for e in 0..d[3] {
                    if part == 1 || (a + b + c + e) % 3 == 0 {
                        out.push([LM_NEW + a, b, c, e]);
                    }
                }
            }
        }
    }
    out
}

// ------------------------------------------------------------------------------------------------
// labellings

thread_local! {
    static LABS: RefCell<BTreeMap<(u8, usize, usize), Rc<Vec<Vec<u8>>>>> = RefCell::new(BTreeMap::new());
}

/// Every labelling of n rows, lexicographic (simplest first).
/// G/M/B: onto exactly k classes (class indices 0..k-1; Gaussian: every class has >= 2 rows, a
/// one-row class has zero variance and is outside "valid training set").
/// C: label VALUES in 0..k with at least two distinct values; values that do not occur below the
/// maximum are empty classes.
fn labellings(v: V, n: usize, k: usize) -> Rc<Vec<Vec<u8>>> {
    let key = (v as u8, n, k);
    if let Some(l) = LABS.with(|c| c.borrow().get(&key).cloned()) {
        return l;
    }
    let base = k;
    let mut out = Vec::new();
    let mut cur = vec![0u8; n];
    loop {
        let mut cnt = vec![0usize; base];
        cur.iter().for_each(|c| cnt[*c as usize] += 1);
        let ok = match v {
            V::C => cnt.iter().filter(|c| **c > 0).count() >= 2,
            V::G => cnt.iter().all(|c| *c >= 2),
            _ => cnt.iter().all(|c| *c >= 1),
        };
        if ok {
            out.push(cur.clone());
        }
        let mut i = n;
        loop {
            if i == 0 {
                let r = Rc::new(out);
                LABS.with(|c| c.borrow_mut().insert(key, r.clone()));
                return r;
            }
            i -= 1;
            cur[i] += 1;
            if (cur[i] as usize) < base {
                break;
            }
            cur[i] = 0;
        }
    }
}

// ------------------------------------------------------------------------------------------------
// the library under test

fn fitted<T>(v: V, r: Result<Result<T, Failed>, mc::PanicInfo>, inst: &Inst) -> Option<T> {
    match r {
        Ok(Ok(m)) => Some(m),
        Ok(Err(e)) => {
            mc::violation(format!("{}.fit:error", v.name()), format!("{}: fit returned an error on a valid training set: {}", inst.brief(), e));
            None
        }
        Err(p) => {
            let sfx = if p.is_overflow_check() { ":overflow-check" } else { "" };
            mc::violation(format!("{}.fit:panic{}", v.name(), sfx), format!("{}: fit panicked: {}", inst.brief(), p.brief()));
            None
        }
    }
}

fn to_pred(r: Result<Result<Vec<f64>, Failed>, mc::PanicInfo>) -> Pred {
    match r {
        Ok(Ok(l)) => Pred::Labels(l),
        Ok(Err(e)) => Pred::Failed(e.to_string()),
        Err(p) => Pred::Panicked(p.brief()),
    }
}

/// The priors are not exposed by an accessor for three of the four variants; the serialised model
/// reports them.
fn serde_priors<S: serde::Serialize>(m: &S) -> Option<Vec<f64>> {
    // the text form is scanned for the one field wanted (cheaper than building a Value tree)
    let s = serde_json::to_string(m).ok()?;
    let key = "\"class_priors\":[";
    let at = s.find(key)? + key.len();
    let end = at + s[at..].find(']')?;
    if s[at..end].trim().is_empty() {
        return Some(Vec::new());
    }
    s[at..end].split(',').map(|t| t.trim().parse::<f64>().ok()).collect()
}

fn observed(v: V, r: Result<Obs, mc::PanicInfo>, inst: &Inst) -> Option<Obs> {
    match r {
        Ok(o) => Some(o),
        Err(p) => {
            mc::violation(format!("{}.accessors:panic", v.name()), format!("{}: reading the fitted statistics panicked: {}", inst.brief(), p.brief()));
            None
        }
    }
}

fn run_library(inst: &Inst) -> Option<(Obs, Pred)> {
    let x: DM = dm(&inst.x);
    let q: DM = dm(&inst.queries);
    let v = inst.v;
    match v {
        V::G => {
            let r = mc::guard(|| {
                let mut par = GaussianNBParameters::default();
                if let Some(p) = &inst.priors {
                    par = par.with_priors(p.clone());
                }
                GaussianNB::fit(&x, &inst.y, par)
            });
            let m = fitted(v, r, inst)?;
            let o = mc::guard(|| Obs {
                classes: m.classes().clone(),
                class_count: m.class_count().clone(),
                priors: Some(m.class_priors().clone()),
                theta: m.theta().clone(),
                var: m.var().clone(),
                ..Default::default()
            });
            let o = observed(v, o, inst)?;
            Some((o, to_pred(mc::guard(|| m.predict(&q)))))
        }
        V::M => {
            let r = mc::guard(|| {
                let mut par = MultinomialNBParameters::default().with_alpha(inst.alpha);
                if let Some(p) = &inst.priors {
                    par = par.with_priors(p.clone());
                }
                MultinomialNB::fit(&x, &inst.y, par)
            });
            let m = fitted(v, r, inst)?;
            let o = mc::guard(|| Obs {
                classes: m.classes().clone(),
                class_count: m.class_count().clone(),
                priors: serde_priors(&m),
                n_features: Some(m.n_features()),
                feature_count: m.feature_count().clone(),
                flp: m.feature_log_prob().clone(),
                ..Default::default()
            });
            let o = observed(v, o, inst)?;
            Some((o, to_pred(mc::guard(|| m.predict(&q)))))
        }
        V::B => {
            let r = mc::guard(|| {
                let mut par = BernoulliNBParameters::default().with_alpha(inst.alpha);
                par.binarize = inst.bin;
                if let Some(p) = &inst.priors {
                    par = par.with_priors(p.clone());
                }
                BernoulliNB::fit(&x, &inst.y, par)
            });
            let m = fitted(v, r, inst)?;
            let o = mc::guard(|| Obs {
                classes: m.classes().clone(),
                class_count: m.class_count().clone(),
                priors: serde_priors(&m),
                n_features: Some(m.n_features()),
                feature_count: m.feature_count().clone(),
                flp: m.feature_log_prob().clone(),
                ..Default::default()
            });
            let o = observed(v, o, inst)?;
            Some((o, to_pred(mc::guard(|| m.predict(&q)))))
        }
        V::C => {
            let r = mc::guard(|| CategoricalNB::fit(&x, &inst.y, CategoricalNBParameters::default().with_alpha(inst.alpha)));
            let m = fitted(v, r, inst)?;
            let o = mc::guard(|| Obs {
                classes: m.classes().clone(),
                class_count: m.class_count().clone(),
                priors: serde_priors(&m),
                n_features: Some(m.n_features()),
                n_categories: m.n_categories().clone(),
                cat_count: m.category_count().clone(),
                cat_lp: m.feature_log_prob().clone(),
                ..Default::default()
            });
            let o = observed(v, o, inst)?;
            Some((o, to_pred(mc::guard(|| m.predict(&q)))))
        }
    }
}

/// One execution: fit, read back, predict the query rows, judge.
fn execute(inst: &Inst, catastrophic_only: bool) {
    let Some((obs, pred)) = run_library(inst) else {
        mc::describe(|| json!({"instance": inst.to_json(), "fit": "failed"}));
        return;
    };
    mc::count(match inst.v {
        V::G => "fit_gaussian",
        V::M => "fit_multinomial",
        V::B => "fit_bernoulli",
        V::C => "fit_categorical",
    });
    if catastrophic_only {
        reference::check_catastrophic(inst, &obs, &pred);
    } else {
        check(inst, &obs, &pred);
    }
    mc::nontrivial();
    mc::outcome(obs.digest(&pred));
    mc::describe(|| json!({"instance": inst.to_json(), "observed": obs.to_json(), "predicted": pred.to_json()}));
}

// ------------------------------------------------------------------------------------------------
// job kind "lat": the exhaustive lattice

/// The data kind of a job: new jobs carry `dk`, the jobs that existed before the extension carry the
/// flag `real` only (their parameters are unchanged).
fn data_kind(job: &Job) -> usize {
    match job.params.get("dk").and_then(|d| d.as_u64()) {
        Some(d) => d as usize,
        None => job.b("real") as usize,
    }
}

/// Non-vacuity of the round-2 extension (Bernoulli data kinds 2 and 3).
fn count_extension(v: V, dk: usize) {
    if v == V::B && dk == 2 {
        mc::count("bernoulli_01_data_extended_threshold_instances");
    }
    if v == V::B && dk == 3 {
        mc::count("bernoulli_mixed_alphabet_instances");
    }
}

fn cfg_of(job: &Job) -> Cfg {
    let cfgs = job.params["cfgs"].as_array().expect("cfgs");
    let c = &cfgs[mc::choose(cfgs.len())];
    let g = |i: usize| c[i].as_u64().unwrap() as usize;
    [g(0), g(1), g(2), g(3)]
}

fn lattice(alph: &[Vec<f64>]) -> Vec<Vec<f64>> {
    let mut out: Vec<Vec<f64>> = vec![vec![]];
    for a in alph {
        let mut nx = Vec::with_capacity(out.len() * a.len());
        for r in &out {
            for v in a {
                let mut r2 = r.clone();
                r2.push(*v);
                nx.push(r2);
            }
        }
        out = nx;
    }
    out
}

fn run_lattice(job: &Job) {
    let v = V::from_code(job.s("v"));
    let (n, p, k, asz) = (job.u("n"), job.u("p"), job.u("k"), job.u("asz"));
    let dk = data_kind(job);
    let seed = job.params["seed"].as_u64().unwrap_or(0);
    let cfg = cfg_of(job);
    let labs = labellings(v, n, k);
    let (lo, hi) = (job.u("lab_lo"), job.u("lab_hi"));
    let lab = &labs[lo + mc::choose(hi - lo)];
    let alph = alphabet(v, dk, seed, asz);
    let mut x = vec![vec![0.0; p]; n];
    if v == V::G {
        // drawn per (feature, class) group so that a class with zero variance in a feature — not a
        // valid Gaussian training set — prunes the whole subtree at once
        for j in 0..p {
            for c in 0..k {
                let rows: Vec<usize> = (0..n).filter(|i| lab[*i] as usize == c).collect();
                for &i in &rows {
                    x[i][j] = mc::pick(&alph);
                }
                if rows.iter().all(|&i| x[i][j] == x[rows[0]][j]) {
                    mc::count("gaussian_zero_variance_subtrees_excluded");
                    return;
                }
            }
        }
    } else {
        for row in x.iter_mut() {
            for e in row.iter_mut() {
                *e = mc::pick(&alph);
            }
        }
    }
    let (y, kk): (Vec<f64>, usize) = if v == V::C {
        (lab.iter().map(|c| *c as f64).collect(), 0)
    } else {
        let lm = label_map(k, cfg[0]);
        (lab.iter().map(|c| lm[*c as usize]).collect(), k)
    };
    let queries: Rc<Vec<Vec<f64>>> = if v == V::C {
        // every in-range category code of every feature
        let per: Vec<Vec<f64>> = (0..p)
            .map(|j| {
                let mx = x.iter().map(|r| r[j] as usize).max().unwrap();
                (0..=mx).map(|c| c as f64).collect()
            })
            .collect();
        Rc::new(lattice(&per))
    } else {
        return run_with_cached_queries(v, dk, seed, asz, p, &alph, x, y, kk, cfg);
    };
    let inst = Inst { v, x, y, alpha: ALPHAS[(seed % 8) as usize][cfg[1]], priors: None, bin: None, queries };
    execute(&inst, false);
}

thread_local! {
    static QUERIES: RefCell<BTreeMap<(u8, usize, u64, usize, usize), Rc<Vec<Vec<f64>>>>> = RefCell::new(BTreeMap::new());
}

/// G/M/B: the query rows are the full alphabet^p lattice, independent of the training set.
#[allow(clippy::too_many_arguments)]
fn run_with_cached_queries(v: V, dk: usize, seed: u64, asz: usize, p: usize, alph: &[f64], x: Vec<Vec<f64>>, y: Vec<f64>, k: usize, cfg: Cfg) {
    let key = (v as u8, dk, seed, asz, p);
    let queries = match QUERIES.with(|c| c.borrow().get(&key).cloned()) {
        Some(q) => q,
        None => {
            let q = Rc::new(lattice(&vec![alph.to_vec(); p]));
            QUERIES.with(|c| c.borrow_mut().insert(key, q.clone()));
            q
        }
    };
    let inst = Inst {
        v,
        x,
        y,
        alpha: ALPHAS[(seed % 8) as usize][cfg[1]],
        priors: user_priors(k, cfg[2]),
        bin: if v == V::B { binarize(dk, seed, cfg[3]) } else { None },
        queries,
    };
    count_extension(v, dk);
    execute(&inst, false);
}

// ------------------------------------------------------------------------------------------------
// job kind "fam": structured families beyond the lattice (every member is enumerated)

const FAM_N: [usize; 6] = [6, 10, 15, 30, 60, 120];
const FAM_P: [usize; 4] = [1, 3, 5, 8];
const FAM_K: [usize; 4] = [2, 3, 4, 5];

/// Class sizes: every class gets `m0` rows, the rest is split 2^(k-1-c) : ... (skewed) or evenly.
fn fam_sizes(n: usize, k: usize, m0: usize, skewed: bool) -> Option<Vec<usize>> {
    if n < k * m0 {
        return None;
    }
    let r = n - k * m0;
    let mut s = vec![m0; k];
    let tot: usize = if skewed { (1 << k) - 1 } else { k };
    let mut used = 0;
    for c in 0..k {
        let w = if skewed { 1 << (k - 1 - c) } else { 1 };
        let add = r * w / tot;
        s[c] += add;
        used += add;
    }
    s[0] += r - used;
    Some(s)
}

fn run_family(job: &Job) {
    let v = V::from_code(job.s("v"));
    let n = job.u("n");
    let dk = data_kind(job);
    let seed = job.params["seed"].as_u64().unwrap_or(0);
    let p = mc::pick(&FAM_P);
    let k = mc::pick(&FAM_K);
    let skew = mc::choose(3); // 0 balanced+interleaved, 1 skewed blocks, 2 skewed scattered (rarest class first)
    let g = mc::choose(2);
    let cfg = cfg_of(job);
    let m0 = if v == V::G { 2 } else { 1 };
    let Some(sizes) = fam_sizes(n, k, m0, skew != 0) else {
        mc::count("family_member_too_small");
        return;
    };
    // class index of every row
    let mut cls: Vec<usize> = Vec::with_capacity(n);
    match skew {
        0 => {
            let mut left = sizes.clone();
            let mut c = 0;
            while cls.len() < n {
                if left[c % k] > 0 {
                    left[c % k] -= 1;
                    cls.push(c % k);
                }
                c += 1;
            }
        }
        1 => {
            for (c, s) in sizes.iter().enumerate() {
                cls.extend(std::iter::repeat(c).take(*s));
            }
        }
        _ => {
            // blocks in reverse class order, then a fixed stride permutation of the rows
            let mut blocks: Vec<usize> = Vec::new();
            for (c, s) in sizes.iter().enumerate().rev() {
                blocks.extend(std::iter::repeat(c).take(*s));
            }
            let stride = [7usize, 11, 13, 17].into_iter().find(|s| gcd(*s, n) == 1).unwrap_or(1);
            cls = (0..n).map(|i| blocks[(i * stride + 3) % n]).collect();
        }
    }
    let alph = alphabet(v, dk, seed, if dk == 3 { B_MIX.len() } else { 4 });
    let a = alph.len();
    let x: Vec<Vec<f64>> = (0..n).map(|i| (0..p).map(|j| alph[(i * (2 * j + 1) + cls[i] * (j + 1 + g) + (i / 3) * g + j) % a]).collect()).collect();
    if v == V::G {
        for c in 0..k {
            for j in 0..p {
                let col: Vec<f64> = (0..n).filter(|i| cls[*i] == c).map(|i| x[i][j]).collect();
                if col.iter().all(|e| *e == col[0]) {
                    mc::count("family_member_zero_variance_excluded");
                    return;
                }
            }
        }
    }
    let lm = if v == V::C { cat_label_map(k, cfg[0] % 2) } else { label_map(k, cfg[0]) };
    let y: Vec<f64> = cls.iter().map(|c| lm[*c]).collect();
    // queries: every training row, and as many rows assembled from different training rows
    let mut queries = x.clone();
    for i in 0..n {
        queries.push((0..p).map(|j| x[(i + j + 1 + g) % n][j]).collect());
    }
    let inst = Inst {
        v,
        x,
        y,
        alpha: ALPHAS[(seed % 8) as usize][cfg[1]],
        priors: if v == V::C { None } else { user_priors(k, cfg[2]) },
        bin: if v == V::B { binarize(dk, seed, cfg[3]) } else { None },
        queries: Rc::new(queries),
    };
    count_extension(v, dk);
    if v != V::C && cfg[0] >= LM_NEW {
        mc::count("labels_adjacent_beyond_f32_family_members");
    }
    mc::count("family_members");
    execute(&inst, false);
}

fn gcd(a: usize, b: usize) -> usize {
    if b == 0 {
        a
    } else {
        gcd(b, a % b)
    }
}

// ------------------------------------------------------------------------------------------------
// job kind "goff": the Gaussian lattice translated by a large offset

const GOFF: [f64; 5] = [1e3, 1e6, 1e8, 1e10, -1e8];

fn run_goff(job: &Job) {
    let (n, k) = (job.u("n"), job.u("k"));
    let off = GOFF[job.u("off")];
    let labs = labellings(V::G, n, k);
    let lab = &labs[mc::choose(labs.len())];
    let mut x = vec![vec![0.0; 1]; n];
    for c in 0..k {
        let rows: Vec<usize> = (0..n).filter(|i| lab[*i] as usize == c).collect();
        for &i in &rows {
            x[i][0] = mc::pick(&G_BASE) + off;
        }
        if rows.iter().all(|&i| x[i][0] == x[rows[0]][0]) {
            mc::count("gaussian_zero_variance_subtrees_excluded");
            return;
        }
    }
    let lm = label_map(k, 0);
    let y: Vec<f64> = lab.iter().map(|c| lm[*c as usize]).collect();
    let queries = Rc::new(x.clone());
    let inst = Inst { v: V::G, x, y, alpha: 1.0, priors: None, bin: None, queries };
    mc::count("offset_instances");
    execute(&inst, true);
}

// ------------------------------------------------------------------------------------------------
// job kind "gtiny" (round 7): Gaussian features with a large offset and a tiny spread, FULL oracle

/// Offsets of the tiny-spread family. At 5000 every class has sd/|mean| between 8e-6 and 8e-5 (so
/// var < mean^2 * sqrt(eps) throughout), at 2000 both sides of that threshold occur, 1e8 lies in the
/// region of the known one-pass-variance finding (|mean|/sd >= 1e7).
const TINY_OFF: [f64; 4] = [5000.0, -5000.0, 2000.0, 1e8];
/// Fractional parts added to the offset (prefix of size `asz`): per-class data such as 5000.1 .. 5000.9.
const TINY_FRAC: [f64; 5] = [0.1, 0.2, 0.5, 0.9, 0.6];
/// Alphabet of the optional second, ordinary feature (p = 2): its variance is nowhere near mean^2 * sqrt(eps).
const TINY_COL2: [f64; 2] = [-1.0, 2.0];

fn run_tiny(job: &Job) {
    let (n, p, k, asz) = (job.u("n"), job.u("p"), job.u("k"), job.u("asz"));
    let off = TINY_OFF[job.u("off")];
    let labs = labellings(V::G, n, k);
    let (lo, hi) = (job.u("lab_lo"), job.u("lab_hi"));
    let lab = &labs[lo + mc::choose(hi - lo)];
    let alph: Vec<Vec<f64>> = (0..p).map(|j| if j == 0 { TINY_FRAC[..asz].iter().map(|f| off + f).collect() } else { TINY_COL2.to_vec() }).collect();
    let mut x = vec![vec![0.0; p]; n];
    for j in 0..p {
        for c in 0..k {
            let rows: Vec<usize> = (0..n).filter(|i| lab[*i] as usize == c).collect();
            for &i in &rows {
                x[i][j] = mc::pick(&alph[j]);
            }
            if rows.iter().all(|&i| x[i][j] == x[rows[0]][j]) {
                mc::count("gaussian_zero_variance_subtrees_excluded");
                return;
            }
        }
    }
    let lm = label_map(k, 0);
    let y: Vec<f64> = lab.iter().map(|c| lm[*c as usize]).collect();
    let key = (200 + job.u("off") as u8, 0usize, 0u64, asz, p);
    let queries = match QUERIES.with(|c| c.borrow().get(&key).cloned()) {
        Some(q) => q,
        None => {
            let q = Rc::new(lattice(&alph));
            QUERIES.with(|c| c.borrow_mut().insert(key, q.clone()));
            q
        }
    };
    let inst = Inst { v: V::G, x, y, alpha: 1.0, priors: None, bin: None, queries };
    mc::count("tiny_spread_instances");
    let Some((obs, pred)) = run_library(&inst) else {
        mc::describe(|| json!({"instance": inst.to_json(), "fit": "failed"}));
        return;
    };
    mc::count("fit_gaussian");
    reference::check_spread(&inst, &obs, &pred);
    mc::nontrivial();
    mc::outcome(obs.digest(&pred));
    mc::describe(|| json!({"instance": inst.to_json(), "observed": obs.to_json(), "predicted": pred.to_json()}));
}

// ------------------------------------------------------------------------------------------------
// job kind "pri": decimal user priors (round 5)

/// every composition of `total` into `k` positive parts, in lexicographic order
fn compositions(total: usize, k: usize) -> Vec<Vec<usize>> {
    if k == 1 {
        return vec![vec![total]];
    }
    let mut out = Vec::new();
    for first in 1..=(total - (k - 1)) {
        for mut rest in compositions(total - first, k - 1) {
            let mut v = vec![first];
            v.append(&mut rest);
            out.push(v);
        }
    }
    out
}

/// User priors given in tenths (every ordered k-vector of positive tenths summing to 10/10, k = 2..5):
/// these are the priors users actually write; their floating-point sum is 1 or 1 +- 1 ulp depending on
/// the order. Such priors are valid: the fit must succeed and report them.
fn run_pri(job: &Job) {
    let k = job.u("k");
    let comps = compositions(10, k);
    let c = &comps[mc::choose(comps.len())];
    let priors: Vec<f64> = c.iter().map(|t| *t as f64 / 10.0).collect();
    let v = [V::G, V::M, V::B][mc::choose(3)];
    let lm = label_map(k, mc::choose(2));
    let n = 2 * k;
    let y: Vec<f64> = (0..n).map(|i| lm[i / 2]).collect();
    let x: Vec<Vec<f64>> = match v {
        V::B => (0..n).map(|i| vec![(i % 2) as f64, ((i / 2) % 2) as f64]).collect(),
        _ => (0..n).map(|i| vec![(i % 3) as f64, ((i * 2) % 5) as f64]).collect(),
    };
    let queries = Rc::new(x.clone());
    let s: f64 = priors.iter().sum();
    if s != 1.0 {
        mc::count("decimal_priors_fp_sum_not_exactly_one");
    }
    let inst = Inst { v, x, y, alpha: 1.0, priors: Some(priors), bin: if v == V::B { Some(0.5) } else { None }, queries };
    mc::count("decimal_priors_instances");
    execute(&inst, false);
}

/// User priors containing an exact 0.0 on tight, far-apart Gaussian clusters: a query at the centre
/// of the zero-prior class is tens of standard deviations from every class with a positive prior
/// (log-likelihoods below -709, where exp underflows), yet the zero-prior class can never be the MAP
/// class (its score is -inf).
fn run_pri0(job: &Job) {
    let k = job.u("k");
    let z = mc::choose(k);
    let sep = [100.0, 1000.0][mc::choose(2)];
    let rest = 1.0 / (k - 1) as f64;
    let priors: Vec<f64> = (0..k).map(|c| if c == z { 0.0 } else { rest }).collect();
    let lm = label_map(k, mc::choose(2));
    let y: Vec<f64> = (0..2 * k).map(|i| lm[i / 2]).collect();
    let x: Vec<Vec<f64>> = (0..2 * k).map(|i| vec![sep * (i / 2) as f64 + if i % 2 == 0 { -1.0 } else { 1.0 }]).collect();
    let mut q = x.clone();
    for c in 0..k {
        q.push(vec![sep * c as f64]);
        q.push(vec![sep * c as f64 + 0.25]);
    }
    let inst = Inst { v: V::G, x, y, alpha: 1.0, priors: Some(priors), bin: None, queries: Rc::new(q) };
    mc::count("zero_prior_far_cluster_instances");
    execute(&inst, false);
}

// ------------------------------------------------------------------------------------------------
// plan

/// Job-name suffix of the data kind (x = {0,1} data, extended thresholds; m = mixed alphabet).
const DK_TAG: [&str; 4] = ["", "r", "x", "m"];

struct Planner {
    jobs: Vec<(u64, Job)>,
    seed: u64,
    chunk: u64,
    leaves: u64,
}

impl Planner {
    /// Lattice space (variant, data kind, n rows, p features, k classes, alphabet size, config set).
    fn lat(&mut self, v: V, dk: usize, n: usize, p: usize, k: usize, asz: usize, part: usize) {
        self.lat_impl(v, dk, n, p, k, asz, part, false)
    }

    /// The same lattice space under the round-7 label maps (job names carry the tag `L`).
    fn lat_l(&mut self, v: V, dk: usize, n: usize, p: usize, k: usize, asz: usize, part: usize) {
        self.lat_impl(v, dk, n, p, k, asz, part, true)
    }

    #[allow(clippy::too_many_arguments)]
    fn lat_impl(&mut self, v: V, dk: usize, n: usize, p: usize, k: usize, asz: usize, part: usize, new_lm: bool) {
        let nlab = labellings(v, n, k).len();
        if nlab == 0 {
            return;
        }
        let a = alphabet(v, dk, self.seed, asz).len() as u64;
        let per_lab = a.pow((n * p) as u32);
        let cfgs = if new_lm { cfg_set_l(v, dk, part) } else { cfg_set(v, dk, part) };
        let total = per_lab * nlab as u64 * cfgs.len() as u64;
        self.leaves += total;
        let base = |cf: &[Cfg], lo: usize, hi: usize| -> Value {
            let mut j = json!({"kind": "lat", "v": v.code(), "real": dk == 1, "n": n, "p": p, "k": k, "asz": asz, "seed": self.seed,
                   "cfgs": cf.iter().map(|c| c.to_vec()).collect::<Vec<_>>(), "lab_lo": lo, "lab_hi": hi});
            if dk >= 2 {
                j["dk"] = json!(dk);
            }
            j
        };
        let tag = format!("{}{}{}-n{}-p{}-k{}-a{}", v.code(), DK_TAG[dk], if new_lm { "L" } else { "" }, n, p, k, asz);
        let order = ((n * p) as u64) << 40 | (k as u64) << 32;
        if total <= self.chunk {
            self.jobs.push((order | total.min(u32::MAX as u64), Job::new(format!("lat-{}-cfg*{}", tag, cfgs.len()), base(&cfgs, 0, nlab))));
            return;
        }
        let labs_per_job = ((self.chunk / per_lab.max(1)).max(1) as usize).min(nlab);
        for c in &cfgs {
            let mut lo = 0;
            while lo < nlab {
                let hi = (lo + labs_per_job).min(nlab);
                let name = format!("lat-{}-cfg{}.{}.{}.{}-lab{}..{}", tag, c[0], c[1], c[2], c[3], lo, hi);
                self.jobs.push((order | (per_lab * (hi - lo) as u64).min(u32::MAX as u64), Job::new(name, base(&[*c], lo, hi))));
                lo = hi;
            }
        }
    }
}

impl Harness for C11 {
    fn id(&self) -> &'static str {
        "C11"
    }

    fn plan(&self, tier: Tier, seed: u64) -> Plan {
        let t = tier.is_thorough();
        let mut pl = Planner { jobs: Vec::new(), seed, chunk: if t { 6_000_000 } else { 400_000 }, leaves: 0 };
        // (variant, real-valued Bernoulli data, n, p, k, alphabet size, configuration set) — see NOTES.md.
        // configuration set: 1 = full cross product, 3 = pairwise-covering third, 0 = 3-element diagonal
        // ---- Gaussian: k=2 needs n>=4, k=3 needs n>=6 (every class >= 2 rows with non-zero variance)
        let g: &[(usize, usize, usize, usize, usize)] = if t {
            &[(4, 1, 2, 4, 1), (4, 2, 2, 4, 1), (5, 1, 2, 4, 1), (6, 1, 2, 4, 1), (6, 1, 3, 4, 1), (4, 3, 2, 3, 1), (5, 2, 2, 3, 1), (6, 2, 3, 2, 1),
              (7, 1, 2, 4, 1), (7, 1, 3, 4, 3), (5, 2, 2, 4, 3), (6, 2, 2, 3, 0), (6, 2, 3, 3, 1), (8, 1, 4, 3, 3)]
        } else {
            &[(4, 1, 2, 4, 1), (4, 2, 2, 4, 3), (5, 1, 2, 4, 1), (6, 1, 2, 4, 3), (6, 1, 3, 4, 3), (4, 3, 2, 2, 1), (5, 2, 2, 3, 0), (6, 2, 3, 2, 1)]
        };
        for &(n, p, k, a, part) in g {
            pl.lat(V::G, 0, n, p, k, a, part);
        }
        // tight, well-separated clusters: mixed query rows are tens of standard deviations from a class mean
        for &(n, p, k, a, part) in if t { &[(4usize, 1usize, 2usize, 4usize, 1usize), (4, 2, 2, 4, 1), (5, 2, 2, 4, 3), (6, 1, 3, 4, 3)][..] } else { &[(4, 1, 2, 4, 1), (4, 2, 2, 4, 3)][..] } {
            pl.lat(V::G, 1, n, p, k, a, part);
        }
        // ---- multinomial
        let m: &[(usize, usize, usize, usize)] = if t {
            &[(2, 1, 4, 1), (2, 2, 4, 1), (2, 3, 4, 1), (3, 1, 4, 1), (3, 2, 4, 1), (3, 3, 4, 3), (4, 1, 4, 1), (4, 2, 4, 3), (4, 3, 3, 0), (5, 1, 4, 1), (5, 2, 3, 0), (2, 4, 4, 1), (3, 4, 3, 0)]
        } else {
            &[(2, 1, 4, 1), (2, 2, 4, 1), (2, 3, 4, 1), (3, 1, 4, 1), (3, 2, 4, 3), (3, 3, 3, 0), (4, 1, 4, 3), (4, 2, 3, 0)]
        };
        for &(n, p, a, part) in m {
            for k in 2..=n.min(3) {
                if t && (n, p) == (4, 3) && k == 3 {
                    continue; // 3^12 x 36 labellings x 3: beyond the thorough budget (k=3 with p=3 is covered at n=3)
                }
                pl.lat(V::M, 0, n, p, k, a, part);
            }
        }
        // ---- Bernoulli, 0/1 data (binarize none / 0 / 0.5) and thresholded reals (thresholds 0 / 0.5 / 0.7 / -0.7)
        let b: &[(bool, usize, usize, usize, usize)] = if t {
            &[(false, 2, 1, 2, 1), (false, 2, 2, 2, 1), (false, 2, 3, 2, 1), (false, 3, 1, 2, 1), (false, 3, 2, 2, 1), (false, 3, 3, 2, 1), (false, 4, 1, 2, 1), (false, 4, 2, 2, 1),
              (false, 4, 3, 2, 1), (false, 4, 4, 2, 0), (false, 5, 1, 2, 1), (false, 5, 2, 2, 1), (false, 5, 3, 2, 0), (false, 6, 2, 2, 0),
              (true, 2, 1, 4, 1), (true, 2, 2, 4, 1), (true, 3, 1, 4, 1), (true, 3, 2, 4, 1), (true, 4, 1, 4, 1), (true, 4, 2, 3, 1), (true, 4, 2, 4, 0), (true, 5, 1, 4, 1), (true, 5, 2, 3, 0)]
        } else {
            &[(false, 2, 1, 2, 1), (false, 2, 2, 2, 1), (false, 2, 3, 2, 1), (false, 3, 1, 2, 1), (false, 3, 2, 2, 1), (false, 3, 3, 2, 3), (false, 4, 1, 2, 1), (false, 4, 2, 2, 3), (false, 4, 3, 2, 0),
              (true, 2, 1, 4, 1), (true, 2, 2, 4, 1), (true, 3, 1, 4, 1), (true, 3, 2, 4, 0), (true, 3, 2, 3, 3), (true, 4, 1, 4, 3), (true, 4, 2, 3, 0)]
        };
        for &(real, n, p, a, part) in b {
            for k in 2..=n.min(3) {
                pl.lat(V::B, real as usize, n, p, k, a, part);
            }
        }
        // ---- Bernoulli, extension (round 2): entries that already look binary must still be compared with the
        //      threshold. Data kind 2: {0,1} data, thresholds {1, 1.5, -0.5, -1} (everything becomes 0 resp. 1);
        //      data kind 3: alphabet {0, 1, 0.5, 2, -1} (prefix of size a), thresholds {0, 0.5, 1, -0.5}.
        //      Configuration set 0 is a FOUR-element diagonal here (each threshold occurs).
        let bx: &[(usize, usize, usize, usize, usize)] = if t {
            &[(2, 2, 1, 2, 1), (2, 2, 2, 2, 1), (2, 2, 3, 2, 1), (2, 3, 1, 2, 1), (2, 3, 2, 2, 1), (2, 3, 3, 2, 1), (2, 4, 1, 2, 1), (2, 4, 2, 2, 1), (2, 4, 3, 2, 3), (2, 4, 4, 2, 0), (2, 5, 1, 2, 1), (2, 5, 2, 2, 3),
              (3, 2, 1, 5, 1), (3, 2, 2, 5, 1), (3, 2, 3, 5, 3), (3, 3, 1, 5, 1), (3, 3, 2, 5, 3), (3, 3, 2, 3, 1), (3, 4, 1, 5, 1), (3, 4, 2, 3, 3), (3, 4, 2, 4, 0), (3, 5, 1, 5, 3)]
        } else {
            &[(2, 2, 1, 2, 1), (2, 2, 2, 2, 1), (2, 2, 3, 2, 1), (2, 3, 1, 2, 1), (2, 3, 2, 2, 1), (2, 3, 3, 2, 0), (2, 4, 1, 2, 1), (2, 4, 2, 2, 0),
              (3, 2, 1, 5, 1), (3, 2, 2, 5, 1), (3, 3, 1, 5, 1), (3, 3, 2, 5, 0), (3, 4, 1, 5, 0), (3, 4, 1, 3, 3), (3, 4, 2, 3, 0)]
        };
        for &(dk, n, p, a, part) in bx {
            for k in 2..=n.min(3) {
                pl.lat(V::B, dk, n, p, k, a, part);
            }
        }
        // ---- categorical: label VALUES 0..=cl-1 (gaps = empty classes); the class count is not a dimension,
        //      the `k` slot carries cl
        let c: &[(usize, usize, usize, usize)] = if t {
            &[(2, 1, 4, 3), (2, 2, 4, 3), (3, 1, 4, 3), (3, 2, 4, 3), (4, 1, 4, 3), (4, 2, 4, 3), (3, 3, 4, 3), (5, 1, 4, 3), (5, 2, 3, 3), (5, 2, 4, 2), (4, 3, 4, 2), (3, 2, 6, 3)]
        } else {
            &[(2, 1, 4, 3), (2, 2, 4, 3), (3, 1, 4, 3), (3, 2, 4, 3), (4, 1, 4, 3), (4, 2, 3, 3), (4, 2, 4, 2), (3, 3, 3, 2)]
        };
        for &(n, p, cl, a) in c {
            pl.lat(V::C, 0, n, p, cl, a, 1);
        }
        // ---- round-7 extension (1): the label maps of LARGE ADJACENT integers (indices 4..6) on the Gaussian,
        //      multinomial and Bernoulli lattices (not categorical: its classes are 0..max label).
        //      (variant, data kind, n, p, alphabet size, configuration set over the 3 new label maps), k = 2..min(n,3)
        //      (Gaussian: the k for which every class can have 2 rows)
        let gl: &[(usize, usize, usize, usize, usize)] = if t {
            &[(4, 1, 2, 4, 1), (4, 2, 2, 4, 3), (5, 1, 2, 4, 1), (6, 1, 2, 4, 3), (6, 1, 3, 4, 3), (4, 3, 2, 2, 1), (5, 2, 2, 3, 0), (6, 2, 3, 2, 1), (7, 1, 3, 3, 0)]
        } else {
            &[(4, 1, 2, 4, 1), (5, 1, 2, 4, 1), (6, 1, 3, 3, 0), (6, 1, 3, 2, 1), (4, 2, 2, 2, 1)]
        };
        for &(n, p, k, a, part) in gl {
            pl.lat_l(V::G, 0, n, p, k, a, part);
        }
        let ml: &[(usize, usize, usize, usize)] = if t {
            &[(2, 1, 4, 1), (2, 2, 4, 1), (2, 3, 4, 1), (3, 1, 4, 1), (3, 2, 4, 1), (3, 3, 3, 0), (4, 1, 4, 1), (4, 2, 3, 0), (5, 1, 4, 3)]
        } else {
            &[(2, 1, 4, 1), (2, 2, 4, 1), (2, 3, 4, 3), (3, 1, 4, 1), (3, 2, 4, 0), (4, 1, 4, 3)]
        };
        for &(n, p, a, part) in ml {
            for k in 2..=n.min(3) {
                pl.lat_l(V::M, 0, n, p, k, a, part);
            }
        }
        let bl: &[(usize, usize, usize, usize, usize)] = if t {
            &[(0, 2, 1, 2, 1), (0, 2, 2, 2, 1), (0, 2, 3, 2, 1), (0, 3, 1, 2, 1), (0, 3, 2, 2, 1), (0, 3, 3, 2, 1), (0, 4, 1, 2, 1), (0, 4, 2, 2, 1), (0, 4, 3, 2, 0), (0, 5, 1, 2, 1), (0, 5, 2, 2, 3),
              (1, 2, 1, 4, 1), (1, 2, 2, 4, 1), (1, 3, 1, 4, 1), (1, 3, 2, 3, 3), (1, 4, 1, 4, 3), (2, 2, 2, 2, 1), (2, 3, 2, 2, 3), (3, 2, 2, 5, 3), (3, 3, 1, 5, 1)]
        } else {
            &[(0, 2, 1, 2, 1), (0, 2, 2, 2, 1), (0, 2, 3, 2, 1), (0, 3, 1, 2, 1), (0, 3, 2, 2, 1), (0, 3, 3, 2, 3), (0, 4, 1, 2, 1), (0, 4, 2, 2, 0),
              (1, 2, 1, 4, 1), (1, 3, 1, 4, 3), (2, 2, 2, 2, 3), (3, 2, 1, 5, 1)]
        };
        for &(dk, n, p, a, part) in bl {
            for k in 2..=n.min(3) {
                pl.lat_l(V::B, dk, n, p, k, a, part);
            }
        }
        let lattice_leaves = pl.leaves;
        let mut jobs = pl.jobs;
        jobs.sort_by_key(|j| j.0);
        // the cheap family / offset jobs run right after the smallest lattice spaces (n*p <= 2), so that a
        // run cut short by its wall budget has still covered them
        let split = jobs.iter().position(|j| (j.0 >> 40) > 2).unwrap_or(jobs.len());
        let mut late: Vec<Job> = jobs.split_off(split).into_iter().map(|j| j.1).collect();
        let mut jobs: Vec<Job> = jobs.into_iter().map(|j| j.1).collect();
        // ---- structured families
        for (v, dk) in [(V::G, 0usize), (V::M, 0), (V::B, 0), (V::B, 1), (V::C, 0), (V::B, 2), (V::B, 3)] {
            for n in FAM_N {
                let cfgs = cfg_set(v, dk, if t || v == V::C || v == V::G { 1 } else { 3 });
                let mut params = json!({"kind": "fam", "v": v.code(), "real": dk == 1, "n": n, "seed": seed, "cfgs": cfgs.iter().map(|c| c.to_vec()).collect::<Vec<_>>()});
                if dk >= 2 {
                    params["dk"] = json!(dk);
                }
                jobs.push(Job::new(format!("fam-{}{}-n{}", v.code(), DK_TAG[dk], n), params));
            }
        }
        // ---- round-7 extension (1): the structured families under the new label maps (k = 4, 5: the tables' prefixes)
        for (v, dk) in [(V::G, 0usize), (V::M, 0), (V::B, 0), (V::B, 1)] {
            for n in FAM_N {
                let cfgs = cfg_set_l(v, dk, if t || v == V::G { 1 } else { 3 });
                let params = json!({"kind": "fam", "v": v.code(), "real": dk == 1, "n": n, "seed": seed, "cfgs": cfgs.iter().map(|c| c.to_vec()).collect::<Vec<_>>()});
                jobs.push(Job::new(format!("fam-{}{}L-n{}", v.code(), DK_TAG[dk], n), params));
            }
        }
        // ---- round-7 extension (2): Gaussian features with a large offset and a tiny spread, full oracle
        //      (n, p, k, offset index, alphabet size of the tiny-spread column)
        let tiny: &[(usize, usize, usize, usize, usize)] = if t {
            &[(4, 1, 2, 0, 5), (5, 1, 2, 0, 5), (5, 1, 2, 1, 5), (5, 1, 2, 2, 5), (5, 1, 2, 3, 4), (6, 1, 2, 0, 5), (6, 1, 2, 2, 4), (6, 1, 3, 0, 4), (6, 1, 3, 1, 4), (7, 1, 2, 0, 4), (7, 1, 3, 0, 4), (8, 1, 2, 0, 3), (8, 1, 3, 0, 3),
              (5, 2, 2, 0, 3), (5, 2, 2, 2, 2), (6, 2, 2, 0, 2), (6, 2, 3, 0, 2)]
        } else {
            &[(4, 1, 2, 0, 4), (5, 1, 2, 0, 4), (5, 1, 2, 1, 4), (5, 1, 2, 2, 4), (5, 1, 2, 3, 3), (6, 1, 2, 0, 4), (6, 1, 3, 0, 3), (7, 1, 3, 0, 2), (5, 2, 2, 0, 2)]
        };
        let tiny_chunk: u64 = if t { 3_000_000 } else { 400_000 };
        for &(n, p, k, off, a) in tiny {
            let nlab = labellings(V::G, n, k).len();
            let per_lab = (a as u64).pow(n as u32) * if p == 2 { (TINY_COL2.len() as u64).pow(n as u32) } else { 1 };
            let step = ((tiny_chunk / per_lab).max(1) as usize).min(nlab);
            let mut lo = 0;
            while lo < nlab {
                let hi = (lo + step).min(nlab);
                let name = format!("gtiny-n{}-p{}-k{}-off{:e}-a{}-lab{}..{}", n, p, k, TINY_OFF[off], a, lo, hi);
                jobs.push(Job::new(name, json!({"kind": "gtiny", "n": n, "p": p, "k": k, "off": off, "asz": a, "lab_lo": lo, "lab_hi": hi})));
                lo = hi;
            }
        }
        // ---- Gaussian lattice at large offsets
        for off in 0..GOFF.len() {
            for (n, k) in [(4usize, 2usize), (5, 2), (6, 3)] {
                if n == 6 && off != 2 {
                    continue;
                }
                jobs.push(Job::new(format!("goff-n{}-k{}-off{:e}", n, k, GOFF[off]), json!({"kind": "goff", "n": n, "k": k, "off": off})));
            }
        }
        jobs.append(&mut late);
        let jobs = {
            let mut j: Vec<Job> = jobs;
            j.insert(0, Job::new("builders", json!({"kind": "builders"})));
            for i in 0..mc_sc::entry::n_parts("C11") {
                j.insert(1 + i, Job::new(format!("entry-{}", i), json!({"kind": "entry", "part": i})));
            }
            for k in 2..=5usize {
                j.insert(1, Job::new(format!("pri-k{}", k), json!({"kind": "pri", "k": k})));
            }
            for k in 2..=4usize {
                j.insert(1, Job::new(format!("pri0-k{}", k), json!({"kind": "pri0", "k": k})));
            }
            j
        };
        Plan {
            jobs,
            budget_s: if t { 2700 } else { 40 },
            case_deadline_ms: 20_000,
            floors: vec![
                ("builder_chains", 5),
                ("entry_cases", 1000),
                ("fit_gaussian", 10_000),
                ("fit_multinomial", 100_000),
                ("fit_bernoulli", 100_000),
                ("fit_categorical", 100_000),
                ("labels_not_0_to_k-1", 100_000),
                ("labels_negative", 50_000),
                ("user_priors", 100_000),
                ("decimal_priors_instances", 1_000),
                ("zero_prior_far_cluster_instances", 30),
                ("decimal_priors_fp_sum_not_exactly_one", 10),
                ("alpha_not_1", 100_000),
                ("class_sizes_differ", 100_000),
                ("categorical_empty_class", 10_000),
                ("bernoulli_binarized", 10_000),
                ("bernoulli_value_equals_threshold", 1_000),
                // round-2 extension: binary-looking entries that the threshold must still change
                ("bernoulli_01_data_extended_threshold_instances", 200_000),
                ("bernoulli_mixed_alphabet_instances", 1_000_000),
                ("bernoulli_exact_one_entry_binarised_to_zero", 200_000),
                ("bernoulli_exact_zero_entry_binarised_to_one", 200_000),
                ("bernoulli_mixed_row_keeps_and_changes_binary_looking_entries", 10_000),
                // round-7 extension: large adjacent labels, large-offset / tiny-spread Gaussian data
                ("labels_adjacent_beyond_f32_instances", 300_000),
                ("labels_adjacent_beyond_f32_k_ge_3", 50_000),
                ("labels_adjacent_beyond_f32_family_members", 10_000),
                ("tiny_spread_instances", 100_000),
                ("tiny_spread_class_sizes_differ", 50_000),
                ("tiny_spread_variance_below_mean2_sqrt_eps", 100_000),
                ("tiny_spread_variance_on_both_sides_of_mean2_sqrt_eps", 1_000),
                ("tiny_spread_known_cancellation_region", 1_000),
                ("priors_observed_via_serde", 100_000),
                ("queries_judged", 1_000_000),
                ("queries_judged_outside_training_set", 100_000),
                ("map_tie_accepted", 1_000),
                ("prediction_not_the_largest_prior_class", 10_000),
                ("predictions_vary_within_execution", 10_000),
                ("family_members", 1_000),
                ("offset_instances", 1_000),
            ],
            bounds: json!({
                "builders": mc_sc::builders::BOUNDS,
                "entry_paths": mc_sc::entry::BOUNDS,
                "lattice": "every training set over the variant's alphabet with every labelling (G/M/B: onto k classes; Gaussian: every class >= 2 rows and non-zero variance; categorical: label values 0..3 with gaps) x configuration set; see NOTES.md for the (n,p,k,alphabet,config-set) list per tier",
                "lattice_leaves_upper_bound": lattice_leaves,
                "alphabets": {"gaussian": G_BASE, "gaussian_tight_clusters": G_TIGHT, "multinomial": M_ALPH[(seed % 8) as usize], "bernoulli": "{0,1} (binarize none/0/0.5) and reals {-0.5,0.2,0.7,1.5} with thresholds {0,0.5,0.7,-0.7}",
                              "bernoulli_extension_round_2": format!("{{0,1}} data with thresholds {:?} (>=1: every entry -> 0, negative: every entry -> 1) and the mixed alphabet {:?} (prefixes of size 3/4/5) with thresholds {:?}; full lattice for n<=4, p<=2 (quick: |A|=5 up to n*p=6 resp. n=4 p=1, |A|=3 at n=4 p=2), k=2..min(n,3), x label maps x alpha x priors (full / third / four-element diagonal), plus the structured families; not seed-dependent", B_EXT_THR, B_MIX, B_MIX_THR), "categorical": C_ALPH, "alpha": ALPHAS[(seed % 8) as usize]},
                "label_maps": "0..k-1, {-3,7,10}, {2,3}/{1,2,4}, {-1,1}/{-2^40,5,2^52}",
                "label_maps_round_7": "large adjacent integers (distinct as f64/i64, equal as f32): prefixes of length k of {300000001,300000002,300000005,300000006,300000009}, {2^24,2^24+1,..,2^24+4}, {-300000002,-300000001,7,300000001,300000002}; jobs lat-GL/ML/BL/BrL/BxL/BmL (the lattice spaces listed in NOTES.md, each under 3 new label maps x the other configuration dimensions: full / third / diagonal) and fam-GL/ML/BL/BrL (every family member, k = 2..5); categorical not included (its classes are 0..max label)",
                "tiny_spread_round_7": format!("job kind gtiny: Gaussian lattice whose first feature is offset + {:?} (prefix of size a) for offsets {:?}, optional second feature over {:?}; every labelling with every class >= 2 rows (class sizes 2..6, different sizes for odd n and for the 2+4 / 2+2+3 splits), every non-zero-variance training set; n=4..7 (thorough ..8), k=2,3; full oracle, variance tolerance 1e-3 relative to the two-pass (spread-based) reference variance; members with |mean|/sd >= 1e7 that fail are reported under the known cancellation key", TINY_FRAC, TINY_OFF, TINY_COL2),
                "user_priors": "none + two dyadic prior vectors per k; decimal priors: every ordered vector of positive tenths summing to one for k = 2..5 (255 vectors) x {Gaussian, multinomial, Bernoulli} x 2 label maps on a fixed 2k-row training set",
                "queries": "the full alphabet^p lattice (categorical: every in-range code); judged when every value occurred in that column of the training set",
                "families": format!("n in {:?} x p in {:?} x k in {:?} x 3 class layouts x 2 generators x configurations", FAM_N, FAM_P, FAM_K),
                "offsets": format!("Gaussian p=1 lattice translated by {:?}", GOFF),
            }),
        }
    }

    fn run(&self, job: &Job) {
        if job.kind() == "entry" {
            return mc_sc::entry::run_part("C11", job.u("part"));
        }
        match job.kind() {
            "lat" => run_lattice(job),
            "fam" => run_family(job),
            "goff" => run_goff(job),
            "gtiny" => run_tiny(job),
            "pri" => run_pri(job),
            "pri0" => run_pri0(job),
            "builders" => mc_sc::builders::run("C11"),
            other => panic!("unknown job kind {}", other),
        }
    }

    fn rule(&self) -> String {
        "one execution = one (variant, training set, labelling, label values, alpha, priors, binarisation) fitted by the real library and judged on every statistic and every query row; non-trivial = the fit returned a model on a valid training set with >= 2 classes; distinct = distinct digest of the reported classes, counts, statistics (12 significant digits) and predicted labels".into()
    }

    fn assumptions(&self) -> Vec<String> {
        vec![
            "variance = population variance (second central moment of the class's empirical distribution)".into(),
            "binarisation maps x > threshold to 1, everything else to 0 (documented behaviour of binarize)".into(),
            "a query row is judged only when each of its values occurred in the same column of the training set; other lattice rows are compared and counted but never reported".into(),
            "the class order reported by classes() is not prescribed; statistics are matched to classes by label, user priors by position in classes()".into(),
            "priors of the multinomial, Bernoulli and categorical variants are read from the serde serialisation (no accessor exists)".into(),
            "no RNG on any explored path (naive Bayes draws nothing); HashMap is used for look-ups only".into(),
        ]
    }
}

fn main() {
    mc::main(C11)
}
