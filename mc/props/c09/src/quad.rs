//! L-BFGS + backtracking line search (crate-private, reached through the verif-hooks re-export)
//! on strictly convex quadratics f(x) = 1/2 x'Hx - b'x, b = H x*.

use crate::refs::{self, Quad};
use mc_core::{self as mc, json, Job, Value};
use smartcore::linalg::naive::dense_matrix::DenseMatrix;
use smartcore::linalg::BaseMatrix;
use smartcore::verif_hooks::{Backtracking, FirstOrderOptimizer, FunctionOrder, LBFGS};
use std::cell::RefCell;

const SIGMA4: [f64; 4] = [0.0, 1.0, -1.0, 2.0];
pub const REDUCTION: f64 = 1e-6;
const MONO_RTOL: f64 = 1e-12;

/// The families available in dimension d: (family, spectrum, cond-or-parameter).
fn families(d: usize) -> Vec<(String, String, f64)> {
    let mut v: Vec<(String, String, f64)> = Vec::new();
    v.push(("diag".into(), "linear".into(), 1.0));
    if d == 1 {
        for c in &refs::CONDS[1..] {
            v.push(("diag".into(), "linear".into(), *c));
        }
        // the first trial step of L-BFGS is x - g: for a 1-D quadratic with curvature lambda it
        // lands on (1 - lambda) x, i.e. exactly at the Armijo accept/reject boundary for lambda
        // near 2. lambda = 2 -+ 2^-k probes both sides of that boundary.
        for k in (4..=16).step_by(2) {
            v.push(("boundary".into(), "above".into(), k as f64));
            v.push(("boundary".into(), "below".into(), k as f64));
        }
        return v;
    }
    for fam in ["diag", "householder", "hadamard"] {
        if fam == "hadamard" && !(d.is_power_of_two()) {
            continue;
        }
        for sp in refs::SPECTRA {
            for c in &refs::CONDS[1..] {
                v.push((fam.into(), sp.into(), *c));
            }
        }
    }
    v.push(("tridiag".into(), "-".into(), 0.0));
    v.push(("minij".into(), "-".into(), 0.0));
    v
}

fn build_h(d: usize, fam: &str, sp: &str, c: f64) -> Vec<Vec<f64>> {
    match fam {
        "diag" => refs::diag(&refs::spectrum(sp, d, c)),
        "householder" => refs::rotate(&refs::householder(d), &refs::spectrum(sp, d, c)),
        "hadamard" => refs::rotate(&refs::hadamard(d), &refs::spectrum(sp, d, c)),
        "tridiag" => refs::tridiag(d),
        "minij" => refs::minij(d),
        "boundary" => {
            let e = 2f64.powi(-(c as i32));
            vec![vec![if sp == "above" { 2.0 + e } else { 2.0 - e }]]
        }
        _ => panic!("family {}", fam),
    }
}

fn starts(d: usize, shift: f64, thorough: bool) -> Vec<Vec<f64>> {
    let mut v: Vec<Vec<f64>> = Vec::new();
    if d <= (if thorough { 5 } else { 3 }) {
        mc::oracle::for_each_tuple(&SIGMA4, d, |t| v.push(t.to_vec()));
    } else {
        for i in 0..d {
            let mut e = vec![0.0; d];
            e[i] = 1.0;
            v.push(e);
        }
        v.push(vec![1.0; d]);
        v.push((0..d).map(|i| if i % 2 == 0 { 1.0 } else { -1.0 }).collect());
    }
    v.push(vec![1e3; d]);
    for s in v.iter_mut() {
        for x in s.iter_mut() {
            *x += shift;
        }
    }
    v
}

pub fn plan(thorough: bool, seed: u64, jobs: &mut Vec<Job>) {
    for d in 1..=12usize {
        for (fi, (fam, sp, c)) in families(d).iter().enumerate() {
            jobs.push(Job::new(
                format!("quad-d{}-{}-{}-{}", d, fam, sp, c),
                json!({"kind": "quad", "d": d, "fi": fi, "seed": seed, "thorough": thorough}),
            ));
        }
    }
}

pub fn floors(_t: bool, seed: u64) -> Vec<(&'static str, u64)> {
    let mut v = vec![
        ("quad_nontrivial", 5000),
        ("quad_backtracked", 1000),
        ("quad_history_wrapped(>10 iterations)", 200),
        ("quad_unit_step_accepted_first", 100),
    ];
    if seed % 8 == 0 {
        // only the unshifted start lattice contains the optimum x* = 0 itself
        v.push(("quad_start_is_optimum", 10));
    }
    v
}

pub fn bounds(t: bool) -> Value {
    json!({
        "dimension": "1..12",
        "families": "diagonal / Householder-rotated (v = 1..d) / Hadamard-rotated (d = 2,4,8) with linear, log and clustered spectra, cond in {1,10,1e2,1e4}; tridiagonal Toeplitz (2,-1); min(i,j); all normalised to smallest eigenvalue >= 1; d = 1: curvature in {1,10,1e2,1e4} and 2 -+ 2^-k, k = 4,6..16 (unit-step Armijo boundary)",
        "starts": format!("d <= {0}: all of {{0,1,-1,2}}^d plus 1e3*ones; d > {0}: e_1..e_d, ones, alternating +-1, 1e3*ones (all shifted by (seed%8)/4)", if t { 5 } else { 3 }),
        "optimum": "x* = 0 and x* = (1,-1,1,..)/16",
        "line_search_order": "SECOND and THIRD",
    })
}

pub fn run(job: &Job) {
    let d = job.u("d");
    let fams = families(d);
    let (fam, sp, c) = fams[job.u("fi")].clone();
    let seed = job.params["seed"].as_u64().unwrap_or(0);
    let shift = (seed % 8) as f64 * 0.25;
    let st = starts(d, shift, job.b("thorough"));
    let x0 = st[mc::choose(st.len())].clone();
    let xstar_kind = mc::choose(2);
    let order_third = mc::choose(2) == 0;

    let h = build_h(d, &fam, &sp, c);
    // x* = 0 or +-1/16 alternating: |f(x*)| stays small against f(x0) - f(x*), so the optimiser's
    // "f did not change" stopping rule is not hit at the floating-point resolution of f while the
    // gradient is still only ~1e-6 of its initial size (see NOTES.md, calibration)
    let xstar: Vec<f64> = (0..d).map(|i| if xstar_kind == 0 { 0.0 } else if i % 2 == 0 { 0.0625 } else { -0.0625 }).collect();
    let b = refs::matvec(&h, &xstar);
    let q = Quad { h, b };

    // every point handed to `df` is an accepted iterate (line-search trials only call `f`)
    let iterates: RefCell<Vec<Vec<f64>>> = RefCell::new(Vec::new());
    let f_calls = RefCell::new(0usize);
    let row = |m: &DenseMatrix<f64>| -> Vec<f64> { (0..d).map(|j| m.get(0, j)).collect() };
    let f = |x: &DenseMatrix<f64>| -> f64 {
        *f_calls.borrow_mut() += 1;
        q.f(&row(x))
    };
    let df = |g: &mut DenseMatrix<f64>, x: &DenseMatrix<f64>| {
        let xv = row(x);
        let gv = q.grad(&xv);
        for j in 0..d {
            g.set(0, j, gv[j]);
        }
        let mut it = iterates.borrow_mut();
        if it.last().map(|l| *l != xv).unwrap_or(true) {
            it.push(xv);
        }
    };
    let x0m = DenseMatrix::from_2d_vec(&vec![x0.clone()]);
    let ls: Backtracking<f64> = Backtracking { order: if order_third { FunctionOrder::THIRD } else { FunctionOrder::SECOND }, ..Default::default() };
    let opt: LBFGS<f64> = Default::default();
    let r = mc::guard(|| opt.optimize(&f, &df, &x0m, &ls));
    let case = || format!("d={} H={}/{}/{} x0={:?} x*={:?} order={}", d, fam, sp, c, x0, xstar, if order_third { "THIRD" } else { "SECOND" });
    let res = match r {
        Ok(v) => v,
        Err(p) => {
            let suffix = if p.is_overflow_check() { ":overflow-check" } else { "" };
            let class = if p.msg.contains("Linesearch failed") { "linesearch-gave-up" } else { "other" };
            mc::violation(format!("lbfgs.optimize:panic:{}{}", class, suffix), format!("{}: {}", case(), p.brief()));
            mc::describe(|| json!({"op": "LBFGS.optimize", "case": case(), "panic": p.brief()}));
            return;
        }
    };
    let xf = row(&res.x);
    let g0 = q.grad(&x0).iter().fold(0.0f64, |m, v| m.max(v.abs()));
    let gf_v = q.grad(&xf);
    let gf = gf_v.iter().fold(0.0f64, |m, v| if v.is_nan() { f64::NAN } else { m.max(v.abs()) });
    let its = iterates.borrow();
    let fs: Vec<f64> = its.iter().map(|x| q.f(x)).collect();

    // clause: never increases the objective (along the accepted iterates, and start -> result)
    let mut worst_inc = 0.0f64;
    let mut at = 0usize;
    for t in 1..fs.len() {
        let slack = MONO_RTOL * fs[t].abs().max(fs[t - 1].abs());
        let inc = fs[t] - fs[t - 1];
        if !(inc <= slack) && (inc.is_nan() || inc > worst_inc) {
            worst_inc = if inc.is_nan() { f64::INFINITY } else { inc };
            at = t;
        }
    }
    if worst_inc > 0.0 {
        mc::violation(
            "lbfgs.optimize:objective-increased",
            format!("{}: f rises from {:e} to {:e} between accepted iterates {} and {} ({:?} -> {:?})", case(), fs[at - 1], fs[at], at - 1, at, its[at - 1], its[at]),
        );
    }
    let f_start = q.f(&x0);
    let f_end = q.f(&xf);
    if !(f_end <= f_start + MONO_RTOL * f_start.abs().max(f_end.abs())) {
        mc::violation("lbfgs.optimize:result-above-start", format!("{}: f(result)={:e} > f(start)={:e}", case(), f_end, f_start));
    }
    // clause: reduces the gradient by many orders of magnitude
    if !(gf <= REDUCTION * g0) {
        let class = if gf.is_nan() { "nan" } else if res.iterations >= opt.max_iter { "max-iter-reached" } else { "stopped-early" };
        mc::violation(
            format!("lbfgs.optimize:gradient-not-reduced:{}", class),
            format!("{}: |g|_inf {:e} at the start, {:e} at the result after {} iterations (required <= {:e} * start)", case(), g0, gf, res.iterations, REDUCTION),
        );
    }
    // calibration buckets
    if g0 > 0.0 {
        let ratio = gf / g0;
        mc::count(if ratio <= 1e-12 {
            "quad_reduction<=1e-12"
        } else if ratio <= 1e-9 {
            "quad_reduction<=1e-9"
        } else if ratio <= 1e-8 {
            "quad_reduction<=1e-8"
        } else if ratio <= 1e-7 {
            "quad_reduction<=1e-7"
        } else if ratio <= 1e-6 {
            "quad_reduction<=1e-6"
        } else {
            "quad_reduction>1e-6"
        });
    }
    let fc = *f_calls.borrow();
    if g0 == 0.0 {
        mc::count("quad_start_is_optimum");
    } else {
        mc::count("quad_nontrivial");
        mc::nontrivial();
    }
    if fc > 3 * res.iterations {
        mc::count("quad_backtracked");
    } else if res.iterations > 0 {
        mc::count("quad_unit_step_accepted_first");
    }
    if res.iterations > 10 {
        mc::count("quad_history_wrapped(>10 iterations)");
    }
    mc::outcome(mc::hash::mix(mc::hash::h_f64s_rounded(&xf, 9), res.iterations as u64));
    mc::describe(|| {
        json!({"op": "LBFGS.optimize", "d": d, "family": fam, "spectrum": sp, "cond_or_k": c, "x0": x0, "xstar": xstar,
               "order": if order_third { "THIRD" } else { "SECOND" }, "iterations": res.iterations, "f_calls": fc,
               "accepted_iterates": its.len(), "f_along_iterates": fs, "grad_inf_start": g0, "grad_inf_result": gf, "result": xf})
    });
}
