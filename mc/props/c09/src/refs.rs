//! Reference definitions for C09 — the penalised negative log-likelihood of the sigmoid / softmax
//! model and its gradient, written from the textbook formulas with overflow-safe primitives, and the
//! SPD quadratic families for the L-BFGS part. Shares no code with /repo.

/// ln(1 + e^s), overflow-safe.
pub fn log1pexp(s: f64) -> f64 {
    s.max(0.0) + (-s.abs()).exp().ln_1p()
}

/// 1 / (1 + e^-s), overflow-safe.
pub fn sigmoid(s: f64) -> f64 {
    if s >= 0.0 {
        1.0 / (1.0 + (-s).exp())
    } else {
        let e = s.exp();
        e / (1.0 + e)
    }
}

pub fn logsumexp(xs: &[f64]) -> f64 {
    let m = xs.iter().cloned().fold(f64::NEG_INFINITY, f64::max);
    if !m.is_finite() {
        return m;
    }
    m + xs.iter().map(|x| (x - m).exp()).sum::<f64>().ln()
}

pub fn inf_norm(g: &[Vec<f64>]) -> f64 {
    let mut m = 0.0f64;
    for r in g {
        for v in r {
            if v.is_nan() {
                return f64::NAN;
            }
            m = m.max(v.abs());
        }
    }
    m
}

/// Position (row, column) of the entry of largest magnitude.
pub fn arg_inf_norm(g: &[Vec<f64>]) -> (usize, usize) {
    let (mut bi, mut bj, mut m) = (0, 0, -1.0);
    for (i, r) in g.iter().enumerate() {
        for (j, v) in r.iter().enumerate() {
            if v.abs() > m {
                m = v.abs();
                bi = i;
                bj = j;
            }
        }
    }
    (bi, bj)
}

/// Penalised negative log-likelihood and gradient of the TWO-class sigmoid model
/// P(class `pos`) = sigmoid(w.x + b); `w` = [w_1..w_p, b]; the intercept is not penalised.
/// `yi[i]` is the class index (0/1) of row i; `pos` is the class index that plays "1".
pub fn binary_obj_grad(x: &[Vec<f64>], yi: &[usize], pos: usize, w: &[f64], alpha: f64) -> (f64, Vec<f64>) {
    let p = w.len() - 1;
    let mut f = 0.0;
    let mut g = vec![0.0; p + 1];
    for (row, &c) in x.iter().zip(yi) {
        let s: f64 = row.iter().zip(w).map(|(a, b)| a * b).sum::<f64>() + w[p];
        let y = if c == pos { 1.0 } else { 0.0 };
        f += log1pexp(s) - y * s;
        let d = sigmoid(s) - y;
        for j in 0..p {
            g[j] += d * row[j];
        }
        g[p] += d;
    }
    let mut w2 = 0.0;
    for j in 0..p {
        w2 += w[j] * w[j];
        g[j] += alpha * w[j];
    }
    f += 0.5 * alpha * w2;
    (f, g)
}

/// Penalised negative log-likelihood and gradient of the softmax model with one weight vector
/// (last entry = intercept, unpenalised) per class; `w[c]` belongs to class index c.
pub fn softmax_obj_grad(x: &[Vec<f64>], yi: &[usize], w: &[Vec<f64>], alpha: f64) -> (f64, Vec<Vec<f64>>) {
    let k = w.len();
    let p = w[0].len() - 1;
    let mut f = 0.0;
    let mut g = vec![vec![0.0; p + 1]; k];
    let mut s = vec![0.0; k];
    for (row, &c) in x.iter().zip(yi) {
        for j in 0..k {
            s[j] = row.iter().zip(&w[j]).map(|(a, b)| a * b).sum::<f64>() + w[j][p];
        }
        let lse = logsumexp(&s);
        f += lse - s[c];
        for j in 0..k {
            let d = (s[j] - lse).exp() - if j == c { 1.0 } else { 0.0 };
            for l in 0..p {
                g[j][l] += d * row[l];
            }
            g[j][p] += d;
        }
    }
    let mut w2 = 0.0;
    for j in 0..k {
        for l in 0..p {
            w2 += w[j][l] * w[j][l];
            g[j][l] += alpha * w[j][l];
        }
    }
    f += 0.5 * alpha * w2;
    (f, g)
}

/// All permutations of 0..k, identity first.
pub fn perms(k: usize) -> Vec<Vec<usize>> {
    fn rec(cur: &mut Vec<usize>, used: &mut Vec<bool>, k: usize, out: &mut Vec<Vec<usize>>) {
        if cur.len() == k {
            out.push(cur.clone());
            return;
        }
        for i in 0..k {
            if !used[i] {
                used[i] = true;
                cur.push(i);
                rec(cur, used, k, out);
                cur.pop();
                used[i] = false;
            }
        }
    }
    let mut out = Vec::new();
    rec(&mut Vec::new(), &mut vec![false; k], k, &mut out);
    out
}

// ------------------------------------------------------------------------------------------------
// SPD quadratic families: f(x) = 1/2 x'Hx - b'x with b = H x*, smallest eigenvalue 1 (so the
// gradient at any lattice start is either exactly 0 or of order >= 1 and the optimiser's absolute
// gradient tolerance 1e-8 never interferes with the "many orders of magnitude" clause).
// ------------------------------------------------------------------------------------------------

pub const CONDS: [f64; 4] = [1.0, 10.0, 1e2, 1e4];
pub const SPECTRA: [&str; 3] = ["linear", "log", "clustered"];

pub fn spectrum(kind: &str, d: usize, cond: f64) -> Vec<f64> {
    (0..d)
        .map(|i| {
            if d == 1 {
                return cond;
            }
            let t = i as f64 / (d - 1) as f64;
            match kind {
                "linear" => 1.0 + (cond - 1.0) * t,
                "log" => cond.powf(t),
                "clustered" => {
                    if i < (d + 1) / 2 {
                        1.0
                    } else {
                        cond
                    }
                }
                _ => panic!("spectrum kind"),
            }
        })
        .collect()
}

pub fn hadamard(d: usize) -> Vec<Vec<f64>> {
    assert!(d.is_power_of_two());
    let s = 1.0 / (d as f64).sqrt();
    (0..d).map(|i| (0..d).map(|j| if (i & j).count_ones() % 2 == 0 { s } else { -s }).collect()).collect()
}

/// I - 2 v v' / v'v with v = (1, 2, .., d)
pub fn householder(d: usize) -> Vec<Vec<f64>> {
    let v: Vec<f64> = (1..=d).map(|i| i as f64).collect();
    let vv: f64 = v.iter().map(|a| a * a).sum();
    (0..d).map(|i| (0..d).map(|j| (if i == j { 1.0 } else { 0.0 }) - 2.0 * v[i] * v[j] / vv).collect()).collect()
}

/// Q diag(lam) Q', symmetrised exactly.
pub fn rotate(q: &[Vec<f64>], lam: &[f64]) -> Vec<Vec<f64>> {
    let d = lam.len();
    let mut h = vec![vec![0.0; d]; d];
    for i in 0..d {
        for j in i..d {
            let mut s = 0.0;
            for l in 0..d {
                s += q[i][l] * lam[l] * q[j][l];
            }
            h[i][j] = s;
            h[j][i] = s;
        }
    }
    h
}

pub fn diag(lam: &[f64]) -> Vec<Vec<f64>> {
    let d = lam.len();
    (0..d).map(|i| (0..d).map(|j| if i == j { lam[i] } else { 0.0 }).collect()).collect()
}

/// tridiagonal Toeplitz (2, -1), divided by its smallest eigenvalue 2 - 2 cos(pi/(d+1))
pub fn tridiag(d: usize) -> Vec<Vec<f64>> {
    let lmin = 2.0 - 2.0 * (std::f64::consts::PI / (d as f64 + 1.0)).cos();
    (0..d)
        .map(|i| (0..d).map(|j| (if i == j { 2.0 } else if i + 1 == j || j + 1 == i { -1.0 } else { 0.0 }) / lmin).collect())
        .collect()
}

/// min(i, j) (1-based), the inverse of a tridiagonal matrix; smallest eigenvalue
/// 1 / (2 + 2 cos(pi/(2d+1))) > 1/4 — multiplied by 4 so that it is >= 1.
pub fn minij(d: usize) -> Vec<Vec<f64>> {
    (0..d).map(|i| (0..d).map(|j| 4.0 * (i.min(j) + 1) as f64).collect()).collect()
}

pub fn matvec(h: &[Vec<f64>], x: &[f64]) -> Vec<f64> {
    h.iter().map(|r| r.iter().zip(x).map(|(a, b)| a * b).sum()).collect()
}

pub struct Quad {
    pub h: Vec<Vec<f64>>,
    pub b: Vec<f64>,
}

impl Quad {
    pub fn f(&self, x: &[f64]) -> f64 {
        let hx = matvec(&self.h, x);
        let mut s = 0.0;
        for i in 0..x.len() {
            s += x[i] * (0.5 * hx[i] - self.b[i]);
        }
        s
    }
    pub fn grad(&self, x: &[f64]) -> Vec<f64> {
        let hx = matvec(&self.h, x);
        hx.iter().zip(&self.b).map(|(a, b)| a - b).collect()
    }
}
