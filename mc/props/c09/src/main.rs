//! C09 — logistic regression reaches the optimum of its penalised likelihood via L-BFGS.
//!
//! E1 (stateless choice-tree exploration of the real code). Two parts:
//!
//! * `logit.rs`: every small training set over a sharp alphabet (p = 1 over Sigma4, p = 2 over the
//!   2x2 lattice, 2..4 label letters, n = 6..8 as multisets or as sequences) and a deterministic
//!   structured family (p <= 6, n <= 100, 2..4 classes, cyclic / separable / noisy layouts), each
//!   under every feature map, every alpha and both label tables, fitted by the real
//!   `LogisticRegression::fit` and judged by the harness's own gradient / objective / scores.
//!   Round 2: the "saturated scores" family — two-class lattice multisets (n = 6), structured sets
//!   (n = 12, 25) and lopsided sets (n = 60, 100: 1..3 samples of one class) under scale-100 maps
//!   with offsets 0 / +-300 and alpha in {1e-2, 1, 10}, where trial points and iterates of the
//!   optimiser have |linear score| > 40 (witnessed by `saturated_*` counters with floors).
//! * `quad.rs`: the crate-private `LBFGS` + `Backtracking` (verif-hooks re-export) on every member
//!   of the SPD quadratic families of dimension 1..12 from every lattice start.
//!
//! The library draws no random numbers on these paths: there is no schedule dimension.

mod logit;
mod quad;
mod refs;

use mc_core::{self as mc, json, Harness, Job, Plan, Tier};

struct C09;

impl Harness for C09 {
    fn id(&self) -> &'static str {
        "C09"
    }

    fn plan(&self, tier: Tier, seed: u64) -> Plan {
        let t = tier.is_thorough();
        let mut jobs = Vec::new();
        quad::plan(t, seed, &mut jobs);
        logit::plan(t, seed, &mut jobs);
        let mut floors = logit::floors(t);
        floors.extend(quad::floors(t, seed));
        let jobs = {
            let mut j: Vec<Job> = jobs;
            j.insert(0, Job::new("builders", json!({"kind": "builders"})));
            for i in 0..mc_sc::entry::n_parts("C09") {
                j.insert(1 + i, Job::new(format!("entry-{}", i), json!({"kind": "entry", "part": i})));
            }
            j
        };
        Plan {
            jobs,
            budget_s: if t { 2700 } else { 40 },
            case_deadline_ms: 20_000,
            floors: {
                let mut f = floors;
                f.push(("builder_chains", 5));
                f.push(("entry_cases", 1000));
                f
            },
            bounds: json!({
                "builders": mc_sc::builders::BOUNDS,
                "entry_paths": mc_sc::entry::BOUNDS,
                "logistic": logit::bounds(t, seed),
                "lbfgs_quadratics": quad::bounds(t),
            }),
        }
    }

    fn run(&self, job: &Job) {
        if job.kind() == "entry" {
            return mc_sc::entry::run_part("C09", job.u("part"));
        }
        match job.kind() {
            "quad" => quad::run(job),
            "multiset" | "sequence" | "structured" => logit::run(job),
            "builders" => mc_sc::builders::run("C09"),
            other => panic!("unknown job kind {}", other),
        }
    }

    fn cleanup(&self) {
        mc_sc::release_rng();
    }

    fn rule(&self) -> String {
        "one execution = one (training set, feature map, alpha, label table) fitted and predicted by the real LogisticRegression, or one (quadratic, start, optimum, line-search order) minimised by the real LBFGS; non-trivial = the optimiser left its starting point; distinct = distinct digest of the returned parameters (9 significant digits) and predictions / of the returned minimiser and iteration count".into()
    }

    fn assumptions(&self) -> Vec<String> {
        vec![
            "f64 only; DenseMatrix backend only (other backends are C20's subject)".into(),
            "stationarity threshold: |grad|_inf at the returned parameters <= 1e-3 * max(|grad(0)|_inf, 1) for alpha >= 1e-2 (DESIGN C09)".into(),
            "the class <-> coefficient-row association is not part of the statement: any association under which all clauses hold is accepted (identity tried first)".into(),
            "quadratics are normalised to smallest eigenvalue 1, so the optimiser's absolute gradient tolerance 1e-8 cannot be the reason for a reduction of less than 1e-6".into(),
            "LBFGS::default() and Backtracking::default() with order SECOND and THIRD (the configuration logistic regression uses) — other parameter settings are not explored".into(),
            "no RNG is drawn on these paths (check_rng_sites at start-up; own_rng is not needed)".into(),
        ]
    }
}

fn main() {
    if let Err(e) = mc_sc::check_rng_sites() {
        eprintln!("MACHINERY-ERROR: {}", e);
        std::process::exit(2);
    }
    mc::main(C09)
}
