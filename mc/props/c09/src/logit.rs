//! LogisticRegression::{fit, predict, coefficients, intercept} on exhaustively enumerated small
//! training sets and a deterministic structured family, judged by the harness's own objective,
//! gradient and linear scores (refs.rs).

use crate::refs;
use mc_core::{self as mc, json, Job, Value};
use smartcore::linalg::naive::dense_matrix::DenseMatrix;
use smartcore::linalg::BaseMatrix;
use smartcore::linear::logistic_regression::{LogisticRegression, LogisticRegressionParameters};
use smartcore::verif_hooks::{Backtracking, FirstOrderOptimizer, FunctionOrder, LBFGS};
use std::cell::RefCell;

pub const SIGMA4: [f64; 4] = [0.0, 1.0, -1.0, 2.0];
pub const LATTICE2: [[f64; 2]; 4] = [[0.0, 0.0], [1.0, 0.0], [0.0, 1.0], [1.0, 1.0]];
/// feature maps x -> a x + b
/// (the last one: a large common offset relative to the spread, still inside the quantifier's
/// "scaled 1e-1..1e2 and shifted")
/// maps 4..: the round-2 "saturated scores" family — scale 100 with no / large offsets, so that the
/// optimiser's trial points and iterates have linear scores far beyond +-40, where the library's
/// sigmoid and ln(1+e^s) switch to their saturated branches (thorough: offsets +-600 as well)
pub const MAPS: [(f64, f64); 9] = [(1.0, 0.0), (0.1, 3.0), (100.0, -50.0), (60.0, 550.0), (100.0, 0.0), (100.0, 300.0), (100.0, -300.0), (100.0, 600.0), (100.0, -600.0)];
/// the maps every member of the round-1 structured family is enumerated under
const N_STRUCT_MAPS: usize = 4;
const SAT_MAPS_QUICK: [usize; 3] = [4, 5, 6];
const SAT_MAPS_THOROUGH: [usize; 5] = [4, 5, 6, 7, 8];
/// indices into ALPHAS used by the saturated family (1, 1e-2, 10)
const SAT_ALPHAS: [usize; 3] = [0, 1, 2];
/// |linear score| beyond which the library's sigmoid returns exactly 0 / 1
pub const SATURATION: f64 = 40.0;
/// alpha = 0 takes part in the monotonicity and prediction clauses only
pub const ALPHAS: [f64; 4] = [1.0, 1e-2, 10.0, 0.0];
/// the "ugly" label table: negative, non-contiguous, non-integer, not monotone in the letter
/// (round 6: non-dyadic values of mixed sign and magnitude, for which a + (b - a) != b in
/// floating point — a label must come back bit for bit, not recomputed)
pub const UGLY: [f64; 4] = [-0.7, 0.35, 36.6, -273.15];

pub const STATIONARITY: f64 = 1e-3;
const MONO_RTOL: f64 = 1e-12;
const TIE: f64 = 1e-9;

pub struct Case {
    pub raw: Vec<Vec<f64>>,
    pub letters: Vec<usize>,
    pub queries_raw: Vec<Vec<f64>>,
    pub map: (f64, f64),
    pub alpha: f64,
    pub ugly: bool,
    pub shift: f64,
    pub family: &'static str,
}

fn binom(n: usize, k: usize) -> u64 {
    let mut r = 1u64;
    for i in 0..k {
        r = r * (n - i) as u64 / (i + 1) as u64;
    }
    r
}

// ------------------------------------------------------------------------------------------------
// plan
// ------------------------------------------------------------------------------------------------

/// One exhaustively enumerated block of small training sets: every multiset (or sequence) of n
/// letters (x, label) with x from the first `nx` alphabet entries and `kl` label letters, under
/// every listed (map, alpha, ugly-label-table) combination.
struct Block {
    kind: &'static str,
    p: usize,
    kl: usize,
    n: usize,
    nx: usize,
    combos: Vec<(usize, usize, bool)>,
    /// member of the round-2 saturated-scores family (two classes; saturation diagnostics computed)
    sat: bool,
}

fn combos(maps: &[usize], alphas: &[usize], ugly: bool) -> Vec<(usize, usize, bool)> {
    let mut v = Vec::new();
    for &m in maps {
        for &a in alphas {
            v.push((m, a, ugly));
        }
    }
    v
}

fn sat_maps(t: bool) -> &'static [usize] {
    if t {
        &SAT_MAPS_THOROUGH
    } else {
        &SAT_MAPS_QUICK
    }
}

fn sat_struct_n(t: bool) -> &'static [usize] {
    if t {
        &[12, 25, 50, 100]
    } else {
        &[12, 25]
    }
}

fn blocks(t: bool) -> Vec<Block> {
    let (am, aa) = ([0usize, 1, 2], [0usize, 1, 2, 3]);
    let std = |maps: &[usize], alphas: &[usize]| -> Vec<(usize, usize, bool)> {
        // plain labels under everything; the ugly label table under alpha = 1 (quick) / everything (thorough)
        let mut v = combos(maps, alphas, false);
        v.extend(combos(maps, if t { alphas } else { &[0] }, true));
        v
    };
    let mut v = vec![
        // permutation-sensitivity control: all orders of 4 letters
        Block { kind: "sequence", p: 1, kl: 2, n: 4, nx: 4, combos: combos(&am, &[0, 3], false), sat: false },
        Block { kind: "sequence", p: 1, kl: 3, n: 4, nx: 4, combos: combos(&[0, 2], &[0], false), sat: false },
        Block { kind: "multiset", p: 1, kl: 2, n: 6, nx: 4, combos: std(&am, &aa), sat: false },
        Block { kind: "multiset", p: 2, kl: 2, n: 6, nx: 4, combos: std(&am, &aa), sat: false },
        Block { kind: "multiset", p: 1, kl: 3, n: 6, nx: 4, combos: std(&am, &aa), sat: false },
        Block { kind: "multiset", p: 2, kl: 3, n: 6, nx: 4, combos: if t { std(&am, &aa) } else { std(&[0, 2], &aa) }, sat: false },
        Block { kind: "multiset", p: 1, kl: 4, n: 6, nx: 3, combos: if t { std(&am, &aa) } else { std(&[0, 2], &[0, 1, 3]) }, sat: false },
        // large offset relative to the spread
        Block { kind: "multiset", p: 1, kl: 2, n: 6, nx: 4, combos: combos(&[3], &aa, false), sat: false },
        Block { kind: "multiset", p: 2, kl: 2, n: 6, nx: 4, combos: combos(&[3], &[0, 2], false), sat: false },
        Block { kind: "multiset", p: 1, kl: 3, n: 6, nx: 4, combos: combos(&[3], &[0, 2], false), sat: false },
        // round 2: saturated scores (two classes, scale 100, no / large offsets, alpha > 0)
        Block { kind: "multiset", p: 1, kl: 2, n: 6, nx: 4, combos: combos(sat_maps(t), &SAT_ALPHAS, false), sat: true },
        Block { kind: "multiset", p: 2, kl: 2, n: 6, nx: 4, combos: combos(sat_maps(t), &SAT_ALPHAS, false), sat: true },
    ];
    if t {
        v.push(Block { kind: "multiset", p: 1, kl: 2, n: 6, nx: 4, combos: combos(sat_maps(t), &SAT_ALPHAS, true), sat: true });
        v.push(Block { kind: "multiset", p: 2, kl: 2, n: 6, nx: 4, combos: combos(sat_maps(t), &SAT_ALPHAS, true), sat: true });
        v.push(Block { kind: "multiset", p: 1, kl: 2, n: 8, nx: 4, combos: combos(sat_maps(t), &SAT_ALPHAS, false), sat: true });
        v.push(Block { kind: "multiset", p: 2, kl: 2, n: 8, nx: 4, combos: combos(sat_maps(t), &SAT_ALPHAS, false), sat: true });
        v.push(Block { kind: "sequence", p: 1, kl: 2, n: 6, nx: 4, combos: combos(&SAT_MAPS_QUICK, &SAT_ALPHAS, false), sat: true });
        v.push(Block { kind: "multiset", p: 1, kl: 4, n: 6, nx: 4, combos: std(&am, &aa), sat: false });
        v.push(Block { kind: "multiset", p: 2, kl: 4, n: 6, nx: 4, combos: combos(&[0, 2], &aa, false), sat: false });
        v.push(Block { kind: "multiset", p: 1, kl: 2, n: 8, nx: 4, combos: std(&am, &aa), sat: false });
        v.push(Block { kind: "multiset", p: 2, kl: 2, n: 8, nx: 4, combos: std(&am, &aa), sat: false });
        v.push(Block { kind: "multiset", p: 1, kl: 3, n: 8, nx: 4, combos: combos(&am, &aa, false), sat: false });
        v.push(Block { kind: "multiset", p: 2, kl: 3, n: 7, nx: 4, combos: combos(&am, &aa, false), sat: false });
        v.push(Block { kind: "sequence", p: 1, kl: 2, n: 6, nx: 4, combos: combos(&am, &aa, false), sat: false });
        v.push(Block { kind: "sequence", p: 2, kl: 2, n: 6, nx: 4, combos: combos(&am, &aa, false), sat: false });
        v.push(Block { kind: "sequence", p: 1, kl: 3, n: 6, nx: 4, combos: combos(&am, &[0, 1, 3], false), sat: false });
        v.push(Block { kind: "sequence", p: 2, kl: 3, n: 6, nx: 4, combos: combos(&[2], &[0, 3], false), sat: false });
        v.push(Block { kind: "sequence", p: 1, kl: 2, n: 7, nx: 4, combos: combos(&am, &[0, 3], false), sat: false });
    }
    v
}

impl Block {
    fn training_sets(&self) -> u64 {
        let nl = self.nx * self.kl;
        if self.kind == "multiset" {
            binom(nl + self.n - 1, self.n)
        } else {
            (nl as u64).pow(self.n as u32)
        }
    }
    fn jobs(&self, seed: u64, out: &mut Vec<Job>) {
        let nl = self.nx * self.kl;
        // blocks of more than ~30 k training sets are cut by their first letter
        let firsts: Vec<usize> = if self.training_sets() > 30_000 { (0..nl).collect() } else { vec![NO_FIRST] };
        for &(m, a, ugly) in &self.combos {
            for &first in &firsts {
                out.push(Job::new(
                    format!("{}-p{}-k{}-n{}-nx{}-map{}-alpha{}-{}-first{}", match (self.sat, self.kind) { (false, k) => k, (true, "multiset") => "saturated-lattice-mset", _ => "saturated-lattice-seq" }, self.p, self.kl, self.n, self.nx, m, ALPHAS[a], if ugly { "ugly" } else { "plain" }, if first == NO_FIRST { "any".to_string() } else { first.to_string() }),
                    json!({"kind": self.kind, "p": self.p, "kl": self.kl, "n": self.n, "nx": self.nx, "map": m, "alpha": a, "ugly": ugly, "first": first, "seed": seed, "sat": self.sat}),
                ));
            }
        }
    }
}

const NO_FIRST: usize = 999;
const STRUCT_N: [usize; 5] = [6, 12, 25, 50, 100];
/// "one-/two-contradicting": the separable labelling with exactly one / two samples carrying the
/// next class's label (nearly separable data, round 5)
/// "clusters-m": k tight, well separated clusters (class = i mod k) of which the first m samples carry
/// the next cluster's label
const LAYOUTS: [&str; 8] = ["cyclic", "separable", "noisy", "one-contradicting", "two-contradicting", "clusters-0", "clusters-1", "clusters-2"];
/// round 2, two classes only: n - m samples of class 0 and m = 1..3 of class 1 — the m samples with
/// the largest projection t ("lopsided-extreme": separable) or the m samples at the median of t
/// ("lopsided-interior": overlapping, the minority is misclassified at the optimum). With n >= 58
/// the starting objective n ln 2 exceeds 40, so the Armijo test can accept an iterate at which a
/// misclassified sample has |score| > 40.
const LOPSIDED: [&str; 2] = ["lopsided-extreme", "lopsided-interior"];
fn lopsided_n(t: bool) -> &'static [usize] {
    if t {
        &[58, 60, 70, 80, 90, 100]
    } else {
        &[60, 100]
    }
}
fn lopsided_m(t: bool) -> usize {
    if t {
        5
    } else {
        3
    }
}

pub fn plan(t: bool, seed: u64, jobs: &mut Vec<Job>) {
    let bl = blocks(t);
    for b in bl.iter().filter(|b| b.n <= 6 && b.kind == "multiset" || b.n == 4) {
        b.jobs(seed, jobs);
    }
    for &n in &STRUCT_N {
        for p in 1..=6usize {
            for k in 2..=4usize {
                for (li, l) in LAYOUTS.iter().enumerate() {
                    jobs.push(Job::new(format!("structured-n{}-p{}-k{}-{}", n, p, k, l), json!({"kind": "structured", "n": n, "p": p, "k": k, "layout": li, "seed": seed})));
                }
            }
        }
    }
    for &n in sat_struct_n(t) {
        for p in 1..=6usize {
            for (li, l) in LAYOUTS.iter().enumerate().take(3) {
                jobs.push(Job::new(format!("saturated-formula-n{}-p{}-k2-{}", n, p, l), json!({"kind": "structured", "n": n, "p": p, "k": 2, "layout": li, "seed": seed, "sat": true, "thorough": t})));
            }
        }
    }
    for &n in lopsided_n(t) {
        for p in 1..=6usize {
            for (li, l) in LOPSIDED.iter().enumerate() {
                for m in 1..=lopsided_m(t) {
                    jobs.push(Job::new(
                        format!("saturated-formula-n{}-p{}-k2-{}-m{}", n, p, l, m),
                        json!({"kind": "structured", "n": n, "p": p, "k": 2, "layout": LAYOUTS.len() + li, "minority": m, "seed": seed, "sat": true, "thorough": t}),
                    ));
                }
            }
        }
    }
    for b in bl.iter().filter(|b| !(b.n <= 6 && b.kind == "multiset" || b.n == 4)) {
        b.jobs(seed, jobs);
    }
}

pub fn floors(t: bool) -> Vec<(&'static str, u64)> {
    let s = if t { 10 } else { 1 };
    vec![
        ("fit_two_classes", 20_000 * s),
        ("fit_three_or_more_classes", 20_000 * s),
        ("fit_four_classes", 1000),
        ("fit_alpha0_monotonicity_only", 5000 * s),
        ("layout_linearly_separable(training accuracy 100%)", 5000 * s),
        ("layout_overlapping(same x, different labels)", 5000 * s),
        ("labels_ugly_table", 10_000 * s),
        ("labels_skip_a_letter(non-contiguous class subset)", 1000 * s),
        ("stationarity_checked", 30_000 * s),
        ("stopped_above_g_atol(zero-f-change rule)", 100),
        ("predictions_checked", 300_000 * s),
        ("prediction_near_tie_skipped", 10),
        ("intercept_nonzero", 10_000 * s),
        ("structured_fit", 2000),
        ("single_class_outside_domain", 10),
        // round 2: the saturated-scores family (two classes, scale-100 maps with no / large offsets)
        ("saturated_family_fit", 25_000 * s),
        ("saturated_overlapping(same x, different labels)", 10_000 * s),
        // some misclassified training sample has |score| > 40 at the returned parameters, or at a
        // point the first line search (from zero along -grad) evaluates, accepted iterate included
        ("saturated_misclassified_|score|>40(at the result or on the way to the first accepted iterate)", 15_000 * s),
        // ... at the returned parameters or AT the first accepted iterate (needs n ln 2 > 40: the lopsided sets)
        ("saturated_misclassified_|score|>40(at the result or AT the first accepted iterate)", 40),
        ("saturated_misclassified_score>+40_at_first_accepted_iterate(reference run)", 20),
        ("saturated_misclassified_score<-40_at_first_accepted_iterate(reference run)", 20),
        ("saturated_some_|score|>40_at_an_accepted_iterate(reference run)", 1500 * s),
        ("saturated_some_|score|>40_at_result", 500 * s),
        ("saturated_reference_run_ends_where_fit_does(1e-6)", 15_000 * s),
    ]
}

pub fn bounds(t: bool, seed: u64) -> Value {
    let bl: Vec<Value> = blocks(t)
        .iter()
        .map(|b| {
            json!({"enumerated_as": b.kind, "p": b.p, "label_letters": b.kl, "n": b.n, "x_letters": b.nx, "training_sets": b.training_sets(),
                   "(map,alpha,label_table)": b.combos.iter().map(|(m, a, u)| format!("{:?}/{}/{}", MAPS[*m], ALPHAS[*a], if *u { "ugly" } else { "plain" })).collect::<Vec<_>>()})
        })
        .collect();
    json!({
        "x_alphabet": "p=1: {0,1,-1,2} (first x_letters of it); p=2: the 2x2 lattice {0,1}^2; raw values shifted by (seed%8)/4, then mapped by a*x+b",
        "maps": MAPS.iter().map(|m| format!("{:?}", m)).collect::<Vec<_>>(),
        "seed_shift": (seed % 8) as f64 * 0.25,
        "label_tables": "plain: letter c -> c; ugly: letter c -> {-0.7, 0.35, 36.6, -273.15}[c] (non-dyadic, mixed sign)",
        "blocks": bl,
        "structured": format!("n in {:?} x p in 1..6 x k in 2..4 x layouts {:?} x 4 maps (the first 4) x 4 alphas x 2 label tables", STRUCT_N, LAYOUTS),
        "saturated_scores_family(round 2)": {
            "what": "two-class sets on which the optimiser evaluates points with |linear score| > 40 (the library's sigmoid returns exactly 0/1 there, its ln_1pe returns s above 15); same oracle as everything else (stationarity, monotonicity, predictions)",
            "maps": sat_maps(t).iter().map(|m| format!("{:?}", MAPS[*m])).collect::<Vec<_>>(),
            "alphas": SAT_ALPHAS.iter().map(|a| ALPHAS[*a]).collect::<Vec<_>>(),
            "lattice": "the blocks above whose (map,alpha,label_table) use these maps: every multiset of n = 6 letters, p = 1 (x in {0,1,-1,2}) and p = 2 ({0,1}^2), 2 label letters, plain labels (thorough: also the ugly table, n = 8 multisets and every p = 1 sequence of 6 letters)",
            "formula_sets": format!("the structured family's features with k = 2: n in {:?} x p in 1..6 x layouts {:?} x maps x alphas x 2 label tables", sat_struct_n(t), &LAYOUTS[..3]),
            "lopsided_sets": format!("the same features, n in {:?} x p in 1..6: m in 1..{} samples of one class (the m largest projections t = 'lopsided-extreme', separable; the m at the median of t = 'lopsided-interior', overlapping), all others of the other class, both assignments of the two labels, x maps x alphas x 2 label tables; n ln 2 > 40, so an accepted iterate can have a misclassified sample with |score| > 40", lopsided_n(t), lopsided_m(t)),
            "non_vacuity": "scores are recomputed in the harness at the returned parameters and at every point evaluated by a reference run of the real LBFGS + Backtracking(THIRD) on the harness's own objective (counters saturated_*; floors in Plan::floors)",
        },
        "queries": "the training rows plus 3 off-lattice points (structured: plus the negated training rows shifted by -1/2)",
    })
}

// ------------------------------------------------------------------------------------------------
// decoding
// ------------------------------------------------------------------------------------------------

fn letter_row(p: usize, xi: usize) -> Vec<f64> {
    if p == 1 {
        vec![SIGMA4[xi]]
    } else {
        LATTICE2[xi].to_vec()
    }
}

fn small_queries(p: usize) -> Vec<Vec<f64>> {
    if p == 1 {
        vec![vec![-2.0], vec![0.5], vec![3.0]]
    } else {
        vec![vec![-1.0, 2.0], vec![0.5, 0.5], vec![2.0, -1.0]]
    }
}

/// The raw features of the structured family with the lopsided two-class labelling (see LOPSIDED).
pub fn lopsided_data(n: usize, p: usize, layout: usize, m: usize) -> (Vec<Vec<f64>>, Vec<usize>) {
    let (raw, _) = structured_data(n, p, 2, 0);
    let t: Vec<i64> = raw.iter().map(|r| r.iter().enumerate().map(|(j, v)| (j as i64 + 1) * (if j % 2 == 0 { 1 } else { -1 }) * (*v as i64)).sum()).collect();
    // stable order by (t, index)
    let mut order: Vec<usize> = (0..n).collect();
    order.sort_by_key(|&i| (t[i], i));
    let chosen: Vec<usize> = match LOPSIDED[layout] {
        "lopsided-extreme" => order[n - m..].to_vec(),
        "lopsided-interior" => order[n / 2..n / 2 + m].to_vec(),
        _ => unreachable!(),
    };
    let letters: Vec<usize> = (0..n).map(|i| if chosen.contains(&i) { 1 } else { 0 }).collect();
    (raw, letters)
}

pub fn structured_data(n: usize, p: usize, k: usize, layout: usize) -> (Vec<Vec<f64>>, Vec<usize>) {
    if LAYOUTS[layout].starts_with("clusters-") {
        let m: usize = LAYOUTS[layout]["clusters-".len()..].parse().unwrap();
        const CENTRE: [f64; 4] = [0.0, 6.0, -5.0, 3.0];
        let raw: Vec<Vec<f64>> = (0..n).map(|i| (0..p).map(|j| CENTRE[(i % k + 2 * j) % 4] + (((i / k) * (2 * j + 3) + j) % 5) as f64 * 0.25 - 0.5).collect()).collect();
        let letters: Vec<usize> = (0..n).map(|i| if i < m { (i % k + 1) % k } else { i % k }).collect();
        return (raw, letters);
    }
    let raw: Vec<Vec<f64>> = (0..n).map(|i| (0..p).map(|j| ((i * (2 * j + 3) + j * j + (i * i) / (j + 1)) % 9) as f64 - 4.0).collect()).collect();
    let t: Vec<i64> = raw.iter().map(|r| r.iter().enumerate().map(|(j, v)| (j as i64 + 1) * (if j % 2 == 0 { 1 } else { -1 }) * (*v as i64)).sum()).collect();
    let mut uniq = t.clone();
    uniq.sort_unstable();
    uniq.dedup();
    let sep = |i: usize| -> usize {
        let r = uniq.binary_search(&t[i]).unwrap();
        (r * k / uniq.len()).min(k - 1)
    };
    let letters: Vec<usize> = (0..n)
        .map(|i| match LAYOUTS[layout] {
            "cyclic" => i % k,
            "separable" => sep(i),
            "noisy" => {
                if i % 5 == 2 {
                    (sep(i) + 1) % k
                } else {
                    sep(i)
                }
            }
            "one-contradicting" => {
                if i == n / 2 {
                    (sep(i) + 1) % k
                } else {
                    sep(i)
                }
            }
            "two-contradicting" => {
                if i == n / 2 || i == n / 3 {
                    (sep(i) + 1) % k
                } else {
                    sep(i)
                }
            }
            _ => unreachable!(),
        })
        .collect();
    (raw, letters)
}

pub fn run(job: &Job) {
    let seed = job.params["seed"].as_u64().unwrap_or(0);
    let shift = (seed % 8) as f64 * 0.25;
    match job.kind() {
        "multiset" | "sequence" => {
            let (p, kl, n) = (job.u("p"), job.u("kl"), job.u("n"));
            let nl = job.u("nx") * kl;
            let first = job.u("first");
            let multiset = job.kind() == "multiset";
            let mut letters: Vec<usize> = Vec::with_capacity(n);
            if first < nl {
                letters.push(first);
            }
            while letters.len() < n {
                let lo = if multiset { letters.last().copied().unwrap_or(0) } else { 0 };
                letters.push(lo + mc::choose(nl - lo));
            }
            let ugly = job.b("ugly");
            let c = Case {
                raw: letters.iter().map(|l| letter_row(p, l / kl)).collect(),
                letters: letters.iter().map(|l| l % kl).collect(),
                queries_raw: small_queries(p),
                map: MAPS[job.u("map")],
                alpha: ALPHAS[job.u("alpha")],
                ugly,
                shift,
                family: match (job.b("sat"), multiset) {
                    (false, true) => "multiset",
                    (false, false) => "sequence",
                    (true, true) => "saturated-multiset",
                    (true, false) => "saturated-sequence",
                },
            };
            fit_case(&c);
        }
        "structured" => {
            let (n, p, k, layout) = (job.u("n"), job.u("p"), job.u("k"), job.u("layout"));
            let sat = job.b("sat");
            let (map, alpha) = if sat {
                let sm = sat_maps(job.b("thorough"));
                (MAPS[sm[mc::choose(sm.len())]], ALPHAS[SAT_ALPHAS[mc::choose(SAT_ALPHAS.len())]])
            } else {
                (MAPS[mc::choose(N_STRUCT_MAPS)], ALPHAS[mc::choose(ALPHAS.len())])
            };
            let ugly = mc::choose(2) == 1;
            let (raw, letters) = if layout >= LAYOUTS.len() {
                // the minority is the class with the larger label (misclassified minority: s < 0) or,
                // mirrored, the one with the smaller label (s > 0)
                let mirrored = mc::choose(2) == 1;
                let (raw, l) = lopsided_data(n, p, layout - LAYOUTS.len(), job.u("minority"));
                (raw, l.iter().map(|&c| if mirrored { 1 - c } else { c }).collect())
            } else {
                structured_data(n, p, k, layout)
            };
            let queries_raw: Vec<Vec<f64>> = raw.iter().map(|r| r.iter().map(|v| -v - 0.5).collect()).collect();
            mc::count("structured_fit");
            fit_case(&Case { raw, letters, queries_raw, map, alpha, ugly, shift, family: if sat { "saturated-structured" } else { "structured" } });
        }
        _ => unreachable!(),
    }
}

// ------------------------------------------------------------------------------------------------
// one execution
// ------------------------------------------------------------------------------------------------

struct Judged {
    /// violated fit clauses (stationarity, monotonicity) / violated prediction clause
    viols: Vec<(String, String)>,
    pred_viols: Vec<(String, String)>,
    f_final: f64,
    ratio: f64,
    g_final: f64,
    g0: f64,
    f0: f64,
    train_correct: usize,
    ties: usize,
    checked: usize,
}

fn apply_map(raw: &[Vec<f64>], shift: f64, map: (f64, f64)) -> Vec<Vec<f64>> {
    raw.iter().map(|r| r.iter().map(|v| map.0 * (v + shift) + map.1).collect()).collect()
}

fn overlapping_rows(x: &[Vec<f64>], yi: &[usize]) -> bool {
    (0..x.len()).any(|i| (0..i).any(|j| x[i] == x[j] && yi[i] != yi[j]))
}

/// Largest |linear score| over all training rows and over the MISCLASSIFIED ones (score sign
/// against the label; class index `pos` plays "1") at the two-class parameters `w` = [w.., b].
fn score_extremes(x: &[Vec<f64>], yi: &[usize], pos: usize, w: &[f64]) -> (f64, f64, bool) {
    let p = w.len() - 1;
    let (mut any, mut mis, mut mis_positive) = (0.0f64, 0.0f64, false);
    for (row, &c) in x.iter().zip(yi) {
        let s: f64 = row.iter().zip(w).map(|(a, b)| a * b).sum::<f64>() + w[p];
        any = any.max(s.abs());
        if ((c == pos && s < 0.0) || (c != pos && s > 0.0)) && s.abs() > mis {
            mis = s.abs();
            mis_positive = s > 0.0;
        }
    }
    (any, mis, mis_positive)
}

/// Saturation diagnostics of one two-class fit (non-vacuity only — no verdict depends on them).
#[derive(Default, Clone, Debug)]
struct SatDiag {
    /// at the parameters the library returned
    any_at_result: f64,
    mis_at_result: f64,
    /// reference run: the real LBFGS + Backtracking(THIRD) (verif-hooks re-export; the optimiser
    /// and configuration `fit` uses) driven from zero on the harness's own objective (refs.rs) —
    /// the points it evaluates are the points `fit` evaluates up to the 3e-7 discontinuity of the
    /// library's ln_1pe
    first_search_trials: usize,
    mis_on_first_search: f64,
    any_at_first_accepted: f64,
    mis_at_first_accepted: f64,
    /// sign of the score of that misclassified sample
    mis_first_positive: bool,
    any_at_accepted: f64,
    mis_at_accepted: f64,
    mis_at_trial: f64,
    accepted: usize,
    iterations: usize,
    panicked: bool,
    /// the reference run ends within 1e-6 (relative to the largest parameter) of what `fit` returned
    agrees: bool,
}

fn saturation_diagnostics(x: &[Vec<f64>], yi: &[usize], pos: usize, alpha: f64, libw: &[f64]) -> SatDiag {
    let p = libw.len() - 1;
    let mut d = SatDiag::default();
    let (a, m, _) = score_extremes(x, yi, pos, libw);
    d.any_at_result = a;
    d.mis_at_result = m;
    // event log of the reference run: (is_df, point)
    let log: RefCell<Vec<(bool, Vec<f64>)>> = RefCell::new(Vec::new());
    let row = |m: &DenseMatrix<f64>| -> Vec<f64> { (0..=p).map(|j| m.get(0, j)).collect() };
    let f = |w: &DenseMatrix<f64>| -> f64 {
        let wv = row(w);
        let v = refs::binary_obj_grad(x, yi, pos, &wv, alpha).0;
        log.borrow_mut().push((false, wv));
        v
    };
    let df = |g: &mut DenseMatrix<f64>, w: &DenseMatrix<f64>| {
        let wv = row(w);
        let gv = refs::binary_obj_grad(x, yi, pos, &wv, alpha).1;
        for j in 0..=p {
            g.set(0, j, gv[j]);
        }
        log.borrow_mut().push((true, wv));
    };
    let x0 = DenseMatrix::from_2d_vec(&vec![vec![0.0; p + 1]]);
    let ls: Backtracking<f64> = Backtracking { order: FunctionOrder::THIRD, ..Default::default() };
    let opt: LBFGS<f64> = Default::default();
    match mc::guard(|| opt.optimize(&f, &df, &x0, &ls)) {
        Ok(r) => d.iterations = r.iterations,
        Err(_) => d.panicked = true,
    }
    let zero = vec![0.0; p + 1];
    if let Some((_, last)) = log.borrow().iter().rev().find(|(is_df, _)| *is_df) {
        let scale = libw.iter().fold(1.0f64, |m, v| m.max(v.abs()));
        d.agrees = last.iter().zip(libw).all(|(a, b)| (a - b).abs() <= 1e-6 * scale);
    }
    let mut last_df: Vec<f64> = Vec::new();
    for (is_df, w) in log.borrow().iter() {
        let (a, m, m_positive) = score_extremes(x, yi, pos, w);
        if *is_df {
            if *w != last_df {
                last_df = w.clone();
                if *w != zero {
                    d.accepted += 1;
                    if d.accepted == 1 {
                        d.any_at_first_accepted = a;
                        d.mis_at_first_accepted = m;
                        d.mis_first_positive = m_positive;
                    }
                    d.any_at_accepted = d.any_at_accepted.max(a);
                    d.mis_at_accepted = d.mis_at_accepted.max(m);
                }
            }
        } else {
            d.mis_at_trial = d.mis_at_trial.max(m);
            if d.accepted == 0 {
                // points of the first line search (from zero along -grad), the accepted one included
                if *w != zero {
                    d.first_search_trials += 1;
                }
                d.mis_on_first_search = d.mis_on_first_search.max(m);
            }
        }
    }
    d
}

pub fn fit_case(c: &Case) {
    let x = apply_map(&c.raw, c.shift, c.map);
    let xq: Vec<Vec<f64>> = x.iter().cloned().chain(apply_map(&c.queries_raw, c.shift, c.map)).collect();
    let y: Vec<f64> = c.letters.iter().map(|&l| if c.ugly { UGLY[l] } else { l as f64 }).collect();
    let mut classes = y.clone();
    classes.sort_by(|a, b| a.partial_cmp(b).unwrap());
    classes.dedup();
    let k = classes.len();
    let n = x.len();
    let p = x[0].len();
    let header = || format!("{} n={} p={} k={} alpha={} map={:?} x={:?} y={:?}", c.family, n, p, k, c.alpha, c.map, x, y);
    // input class used in site keys: magnitude of the (mapped) features
    let xclass = if x.iter().flatten().fold(0.0f64, |m, v| m.max(v.abs())) > 10.0 { "large-features" } else { "small-features" };
    let aclass = if c.alpha == 0.0 { "alpha=0" } else { "alpha>0" };
    if k < 2 {
        // outside the statement's domain ("at least two classes"); the library must still not hang
        mc::count("single_class_outside_domain");
        return;
    }
    let yi: Vec<usize> = y.iter().map(|v| classes.iter().position(|c| c == v).unwrap()).collect();

    let xm = DenseMatrix::from_2d_vec(&x);
    let params = LogisticRegressionParameters::default().with_alpha(c.alpha);
    let lr = match mc::guard(|| LogisticRegression::fit(&xm, &y, params)) {
        Err(pn) => {
            let suffix = if pn.is_overflow_check() { ":overflow-check" } else { "" };
            let class = if pn.msg.contains("Linesearch failed") { "linesearch-gave-up" } else { "other" };
            mc::violation(format!("logreg.fit:panic:{}:{}{}", class, aclass, suffix), format!("{}: {}", header(), pn.brief()));
            mc::describe(|| json!({"op": "LogisticRegression.fit", "x": x, "y": y, "alpha": c.alpha, "panic": pn.brief()}));
            return;
        }
        Ok(Err(e)) => {
            mc::violation("logreg.fit:error", format!("{}: fit returned Err({})", header(), e));
            return;
        }
        Ok(Ok(m)) => m,
    };
    let rows = if k == 2 { 1 } else { k };
    let (cs, is) = (lr.coefficients().shape(), lr.intercept().shape());
    if cs != (rows, p) || is != (rows, 1) {
        mc::violation("logreg.fit:parameter-shape", format!("{}: coefficients {:?}, intercept {:?}; expected ({},{}) and ({},1)", header(), cs, is, rows, p, rows));
        return;
    }
    // library parameters, one row per fitted weight vector: [w_1..w_p, intercept]
    let libw: Vec<Vec<f64>> = (0..rows).map(|r| (0..p).map(|j| lr.coefficients().get(r, j)).chain(std::iter::once(lr.intercept().get(r, 0))).collect()).collect();
    if libw.iter().flatten().any(|v| !v.is_finite()) {
        mc::violation(
            format!("logreg.fit:non-finite-parameters:{}:{}", if k == 2 { "binary" } else { "multiclass" }, xclass),
            format!("{}: returned parameters {:?}", header(), libw),
        );
        mc::describe(|| json!({"op": "LogisticRegression.fit", "x": x, "y": y, "alpha": c.alpha, "parameters": libw}));
        return;
    }
    let qm = DenseMatrix::from_2d_vec(&xq);
    let pred: Option<Vec<f64>> = match mc::guard(|| lr.predict(&qm)) {
        Err(pn) => {
            mc::violation("logreg.predict:panic", format!("{}: {}", header(), pn.brief()));
            None
        }
        Ok(Err(e)) => {
            mc::violation("logreg.predict:error", format!("{}: predict returned Err({})", header(), e));
            None
        }
        Ok(Ok(v)) => Some(v),
    };
    if let Some(pr) = &pred {
        if pr.len() != xq.len() {
            mc::violation("logreg.predict:length", format!("{}: {} predictions for {} rows", header(), pr.len(), xq.len()));
        }
        for (i, v) in pr.iter().enumerate() {
            if !classes.iter().any(|c| c.to_bits() == v.to_bits()) {
                mc::violation("logreg.predict:label-not-a-training-label", format!("{}: prediction {} for query row {} {:?} is not one of the training labels {:?}", header(), v, i, xq.get(i), classes));
                break;
            }
        }
    }
    let pred = pred.filter(|p| p.len() == xq.len());

    // judge under a class <-> row association; identity (sorted labels, larger label = sigmoid's "1") first
    let model = if k == 2 { "binary" } else { "multiclass" };
    // input class: at the returned parameters, does some training row have a negative score whose
    // magnitude exceeds the largest score by more than 690? (then exp(s - max|s|) underflows for
    // EVERY class, the situation in which softmax_mut loses all precision)
    let dominated = k > 2
        && x.iter().any(|row| {
            let s: Vec<f64> = libw.iter().map(|w| row.iter().zip(w).map(|(a, b)| a * b).sum::<f64>() + w[p]).collect();
            let mx = s.iter().cloned().fold(f64::NEG_INFINITY, f64::max);
            let ma = s.iter().fold(0.0f64, |m, v| m.max(v.abs()));
            ma - mx > 690.0
        });
    // input class (two classes): at the returned parameters some training row has a linear score
    // 15 < s <= 15.5, i.e. just past the point where the library's ln_1pe switches to "s" and drops
    // the exp(-s) term of the objective (a downward jump of 3e-7 at s = 15) while its sigmoid, i.e.
    // the gradient, is still exact: the optimiser can get stuck on that spurious step (round 2,
    // defect D5; the two instances found have s = 15.00000000002 and s = 15.31)
    let ln1pe_zone = k == 2
        && x.iter().any(|row| {
            let s = row.iter().zip(&libw[0]).map(|(a, b)| a * b).sum::<f64>() + libw[0][p];
            s > 15.0 && s <= 15.5
        });
    let judge = |perm: &[usize]| -> Judged {
        let mut viols = Vec::new();
        let mut pred_viols = Vec::new();
        // w_class[perm[r]] = libw[r]; binary: the single row describes class perm[1]
        let (f_final, g, f0, g0v): (f64, Vec<Vec<f64>>, f64, Vec<Vec<f64>>) = if k == 2 {
            let (f, g) = refs::binary_obj_grad(&x, &yi, perm[1], &libw[0], c.alpha);
            let (f0, g0) = refs::binary_obj_grad(&x, &yi, perm[1], &vec![0.0; p + 1], c.alpha);
            (f, vec![g], f0, vec![g0])
        } else {
            let mut w = vec![Vec::new(); k];
            for r in 0..k {
                w[perm[r]] = libw[r].clone();
            }
            let (f, g) = refs::softmax_obj_grad(&x, &yi, &w, c.alpha);
            let (f0, g0) = refs::softmax_obj_grad(&x, &yi, &vec![vec![0.0; p + 1]; k], c.alpha);
            (f, g, f0, g0)
        };
        let (gn, g0n) = (refs::inf_norm(&g), refs::inf_norm(&g0v));
        let ratio = gn / g0n.max(1.0);
        if c.alpha > 0.0 && !(ratio <= STATIONARITY) {
            let (_, j) = refs::arg_inf_norm(&g);
            let comp = if gn.is_nan() { "nan" } else if j == p { "intercept-component" } else { "weight-component" };
            let comp = if dominated {
                "scores-dominated-by-a-negative-one"
            } else if ln1pe_zone {
                "score-just-past-ln_1pe-switch"
            } else {
                comp
            };
            viols.push((
                format!("logreg.fit:gradient-not-negligible:{}:{}:{}", model, xclass, comp),
                format!("{}: |grad|_inf = {:e} at the returned parameters {:?} vs {:e} at zero (ratio {:e} > {:e}); gradient {:?}", header(), gn, libw, g0n, ratio, STATIONARITY, g),
            ));
        }
        if !(f_final <= f0 * (1.0 + MONO_RTOL)) {
            viols.push((
                format!("logreg.fit:objective-above-start:{}:{}{}", model, xclass, if dominated { ":scores-dominated-by-a-negative-one" } else { "" }),
                format!("{}: objective {:e} at the returned parameters {:?} exceeds {:e} at the all-zero start", header(), f_final, libw, f0),
            ));
        }
        let (mut train_correct, mut ties, mut checked) = (0, 0, 0);
        if let Some(pr) = &pred {
            let mut bad: Option<String> = None;
            for (i, q) in xq.iter().enumerate() {
                let s: Vec<f64> = libw.iter().map(|w| q.iter().zip(w).map(|(a, b)| a * b).sum::<f64>() + w[p]).collect();
                let scale = s.iter().fold(1.0f64, |m, v| m.max(v.abs()));
                let want: Option<usize> = if k == 2 {
                    if s[0].abs() < TIE * scale {
                        None
                    } else if s[0] > 0.0 {
                        Some(perm[1])
                    } else {
                        Some(perm[0])
                    }
                } else {
                    let mut idx: Vec<usize> = (0..k).collect();
                    idx.sort_by(|a, b| s[*b].partial_cmp(&s[*a]).unwrap());
                    if s[idx[0]] - s[idx[1]] < TIE * scale {
                        None
                    } else {
                        Some(perm[idx[0]])
                    }
                };
                match want {
                    None => ties += 1,
                    Some(cl) => {
                        checked += 1;
                        if pr[i].to_bits() != classes[cl].to_bits() {
                            if bad.is_none() {
                                bad = Some(format!("query row {} {:?}: linear scores {:?} select label {} but predict returned {}", i, q, s, classes[cl], pr[i]));
                            }
                        } else if i < n && cl == yi[i] {
                            train_correct += 1;
                        }
                    }
                }
            }
            if let Some(b) = bad {
                pred_viols.push((format!("logreg.predict:not-argmax-of-scores:{}", model), format!("{}: parameters {:?}; {}", header(), libw, b)));
            }
        }
        Judged { viols, pred_viols, f_final, ratio, g_final: gn, g0: g0n, f0, train_correct, ties, checked }
    };

    // The class <-> row association is not part of the statement: the case passes if EVERY clause
    // holds under ONE association (identity = sorted labels first). Otherwise the violated clauses
    // are reported under the identity association if it satisfies at least one of the two clause
    // groups (fit clauses / prediction clause); else under the first association that satisfies
    // the fit clauses, else the first that satisfies the prediction clause, else identity.
    let ps = refs::perms(k);
    let mut verdict = judge(&ps[0]);
    let mut used = 0usize;
    if !(verdict.viols.is_empty() && verdict.pred_viols.is_empty()) {
        let all: Vec<Judged> = ps.iter().map(|perm| judge(perm)).collect();
        let pick = if let Some(i) = all.iter().position(|j| j.viols.is_empty() && j.pred_viols.is_empty()) {
            mc::count("association_other_than_sorted_labels_accepted");
            i
        } else if all[0].viols.is_empty() || all[0].pred_viols.is_empty() {
            0
        } else if let Some(i) = all.iter().position(|j| j.viols.is_empty()) {
            i
        } else {
            all.iter().position(|j| j.pred_viols.is_empty()).unwrap_or(0)
        };
        used = pick;
        verdict = all.into_iter().nth(pick).unwrap();
    }
    for (s, w) in verdict.viols.iter().chain(verdict.pred_viols.iter()) {
        mc::violation(s.clone(), w.clone());
    }

    // ---- round 2: saturation diagnostics of the saturated-scores family (non-vacuity only)
    let sat: Option<SatDiag> = if c.family.starts_with("saturated") && k == 2 { Some(saturation_diagnostics(&x, &yi, ps[used][1], c.alpha, &libw[0])) } else { None };
    if let Some(d) = &sat {
        mc::count("saturated_family_fit");
        if d.mis_at_result > SATURATION || d.mis_on_first_search > SATURATION {
            mc::count("saturated_misclassified_|score|>40(at the result or on the way to the first accepted iterate)");
        }
        if d.mis_at_result > SATURATION {
            mc::count("saturated_misclassified_|score|>40_at_result");
        }
        if d.mis_at_result > SATURATION || d.mis_at_first_accepted > SATURATION {
            mc::count("saturated_misclassified_|score|>40(at the result or AT the first accepted iterate)");
        }
        if d.mis_at_first_accepted > SATURATION {
            // s > 40 (true class "0") and s < -40 (true class "1") are different branches of the library's sigmoid
            mc::count(if d.mis_first_positive { "saturated_misclassified_score>+40_at_first_accepted_iterate(reference run)" } else { "saturated_misclassified_score<-40_at_first_accepted_iterate(reference run)" });
        }
        if d.any_at_result > SATURATION {
            mc::count("saturated_some_|score|>40_at_result");
        }
        if d.any_at_result > 15.0 {
            mc::count("saturated_some_|score|>15_at_result(ln_1pe switch)");
        }
        if d.mis_at_result > 15.0 {
            mc::count("saturated_misclassified_|score|>15_at_result(ln_1pe switch)");
        }
        if d.any_at_first_accepted > SATURATION {
            mc::count("saturated_some_|score|>40_at_first_accepted_iterate(reference run)");
        }
        if d.any_at_accepted > SATURATION {
            mc::count("saturated_some_|score|>40_at_an_accepted_iterate(reference run)");
        }
        if d.mis_at_accepted > 15.0 {
            mc::count("saturated_misclassified_|score|>15_at_an_accepted_iterate(reference run)");
        }
        if d.mis_at_accepted > SATURATION {
            mc::count("saturated_misclassified_|score|>40_at_an_accepted_iterate(reference run)");
        }
        if d.mis_at_accepted > SATURATION && c.letters.len() < 58 {
            // impossible while the Armijo test sees the true objective: f(iterate) <= n ln 2 < 40
            mc::count("saturated_misclassified_|score|>40_at_an_accepted_iterate_with_n<58(reference run)");
        }
        if d.first_search_trials >= 3 {
            mc::count("saturated_first_line_search_backtracked_twice_or_more(reference run)");
        }
        if d.panicked {
            mc::count("saturated_reference_run_panicked");
        }
        if d.agrees {
            mc::count("saturated_reference_run_ends_where_fit_does(1e-6)");
        }
        if d.iterations > 30 {
            mc::count("saturated_reference_run_more_than_30_iterations");
        }
        if d.iterations > 100 {
            mc::count("saturated_reference_run_more_than_100_iterations");
        }
        if overlapping_rows(&x, &yi) {
            mc::count("saturated_overlapping(same x, different labels)");
        }
    }

    // ---- counters (non-vacuity, calibration)
    mc::count(if k == 2 { "fit_two_classes" } else { "fit_three_or_more_classes" });
    if k == 4 {
        mc::count("fit_four_classes");
    }
    if c.ugly {
        mc::count("labels_ugly_table");
    }
    {
        let mut ls: Vec<usize> = c.letters.clone();
        ls.sort_unstable();
        ls.dedup();
        if *ls.last().unwrap() + 1 != ls.len() {
            mc::count("labels_skip_a_letter(non-contiguous class subset)");
        }
    }
    if c.alpha == 0.0 {
        mc::count("fit_alpha0_monotonicity_only");
    } else {
        mc::count("stationarity_checked");
        let small = xclass == "small-features";
        let r = verdict.ratio;
        mc::count(match (small, r <= 1e-8, r <= 1e-6, r <= 1e-5, r <= 1e-4, r <= 1e-3) {
            (true, true, ..) => "stationarity_small_features_ratio<=1e-8",
            (true, _, true, ..) => "stationarity_small_features_ratio<=1e-6",
            (true, _, _, true, ..) => "stationarity_small_features_ratio<=1e-5",
            (true, _, _, _, true, _) => "stationarity_small_features_ratio<=1e-4",
            (true, _, _, _, _, true) => "stationarity_small_features_ratio<=1e-3",
            (true, ..) => "stationarity_small_features_ratio>1e-3",
            (false, true, ..) => "stationarity_large_features_ratio<=1e-8",
            (false, _, true, ..) => "stationarity_large_features_ratio<=1e-6",
            (false, _, _, true, ..) => "stationarity_large_features_ratio<=1e-5",
            (false, _, _, _, true, _) => "stationarity_large_features_ratio<=1e-4",
            (false, _, _, _, _, true) => "stationarity_large_features_ratio<=1e-3",
            (false, ..) => "stationarity_large_features_ratio>1e-3",
        });
    }
    if verdict.g_final > 1e-8 {
        mc::count("stopped_above_g_atol(zero-f-change rule)");
    }
    if verdict.train_correct == n {
        mc::count("layout_linearly_separable(training accuracy 100%)");
    }
    if overlapping_rows(&x, &yi) {
        mc::count("layout_overlapping(same x, different labels)");
    }
    mc::count_n("predictions_checked", verdict.checked as u64);
    mc::count_n("prediction_near_tie_skipped", verdict.ties as u64);
    if libw.iter().any(|w| w[p] != 0.0) {
        mc::count("intercept_nonzero");
    }
    if libw.iter().flatten().any(|v| *v != 0.0) {
        mc::nontrivial();
    }
    let flat: Vec<f64> = libw.iter().flatten().cloned().collect();
    mc::outcome(mc::hash::h_f64s_rounded(&flat, 9));
    if let Some(pr) = &pred {
        mc::outcome(mc::hash::h_f64s(pr));
    }
    mc::describe(|| {
        json!({"op": "LogisticRegression.fit+predict", "family": c.family, "x": x, "y": y, "classes": classes, "alpha": c.alpha, "map": [c.map.0, c.map.1],
               "parameters_rows=[w..,intercept]": libw, "association_used": ps[used], "objective_at_zero": verdict.f0, "objective_at_result": verdict.f_final,
               "grad_inf_at_zero": verdict.g0, "grad_inf_at_result": verdict.g_final, "ratio": verdict.ratio,
               "queries": xq, "predictions": pred, "predictions_checked": verdict.checked, "near_ties_skipped": verdict.ties,
               "saturation_diagnostics": sat.as_ref().map(|d| format!("{:?}", d))})
    });
}
