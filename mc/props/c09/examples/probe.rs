use smartcore::linalg::naive::dense_matrix::DenseMatrix;
use smartcore::linalg::BaseMatrix;
use smartcore::linear::logistic_regression::{LogisticRegression, LogisticRegressionParameters};
use smartcore::verif_hooks::{Backtracking, FirstOrderOptimizer, FunctionOrder, LBFGS};
use smartcore::math::num::RealNumber;
use std::cell::RefCell;

fn log1pexp(s: f64) -> f64 { s.max(0.0) + (-s.abs()).exp().ln_1p() }
fn sigmoid(s: f64) -> f64 { if s >= 0.0 { 1.0 / (1.0 + (-s).exp()) } else { let e = s.exp(); e / (1.0 + e) } }

fn og(x: &[f64], y: &[f64], w: &[f64], alpha: f64, lib: bool) -> (f64, [f64; 2]) {
    let (mut f, mut g) = (0.0, [0.0; 2]);
    for (xi, yi) in x.iter().zip(y) {
        let s = xi * w[0] + w[1];
        f += if lib { s.ln_1pe() } else { log1pexp(s) } - yi * s;
        let d = if lib { s.sigmoid() } else { sigmoid(s) } - yi;
        g[0] += d * xi;
        g[1] += d;
    }
    f += 0.5 * alpha * w[0] * w[0];
    g[0] += alpha * w[0];
    (f, g)
}

fn main() {
    let x = [-300.0, -200.0, -200.0, -400.0, -400.0, -400.0, -400.0, -100.0];
    let y = [1.0, 1.0, 1.0, 0.0, 0.0, 0.0, 1.0, 1.0];
    let alpha = 1.0;
    let xm = DenseMatrix::from_2d_vec(&x.iter().map(|v| vec![*v]).collect::<Vec<_>>());
    let lr = LogisticRegression::fit(&xm, &y.to_vec(), LogisticRegressionParameters::default().with_alpha(alpha)).unwrap();
    let w = [lr.coefficients().get(0, 0), lr.intercept().get(0, 0)];
    println!("library fit: w={:?} ref f,g={:?}", w, og(&x, &y, &w, alpha, false));
    for lib in [true, false] {
        let log: RefCell<Vec<String>> = RefCell::new(Vec::new());
        let f = |w: &DenseMatrix<f64>| -> f64 {
            let wv = [w.get(0, 0), w.get(0, 1)];
            let v = og(&x, &y, &wv, alpha, lib).0;
            log.borrow_mut().push(format!("f  w={:?} f={:.17e} scores={:?}", wv, v, [-400.0, -300.0, -200.0, -100.0].iter().map(|x| x * wv[0] + wv[1]).collect::<Vec<f64>>()));
            v
        };
        let df = |g: &mut DenseMatrix<f64>, w: &DenseMatrix<f64>| {
            let wv = [w.get(0, 0), w.get(0, 1)];
            let gv = og(&x, &y, &wv, alpha, lib).1;
            g.set(0, 0, gv[0]);
            g.set(0, 1, gv[1]);
            log.borrow_mut().push(format!("df w={:?} g={:?}", wv, gv));
        };
        let x0 = DenseMatrix::from_2d_vec(&vec![vec![0.0; 2]]);
        let ls: Backtracking<f64> = Backtracking { order: FunctionOrder::THIRD, ..Default::default() };
        let opt: LBFGS<f64> = Default::default();
        let r = opt.optimize(&f, &df, &x0, &ls);
        let wv = [r.x.get(0, 0), r.x.get(0, 1)];
        println!("hook run lib_numerics={} iterations={} w={:?} ref f,g={:?}", lib, r.iterations, wv, og(&x, &y, &wv, alpha, false));
        let l = log.borrow();
        for s in l.iter().skip(l.len().saturating_sub(if lib { 30 } else { 4 })) {
            println!("   {}", s);
        }
    }
}
