//! Input spaces of C07: the small lattice (every X over Σ4 / Σ3, every y over {0,-1,2}) and the
//! structured designs (Chebyshev-Vandermonde, indicator, ramp) with column scales and means, plus
//! the per-X quantities the oracle needs (computed once per X and cached: exact rank, reference
//! singular values, two-pass column means / standard deviations).

use crate::dd;
use mc_core::oracle::{self as orc, Mat};
use std::cell::RefCell;
use std::rc::Rc;

#[derive(Clone, Copy, PartialEq, Eq, Debug)]
pub enum W {
    F64,
    F32,
}

impl W {
    pub fn eps(self) -> f64 {
        match self {
            W::F64 => f64::EPSILON,
            W::F32 => f32::EPSILON as f64,
        }
    }
    pub fn name(self) -> &'static str {
        match self {
            W::F64 => "f64",
            W::F32 => "f32",
        }
    }
    /// the value the library sees when the number is converted to the working type
    pub fn round(self, x: f64) -> f64 {
        match self {
            W::F64 => x,
            W::F32 => x as f32 as f64,
        }
    }
    /// Largest 2-norm condition number of the design for which the statement is checked in this
    /// width (statement: cond <= 1e6 for f64, "f32 with scaled tolerance").
    pub fn cond_limit(self) -> f64 {
        match self {
            W::F64 => 1e6,
            W::F32 => 1e3,
        }
    }
}

pub const SIGMA4: [i64; 4] = [0, 1, -1, 2];
pub const YALPHA: [i64; 3] = [0, -1, 2];
pub const ALPHAS: [f64; 4] = [1e-3, 0.1, 1.0, 100.0];

/// VERIF_SEED selects which affine image a·v + c of the integer lattice is enumerated (exactly
/// representable in f32 and f64; seed 0 = the plain alphabet). (a_x, c_x, a_y, c_y)
pub const SEED_MAPS: [(f64, f64, f64, f64); 8] = [
    (1.0, 0.0, 1.0, 0.0),
    (1.0, 0.25, 1.0, 0.5),
    (3.0, 0.0, 0.5, 0.0),
    (1.0, -0.5, 3.0, 1.0),
    (0.125, 0.0, 1.0, -0.25),
    (5.0, 1.0, 0.25, 0.0),
    (7.0, -3.0, 1.0, 2.0),
    (1.0, 8.0, 2.0, -1.0),
];

pub const DESIGNS: [&str; 4] = ["cheb", "indicator", "indicator-shift", "ramp"];
pub const SCALES: [f64; 3] = [1.0, 1e-2, 1e3];
pub const MEANS: [f64; 3] = [0.0, 5.0, 100.0];
/// 6 patterns over a 3-element value set: 0..3 = every column the same value, 3..6 = cyclic by column
pub fn pattern(k: usize, j: usize, rot: usize) -> usize {
    if k < 3 {
        k
    } else {
        (j + (k - 3) + rot) % 3
    }
}
pub fn pattern_name(k: usize, names: [&str; 3], rot: usize) -> String {
    if k < 3 {
        format!("all {}", names[k])
    } else {
        format!("cyclic from {}", names[pattern(k, 0, rot)])
    }
}

/// Base (unscaled, uncentred) structured design, n x p.
pub fn base_design(design: &str, n: usize, p: usize, seed: u64) -> Mat {
    let mut x = orc::zeros(n, p);
    match design {
        // Vandermonde in the Chebyshev nodes: column j = t^(j+1) (the intercept supplies t^0)
        "cheb" => {
            for i in 0..n {
                let t = ((2 * i + 1) as f64 * std::f64::consts::PI / (2 * n) as f64).cos();
                let mut pw = 1.0;
                for j in 0..p {
                    pw *= t;
                    x[i][j] = pw;
                }
            }
        }
        // one-hot group membership i mod (p+1), last group dropped; "indicator-shift" starts the
        // cycle one group later (so that, when p+1 does not divide n, another group is the short one)
        "indicator" | "indicator-shift" => {
            let off = ((seed as usize) * 2 + if design == "indicator" { 0 } else { 1 }) % (p + 1);
            for i in 0..n {
                let g = (i + off) % (p + 1);
                if g < p {
                    x[i][g] = 1.0;
                }
            }
        }
        // hinge functions max(0, i - knot_j) / n with equally spaced knots
        "ramp" => {
            for j in 0..p {
                let knot = j * n / (p + 1);
                for i in 0..n {
                    if i > knot {
                        x[i][j] = (i - knot) as f64 / n as f64;
                    }
                }
            }
        }
        other => panic!("unknown design {}", other),
    }
    x
}

pub const N_YTYPES: usize = 4;
pub fn ytype_name(t: usize) -> &'static str {
    ["3 + sum_j (-1)^j (j+1)/2 * base_j (exactly linear in the design)", "(-1)^i", "(i-(n-1)/2)^2/n + 7", "10*e_0"][t]
}
pub fn structured_y(t: usize, base: &Mat, n: usize, p: usize, seed: u64) -> Vec<f64> {
    match t {
        0 => (0..n)
            .map(|i| {
                let mut acc = dd::Acc::new();
                acc.add(3.0 + seed as f64);
                for j in 0..p {
                    let c = if j % 2 == 0 { 1.0 } else { -1.0 } * (j + 1) as f64 / 2.0;
                    acc.add_prod(c, base[i][j]);
                }
                acc.val()
            })
            .collect(),
        1 => (0..n).map(|i| if i % 2 == 0 { 1.0 } else { -1.0 }).collect(),
        2 => (0..n)
            .map(|i| {
                let d = i as f64 - (n as f64 - 1.0) / 2.0;
                d * d / n as f64 + 7.0
            })
            .collect(),
        _ => (0..n).map(|i| if i == (seed as usize) % n { 10.0 } else { 0.0 }).collect(),
    }
}

/// Everything the oracle derives from X alone.
pub struct XInfo {
    /// X before rounding to the working type (cache key together with `w`)
    pub x_raw: Mat,
    pub w: W,
    pub n: usize,
    pub p: usize,
    /// X as the library sees it (rounded to the working type), in f64
    pub x: Mat,
    /// exact / reference rank information
    pub x_full_rank: bool,
    pub a_full_rank: bool,
    /// singular values (non-increasing) of X and of A = [X 1] by one-sided Jacobi
    pub sv_x: Vec<f64>,
    pub sv_a: Vec<f64>,
    pub x_fro: f64,
    pub a_fro: f64,
    /// two-pass column means and population standard deviations
    pub mu: Vec<f64>,
    pub sd: Vec<f64>,
    /// standardised design (only when every sd > 0) and its singular values
    pub z: Option<Mat>,
    pub sv_z: Vec<f64>,
    /// 1 + max_j |mu_j| / sd_j : inherent sensitivity of standardisation
    pub kappa_s: f64,
    /// a second matrix with a different number of rows, for predict
    pub probe: Mat,
}

impl XInfo {
    pub fn kappa_x(&self) -> f64 {
        cond_of(&self.sv_x)
    }
    pub fn kappa_a(&self) -> f64 {
        cond_of(&self.sv_a)
    }
}

fn cond_of(s: &[f64]) -> f64 {
    match (s.first(), s.last()) {
        (Some(&hi), Some(&lo)) if lo > 0.0 && hi.is_finite() => hi / lo,
        _ => f64::INFINITY,
    }
}

thread_local! {
    static CACHE: RefCell<Option<Rc<XInfo>>> = RefCell::new(None);
}

/// `exact_ranks`: computes (rank X == p, rank [X 1] == p+1) exactly (lattice); when None the ranks
/// are decided from the reference singular values (structured designs). The result is cached per
/// thread for the most recent (X, width): the explorer varies y and the configuration fastest.
pub fn xinfo(x_raw: &Mat, w: W, exact_ranks: Option<&dyn Fn() -> (bool, bool)>) -> Rc<XInfo> {
    if let Some(c) = CACHE.with(|c| c.borrow().as_ref().filter(|c| c.w == w && c.x_raw == *x_raw).cloned()) {
        return c;
    }
    let n = x_raw.len();
    let p = x_raw[0].len();
    let x: Mat = x_raw.iter().map(|r| r.iter().map(|v| w.round(*v)).collect()).collect();
    let a: Mat = x.iter().map(|r| r.iter().cloned().chain(std::iter::once(1.0)).collect()).collect();
    let sv_x = orc::singular_values(&x);
    let sv_a = orc::singular_values(&a);
    let flat: Vec<f64> = x.iter().flatten().cloned().collect();
    let x_fro = dd::norm2(&flat);
    let a_fro = (x_fro * x_fro + n as f64).sqrt();
    let mut mu = vec![0.0; p];
    let mut sd = vec![0.0; p];
    for j in 0..p {
        let mut acc = dd::Acc::new();
        for i in 0..n {
            acc.add(x[i][j]);
        }
        mu[j] = acc.val() / n as f64;
        let mut acc = dd::Acc::new();
        for i in 0..n {
            let d = x[i][j] - mu[j];
            acc.add_prod(d, d);
        }
        sd[j] = (acc.val() / n as f64).sqrt();
    }
    let all_sd = sd.iter().all(|s| *s > 0.0);
    let (z, sv_z, kappa_s) = if all_sd {
        let z: Mat = x.iter().map(|r| (0..p).map(|j| (r[j] - mu[j]) / sd[j]).collect()).collect();
        let sv = orc::singular_values(&z);
        let ks = 1.0 + (0..p).map(|j| mu[j].abs() / sd[j]).fold(0.0, f64::max);
        (Some(z), sv, ks)
    } else {
        (None, Vec::new(), f64::INFINITY)
    };
    let (x_full_rank, a_full_rank) = match exact_ranks {
        Some(f) => f(),
        // numerically: finite condition number (the in-domain decision additionally applies the limit)
        None => (cond_of(&sv_x) < 1e15, cond_of(&sv_a) < 1e15),
    };
    let mp = if n == 2 { 3 } else { 2 };
    let probe: Mat = (0..mp)
        .map(|r| (0..p).map(|c| if (r + c) % 2 == 0 { 1.0 } else { -1.0 } * (1 + 16 * r + c) as f64 / 4.0).collect())
        .collect();
    let xi = Rc::new(XInfo { x_raw: x_raw.clone(), w, n, p, x, x_full_rank, a_full_rank, sv_x, sv_a, x_fro, a_fro, mu, sd, z, sv_z, kappa_s, probe });
    CACHE.with(|c| *c.borrow_mut() = Some(xi.clone()));
    xi
}

/// Exact ranks of the integer lattice matrix X (n x p) and of [X 1].
pub fn exact_ranks(xb: &[Vec<i64>]) -> (bool, bool) {
    let p = xb[0].len();
    let xi: orc::IMat = xb.iter().map(|r| r.iter().map(|v| *v as i128).collect()).collect();
    let ai: orc::IMat = xb.iter().map(|r| r.iter().map(|v| *v as i128).chain(std::iter::once(1)).collect()).collect();
    (orc::irank(&xi) == p, orc::irank(&ai) == p + 1)
}
