//! Library calls (generic over the working type) and the definition-level oracle of C07.
//!
//! Every quantity of the oracle is computed in f64 with compensated sums from the values the
//! library actually saw (inputs rounded to the working type) and the values it actually returned.

use crate::dd::{self, Acc};
use crate::gen::{XInfo, W};
use mc_core::oracle::Mat;
use mc_core::{self as mc, PanicInfo};
use mc_sc::{dm, vec_f64, vec_t};
use smartcore::linalg::naive::dense_matrix::DenseMatrix;
use smartcore::linalg::BaseMatrix;
use smartcore::linear::linear_regression::{LinearRegression, LinearRegressionParameters, LinearRegressionSolverName};
use smartcore::linear::ridge_regression::{RidgeRegression, RidgeRegressionParameters, RidgeRegressionSolverName};
use smartcore::math::num::RealNumber;

// ---- tolerance constants (units: n * eps_T * scale; calibration in NOTES.md) -------------------
/// OLS normal equations: |A^T r|_inf <= C * n * eps * |A|_F (|y| + |A|_F |theta|)
pub const C_OLS_GRAD: f64 = 32.0;
/// OLS QR vs SVD: |d theta| <= C * n * eps * kappa (2|theta| + (kappa+1) |r| / s_max)   (Wedin / Higham 20.1)
pub const C_OLS_AGREE: f64 = 32.0;
/// ridge gradient: <= C * n * eps * kappa_s * (|Z|_F |y| + (|Z|_F^2 + alpha) |w|)  (kappa_s = 1 without normalisation)
pub const C_RIDGE_GRAD: f64 = 64.0;
/// ridge Cholesky vs SVD: |dw| <= C * p * eps * cond(G) |w|,  G = Z^T Z + alpha I
pub const C_RIDGE_AGREE: f64 = 512.0;
/// predict: |pred_i - (x_i.w + b)| <= C * (p + 1) * eps * (sum_j |x_ij w_j| + |b|)
pub const C_PREDICT: f64 = 4.0;
/// input class of the standardisation path: the column mean exceeds this many standard deviations
pub const LARGE_MEAN_OVER_STD: f64 = 64.0;

#[derive(Clone, Copy, PartialEq, Eq, Debug)]
pub enum Solver {
    /// QR for least squares, Cholesky for ridge
    Direct,
    Svd,
}

#[derive(Clone, Copy, PartialEq, Debug)]
pub enum Model {
    Ols,
    Ridge { alpha: f64, normalize: bool },
}

pub struct Fitted {
    pub w: Vec<f64>,
    pub b: f64,
    pub pred_train: Result<Vec<f64>, String>,
    pub pred_probe: Result<Vec<f64>, String>,
}

pub enum FitRes {
    Ok(Fitted),
    Err(String),
    Panic(PanicInfo),
    BadShape(usize, usize),
}

fn pred_res<T: RealNumber>(r: Result<Result<Vec<T>, smartcore::error::Failed>, PanicInfo>) -> Result<Vec<f64>, String> {
    match r {
        Ok(Ok(v)) => Ok(vec_f64(&v)),
        Ok(Err(e)) => Err(format!("error: {}", e)),
        Err(p) => Err(p.brief()),
    }
}

fn extract<T: RealNumber>(p: usize, coef: &DenseMatrix<T>, intercept: T, pred_train: Result<Vec<f64>, String>, pred_probe: Result<Vec<f64>, String>) -> FitRes {
    let (r, c) = coef.shape();
    if (r, c) != (p, 1) {
        return FitRes::BadShape(r, c);
    }
    let w: Vec<f64> = (0..p).map(|j| coef.get(j, 0).to_f64().unwrap()).collect();
    FitRes::Ok(Fitted { w, b: intercept.to_f64().unwrap(), pred_train, pred_probe })
}

// ---- how the parameter struct is constructed (round-2 extension) -----------------------------------

/// Ridge: ways 0..6 start from `Default::default()` and apply the three chained builder calls in the order
/// `RIDGE_ORDERS[way]` (every permutation of {with_alpha, with_normalize, with_solver}); way 6 is the struct literal.
pub const RIDGE_WAYS: usize = 7;
pub const RIDGE_LITERAL: usize = 6;
/// 'a' = with_alpha, 'n' = with_normalize, 's' = with_solver
pub const RIDGE_ORDERS: [[char; 3]; 6] = [['a', 'n', 's'], ['a', 's', 'n'], ['n', 'a', 's'], ['n', 's', 'a'], ['s', 'a', 'n'], ['s', 'n', 'a']];
/// Least squares: way 0 = `LinearRegressionParameters::default().with_solver(s)` (the only builder call there is),
/// way 1 = struct literal.
pub const OLS_WAYS: usize = 2;
pub const OLS_BUILDER: usize = 0;

pub fn way_name(ols: bool, way: usize) -> String {
    let call = |c: &char| match c {
        'a' => "with_alpha",
        'n' => "with_normalize",
        _ => "with_solver",
    };
    match ols {
        true if way == OLS_BUILDER => "LinearRegressionParameters::default().with_solver(..)".to_string(),
        true => "LinearRegressionParameters { solver }".to_string(),
        false if way == RIDGE_LITERAL => "RidgeRegressionParameters { solver, alpha, normalize }".to_string(),
        false => format!("RidgeRegressionParameters::default().{}(..)", RIDGE_ORDERS[way].iter().map(call).collect::<Vec<_>>().join("(..).")),
    }
}

fn ridge_params<T: RealNumber>(way: usize, solver: &RidgeRegressionSolverName, alpha: T, normalize: bool) -> RidgeRegressionParameters<T> {
    if way == RIDGE_LITERAL {
        return RidgeRegressionParameters { solver: solver.clone(), alpha, normalize };
    }
    let mut p: RidgeRegressionParameters<T> = Default::default();
    for call in RIDGE_ORDERS[way] {
        p = match call {
            'a' => p.with_alpha(alpha),
            'n' => p.with_normalize(normalize),
            _ => p.with_solver(solver.clone()),
        };
    }
    p
}

fn ols_params(way: usize, solver: &LinearRegressionSolverName) -> LinearRegressionParameters {
    if way == OLS_BUILDER {
        LinearRegressionParameters::default().with_solver(solver.clone())
    } else {
        LinearRegressionParameters { solver: solver.clone() }
    }
}

/// The parameter struct handed to `fit` must carry the REQUESTED configuration in its (public) fields, however it was
/// constructed: otherwise the fitted model is that of another configuration (alpha, normalize: also seen by the
/// gradient / intercept clauses) or the requested solver is never run (solver: invisible in the minimiser itself).
fn lost(cx: &Ctx, comp: &str, field: &str, sname: &str, requested: String, found: String) {
    mc::violation(
        format!("{}.params-builder:{}-not-as-requested{}", comp, field, cx.sfx()),
        format!("{} [requested solver {}]: the constructed parameters have {} = {} instead of the requested {}", (cx.label)(), sname, field, found, requested),
    );
}

/// Fits the model with both solvers (Direct first) and predicts on the training and probe matrices. The parameter
/// struct is constructed the `cx.way`-th way (see RIDGE_WAYS / OLS_WAYS).
fn fit_both_t<T: RealNumber>(cx: &Ctx, model: Model) -> [FitRes; 2] {
    let (xi, y, way) = (cx.xi, cx.y, cx.way);
    let x: DenseMatrix<T> = dm(&xi.x);
    let xp: DenseMatrix<T> = dm(&xi.probe);
    let yt: Vec<T> = vec_t(y);
    [Solver::Direct, Solver::Svd].map(|solver| match model {
        Model::Ols => {
            let s = match solver {
                Solver::Direct => LinearRegressionSolverName::QR,
                Solver::Svd => LinearRegressionSolverName::SVD,
            };
            let params = match mc::guard(|| ols_params(way, &s)) {
                Ok(p) => p,
                Err(p) => return FitRes::Panic(p),
            };
            if std::mem::discriminant(&params.solver) != std::mem::discriminant(&s) {
                lost(cx, "ols", "solver", solver_name(model, solver), format!("{:?}", s), format!("{:?}", params.solver));
            }
            match mc::guard(|| LinearRegression::fit(&x, &yt, params)) {
                Err(p) => FitRes::Panic(p),
                Ok(Err(e)) => FitRes::Err(e.to_string()),
                Ok(Ok(m)) => extract(xi.p, m.coefficients(), m.intercept(), pred_res(mc::guard(|| m.predict(&x))), pred_res(mc::guard(|| m.predict(&xp)))),
            }
        }
        Model::Ridge { alpha, normalize } => {
            let s = match solver {
                Solver::Direct => RidgeRegressionSolverName::Cholesky,
                Solver::Svd => RidgeRegressionSolverName::SVD,
            };
            let alpha_t = T::from(alpha).unwrap();
            let params = match mc::guard(|| ridge_params::<T>(way, &s, alpha_t, normalize)) {
                Ok(p) => p,
                Err(p) => return FitRes::Panic(p),
            };
            let sname = solver_name(model, solver);
            if std::mem::discriminant(&params.solver) != std::mem::discriminant(&s) {
                lost(cx, "ridge", "solver", sname, format!("{:?}", s), format!("{:?}", params.solver));
            }
            if params.alpha != alpha_t {
                lost(cx, "ridge", "alpha", sname, format!("{:?}", alpha_t), format!("{:?}", params.alpha));
            }
            if params.normalize != normalize {
                lost(cx, "ridge", "normalize", sname, format!("{}", normalize), format!("{}", params.normalize));
            }
            match mc::guard(|| RidgeRegression::fit(&x, &yt, params)) {
                Err(p) => FitRes::Panic(p),
                Ok(Err(e)) => FitRes::Err(e.to_string()),
                Ok(Ok(m)) => extract(xi.p, m.coefficients(), m.intercept(), pred_res(mc::guard(|| m.predict(&x))), pred_res(mc::guard(|| m.predict(&xp)))),
            }
        }
    })
}

pub fn fit_both(cx: &Ctx, model: Model) -> [FitRes; 2] {
    match cx.xi.w {
        W::F64 => fit_both_t::<f64>(cx, model),
        W::F32 => fit_both_t::<f32>(cx, model),
    }
}

// ---- calibration log (development only: MC_CALIB=<dir>) ------------------------------------------

thread_local! {
    static CAL: std::cell::RefCell<std::collections::BTreeMap<String, f64>> = std::cell::RefCell::new(Default::default());
}

fn calib_dir() -> Option<&'static str> {
    static DIR: std::sync::OnceLock<Option<String>> = std::sync::OnceLock::new();
    DIR.get_or_init(|| std::env::var("MC_CALIB").ok()).as_deref()
}

/// Record the largest observed ratio (in units of the tolerance formula without its constant).
pub fn calib(key: &str, w: W, ratio: f64, ctx: &dyn Fn() -> String) {
    let Some(dir) = calib_dir() else { return };
    let k = format!("{}:{}", key, w.name());
    let newmax = CAL.with(|c| {
        let mut c = c.borrow_mut();
        let e = c.entry(k.clone()).or_insert(0.0);
        if ratio > *e * 1.02 || (ratio.is_nan() && !e.is_nan()) {
            *e = ratio;
            true
        } else {
            false
        }
    });
    if newmax {
        use std::io::Write;
        if let Ok(mut f) = std::fs::OpenOptions::new().create(true).append(true).open(format!("{}/{}.log", dir, std::process::id())) {
            let _ = writeln!(f, "{}\t{:.4e}\t{}", k, ratio, ctx());
        }
    }
}

// ---- oracle ----------------------------------------------------------------------------------------

pub struct Ctx<'a> {
    pub xi: &'a XInfo,
    pub y: &'a [f64],
    /// how the parameter struct is constructed (index into RIDGE_WAYS / OLS_WAYS)
    pub way: usize,
    /// human-readable description of the input (built only when a violation is reported)
    pub label: &'a dyn Fn() -> String,
}

impl<'a> Ctx<'a> {
    fn sfx(&self) -> &'static str {
        if self.xi.w == W::F32 {
            ":f32"
        } else {
            ""
        }
    }
}

pub fn solver_name(model: Model, s: Solver) -> &'static str {
    match (model, s) {
        (Model::Ols, Solver::Direct) => "qr",
        (Model::Ridge { .. }, Solver::Direct) => "chol",
        (_, Solver::Svd) => "svd",
    }
}

/// r_i = y_i - x_i.w - b as unevaluated sums (hi, lo)
fn residual(x: &Mat, y: &[f64], w: &[f64], b: f64) -> Vec<(f64, f64)> {
    x.iter()
        .zip(y)
        .map(|(row, yi)| {
            let mut acc = Acc::new();
            acc.add(*yi);
            for (xij, wj) in row.iter().zip(w) {
                acc.add_prod(-*xij, *wj);
            }
            acc.add(-b);
            acc.dd()
        })
        .collect()
}

/// Σ_i c_i * r_i for a column c
fn col_dot_res(col: impl Iterator<Item = f64>, r: &[(f64, f64)]) -> f64 {
    let mut acc = Acc::new();
    for (c, (hi, lo)) in col.zip(r) {
        acc.add_prod(c, *hi);
        acc.add_prod(c, *lo);
    }
    acc.val()
}

fn res_norm(r: &[(f64, f64)]) -> f64 {
    dd::norm2(&r.iter().map(|(h, l)| h + l).collect::<Vec<_>>())
}

fn fmt_v(v: &[f64]) -> String {
    format!("[{}]", v.iter().map(|x| format!("{:e}", x)).collect::<Vec<_>>().join(", "))
}

/// `predict(X) = X w + b` row by row, for the training matrix and for the probe matrix.
fn check_predict(cx: &Ctx, comp: &str, sname: &str, f: &Fitted) {
    let p = cx.xi.p;
    for (which, x, pr) in [("training X", &cx.xi.x, &f.pred_train), ("probe X'", &cx.xi.probe, &f.pred_probe)] {
        let pred = match pr {
            Ok(v) => v,
            Err(e) => {
                mc::violation(format!("{}.predict:failed{}", comp, cx.sfx()), format!("{} [{} model]: predict({}) -> {}", (cx.label)(), sname, which, e));
                continue;
            }
        };
        if pred.len() != x.len() {
            mc::violation(format!("{}.predict:length{}", comp, cx.sfx()), format!("{} [{} model]: predict({}) returned {} values for {} rows", (cx.label)(), sname, which, pred.len(), x.len()));
            continue;
        }
        for (i, row) in x.iter().enumerate() {
            let mut acc = Acc::new();
            let mut mag = f.b.abs();
            for (xij, wj) in row.iter().zip(&f.w) {
                acc.add_prod(*xij, *wj);
                mag += (xij * wj).abs();
            }
            acc.add(f.b);
            let want = acc.val();
            let tol = C_PREDICT * (p + 1) as f64 * cx.xi.w.eps() * mag;
            let err = (pred[i] - want).abs();
            if mag > 0.0 {
                calib("predict", cx.xi.w, err / ((p + 1) as f64 * cx.xi.w.eps() * mag), &|| (cx.label)());
            }
            if !(err <= tol) {
                mc::violation(
                    format!("{}.predict:row-mismatch{}", comp, cx.sfx()),
                    format!("{} [{} model]: predict({}) row {} = {:e}, but x.w + b = {:e} with w={} b={:e} (|diff| {:.3e} > tol {:.3e})", (cx.label)(), sname, which, i, pred[i], want, fmt_v(&f.w), f.b, err, tol),
                );
                break;
            }
        }
    }
}

/// Turns a failed fit into a violation; returns the fitted model otherwise.
///
/// `spectrum`: reference singular values of the matrix the solver factorises ([X 1] for least squares, the
/// Gram matrix Z^T Z + alpha I for ridge). A panic "no convergence" of the SVD iteration is keyed by whether
/// that spectrum contains a cluster of >= 3 singular values equal to within 1e-10 relative (input class
/// `repeated-singular-values`) or not.
fn must_fit<'f>(cx: &Ctx, site_base: &str, class: &str, sname: &str, r: &'f FitRes, spectrum: &dyn Fn() -> Vec<f64>) -> Option<&'f Fitted> {
    match r {
        FitRes::Ok(f) => {
            if f.w.iter().any(|v| !v.is_finite()) || !f.b.is_finite() {
                mc::violation(format!("{}-{}:non-finite{}{}", site_base, sname, class, cx.sfx()), format!("{}: fit returned w={} b={:e}", (cx.label)(), fmt_v(&f.w), f.b));
                None
            } else {
                Some(f)
            }
        }
        FitRes::Err(e) => {
            mc::violation(format!("{}-{}:error{}{}", site_base, sname, class, cx.sfx()), format!("{}: fit returned Err({}) on an in-domain input", (cx.label)(), e));
            None
        }
        FitRes::Panic(p) => {
            let of = if p.is_overflow_check() { ":overflow-check" } else { "" };
            let (kind, spec_class) = if p.msg.contains("no convergence") {
                let sv = spectrum();
                let clustered = (0..sv.len().saturating_sub(2)).any(|i| sv[i] > 0.0 && (sv[i] - sv[i + 2]).abs() <= 1e-10 * sv[i]);
                ("panic-no-convergence", if clustered { ":repeated-singular-values" } else { "" })
            } else {
                ("panic", "")
            };
            mc::violation(
                format!("{}-{}:{}{}{}{}{}", site_base, sname, kind, of, class, spec_class, cx.sfx()),
                format!("{}: fit panicked: {} (singular values of the factorised matrix: {})", (cx.label)(), p.brief(), fmt_v(&spectrum())),
            );
            None
        }
        FitRes::BadShape(r, c) => {
            mc::violation(format!("{}-{}:coef-shape{}{}", site_base, sname, class, cx.sfx()), format!("{}: coefficients() is {}x{}, expected {}x1", (cx.label)(), r, c, cx.xi.p));
            None
        }
    }
}

pub fn digest(fs: &[Option<&Fitted>]) -> u64 {
    let mut h = 0x51ed_270b_u64;
    for f in fs {
        match f {
            Some(f) => {
                h = mc::hash::mix(h, mc::hash::h_f64s(&f.w));
                h = mc::hash::mix(h, mc::hash::canon_bits(f.b));
            }
            None => h = mc::hash::mix(h, 0xdead),
        }
    }
    h
}

/// What the library returned, for the case description: (solver, coefficients, intercept) per successful fit.
pub struct Observed {
    pub nontrivial: bool,
    pub models: Vec<(&'static str, Vec<f64>, f64)>,
}

fn observed(model: Model, ok: &[Option<&Fitted>; 2]) -> Observed {
    let models: Vec<_> = [Solver::Direct, Solver::Svd].iter().zip(ok).filter_map(|(s, f)| f.map(|f| (solver_name(model, *s), f.w.clone(), f.b))).collect();
    Observed { nontrivial: models.iter().any(|(_, w, b)| w.iter().any(|v| *v != 0.0) || *b != 0.0), models }
}

/// Ordinary least squares: both solvers, all clauses.
pub fn check_ols(cx: &Ctx) -> Observed {
    let xi = cx.xi;
    let (n, p, eps) = (xi.n as f64, xi.p, xi.w.eps());
    let fits = fit_both(cx, Model::Ols);
    let mut ok: [Option<&Fitted>; 2] = [None, None];
    let ynorm = dd::norm2(cx.y);
    let mut rnorms = [0.0; 2];
    for (k, solver) in [Solver::Direct, Solver::Svd].into_iter().enumerate() {
        let sname = solver_name(Model::Ols, solver);
        let Some(f) = must_fit(cx, "ols.fit", "", sname, &fits[k], &|| xi.sv_a.clone()) else { continue };
        ok[k] = Some(f);
        let r = residual(&xi.x, cx.y, &f.w, f.b);
        rnorms[k] = res_norm(&r);
        let mut theta = f.w.clone();
        theta.push(f.b);
        let scale = xi.a_fro * (ynorm + xi.a_fro * dd::norm2(&theta));
        let tol = C_OLS_GRAD * n * eps * scale;
        // residual orthogonal to every column of X
        let mut worst = (0.0f64, 0usize);
        for j in 0..p {
            let g = col_dot_res(xi.x.iter().map(|r| r[j]), &r).abs();
            if g > worst.0 || g.is_nan() {
                worst = (g, j);
            }
        }
        let gb = col_dot_res(std::iter::repeat(1.0).take(xi.n), &r).abs();
        if scale > 0.0 {
            calib("ols.grad", xi.w, worst.0.max(gb) / (n * eps * scale), &|| format!("{} [{}] kappa_a={:.2e}", (cx.label)(), sname, xi.kappa_a()));
        }
        if !(worst.0 <= tol) {
            mc::violation(
                format!("ols.fit-{}:residual-not-orthogonal{}", sname, cx.sfx()),
                format!("{}: w={} b={:e}: |x_{}^T (y - Xw - b)| = {:.3e} > tol {:.3e} (|r|={:.3e})", (cx.label)(), fmt_v(&f.w), f.b, worst.1, worst.0, tol, rnorms[k]),
            );
        }
        if !(gb <= tol) {
            mc::violation(
                format!("ols.fit-{}:residual-sum-nonzero{}", sname, cx.sfx()),
                format!("{}: w={} b={:e}: |sum(y - Xw - b)| = {:.3e} > tol {:.3e} (|r|={:.3e})", (cx.label)(), fmt_v(&f.w), f.b, gb, tol, rnorms[k]),
            );
        }
        check_predict(cx, "ols", sname, f);
    }
    if let (Some(a), Some(b)) = (ok[0], ok[1]) {
        let mut d: Vec<f64> = a.w.iter().zip(&b.w).map(|(u, v)| u - v).collect();
        d.push(a.b - b.b);
        let dn = dd::norm2(&d);
        let mut ta = a.w.clone();
        ta.push(a.b);
        let mut tb = b.w.clone();
        tb.push(b.b);
        let tn = dd::norm2(&ta).max(dd::norm2(&tb));
        let k = xi.kappa_a();
        let unit = n * eps * k * (2.0 * tn + (k + 1.0) * rnorms[0].max(rnorms[1]) / xi.sv_a[0]);
        let tol = C_OLS_AGREE * unit;
        if unit > 0.0 {
            calib("ols.agree", xi.w, dn / unit, &|| format!("{} kappa_a={:.2e}", (cx.label)(), k));
        }
        if tol < 0.25 * tn {
            mc::count("ols_agreement_decisive");
        }
        if !(dn <= tol) {
            mc::violation(
                format!("ols.fit:qr-svd-disagree{}", cx.sfx()),
                format!("{}: QR gives w={} b={:e}, SVD gives w={} b={:e}: |diff| {:.3e} > tol {:.3e} (cond {:.2e})", (cx.label)(), fmt_v(&a.w), a.b, fmt_v(&b.w), b.b, dn, tol, k),
            );
        }
    }
    mc::outcome(digest(&ok));
    observed(Model::Ols, &ok)
}

/// Ridge regression with one (alpha, normalize): both solvers, all clauses.
pub fn check_ridge(cx: &Ctx, alpha_nominal: f64, normalize: bool) -> Observed {
    let xi = cx.xi;
    let (n, p, eps) = (xi.n as f64, xi.p, xi.w.eps());
    let alpha = xi.w.round(alpha_nominal);
    let model = Model::Ridge { alpha: alpha_nominal, normalize };
    let large_mean = normalize && xi.kappa_s - 1.0 > LARGE_MEAN_OVER_STD;
    let class = match (normalize, large_mean) {
        (false, _) => ":norm-off",
        (true, false) => ":norm-on",
        (true, true) => ":norm-on:mean>64std",
    };
    if large_mean {
        mc::count("ridge_norm_on_large_mean_over_std");
    }
    let fits = fit_both(cx, model);
    let mut ok: [Option<&Fitted>; 2] = [None, None];
    let ynorm = dd::norm2(cx.y);
    // the design the stated objective is taken over
    let (zmat, zfro, ks): (&Mat, f64, f64) = if normalize {
        (xi.z.as_ref().expect("normalize=true is only checked when every column has a positive standard deviation"), (n * p as f64).sqrt(), xi.kappa_s)
    } else {
        (&xi.x, xi.x_fro, 1.0)
    };
    // with a relative tolerance above 5 % the gradient clauses decide nothing in this width (f32, large mean/std);
    // the fit must still succeed with finite coefficients, predict must hold and the solvers must agree
    let grad_decisive = !normalize || C_RIDGE_GRAD * n * eps * ks <= 0.05;
    let mut wz_of = [Vec::new(), Vec::new()];
    for (k, solver) in [Solver::Direct, Solver::Svd].into_iter().enumerate() {
        let sname = solver_name(model, solver);
        let gram_spectrum = || {
            let sv = if normalize { &xi.sv_z } else { &xi.sv_x };
            sv.iter().map(|s| s * s + alpha).collect::<Vec<f64>>()
        };
        let Some(f) = must_fit(cx, "ridge.fit", class, sname, &fits[k], &gram_spectrum) else { continue };
        ok[k] = Some(f);
        // coefficients in the coordinates of the objective
        let wz: Vec<f64> = if normalize { f.w.iter().zip(&xi.sd).map(|(w, s)| w * s).collect() } else { f.w.clone() };
        let wzn = dd::norm2(&wz);
        let scale = ks * (zfro * ynorm + (zfro * zfro + alpha) * wzn);
        let tol = C_RIDGE_GRAD * n * eps * scale;
        let describe_fit = || format!("alpha={:e} normalize={} solver={}: w={} b={:e}", alpha, normalize, sname, fmt_v(&f.w), f.b);
        let r = if normalize {
            residual(&xi.x, cx.y, &f.w, f.b)
        } else {
            if f.b != 0.0 {
                mc::violation(format!("ridge.fit-{}:intercept-nonzero{}{}", sname, class, cx.sfx()), format!("{}: {}: the intercept must be 0 when normalisation is off", (cx.label)(), describe_fit()));
            }
            residual(&xi.x, cx.y, &f.w, 0.0)
        };
        // d/dw_j of ||y - Z w - b||^2 + alpha ||w||^2 (halved): -z_j^T r + alpha w_j
        let mut worst = (0.0f64, 0usize);
        for j in 0..p {
            let mut acc = Acc::new();
            for (row, (hi, lo)) in zmat.iter().zip(&r) {
                acc.add_prod(row[j], *hi);
                acc.add_prod(row[j], *lo);
            }
            acc.add_prod(-alpha, wz[j]);
            let g = acc.val().abs();
            if g > worst.0 || g.is_nan() {
                worst = (g, j);
            }
        }
        if scale > 0.0 {
            calib(if normalize { "ridge.grad.on" } else { "ridge.grad.off" }, xi.w, worst.0 / (n * eps * scale), &|| format!("{} {} kappa_s={:.2e}", (cx.label)(), describe_fit(), xi.kappa_s));
            if normalize && !large_mean {
                calib("ridge.grad.on.mean<=64std", xi.w, worst.0 / (n * eps * scale), &|| format!("{} {} kappa_s={:.2e}", (cx.label)(), describe_fit(), xi.kappa_s));
            }
            if normalize {
                calib("ridge.grad.on/ks", xi.w, worst.0 / (n * eps * scale) / ks, &|| format!("{} {} kappa_s={:.2e}", (cx.label)(), describe_fit(), xi.kappa_s));
            }
        }
        if !grad_decisive {
            mc::count("ridge_norm_on_gradient_tolerance_vacuous_in_width");
        }
        if grad_decisive && !(worst.0 <= tol) {
            mc::violation(
                format!("ridge.fit-{}:gradient-w{}{}", sname, class, cx.sfx()),
                format!("{}: {}: |d objective / d w_{}| / 2 = {:.3e} > tol {:.3e} (mean/std sensitivity {:.2e})", (cx.label)(), describe_fit(), worst.1, worst.0, tol, ks),
            );
        }
        if normalize {
            // free intercept: d/db = -sum r
            let gb = col_dot_res(std::iter::repeat(1.0).take(xi.n), &r).abs();
            let scale_b = ks * (n.sqrt() * ynorm + n * p as f64 * wzn);
            let tol_b = C_RIDGE_GRAD * n * eps * scale_b;
            if scale_b > 0.0 {
                calib("ridge.gradb.on", xi.w, gb / (n * eps * scale_b), &|| format!("{} {} kappa_s={:.2e}", (cx.label)(), describe_fit(), xi.kappa_s));
            }
            if grad_decisive && !(gb <= tol_b) {
                mc::violation(
                    format!("ridge.fit-{}:gradient-b{}{}", sname, class, cx.sfx()),
                    format!("{}: {}: |sum(y - Xw - b)| = {:.3e} > tol {:.3e} (the intercept is free, so the residual must sum to 0)", (cx.label)(), describe_fit(), gb, tol_b),
                );
            }
        }
        wz_of[k] = wz;
        check_predict(cx, "ridge", sname, f);
    }
    if let (Some(a), Some(b)) = (ok[0], ok[1]) {
        // agreement of the two solvers, in the coordinates of the objective
        let sv = if normalize { &xi.sv_z } else { &xi.sv_x };
        let (hi, lo) = (sv[0] * sv[0] + alpha, sv[sv.len() - 1] * sv[sv.len() - 1] + alpha);
        let cond_g = hi / lo;
        let d: Vec<f64> = wz_of[0].iter().zip(&wz_of[1]).map(|(u, v)| u - v).collect();
        let dn = dd::norm2(&d);
        let wn = dd::norm2(&wz_of[0]).max(dd::norm2(&wz_of[1]));
        let unit = p as f64 * eps * cond_g * wn;
        let tol = C_RIDGE_AGREE * unit;
        if unit > 0.0 {
            calib(if normalize { "ridge.agree.on" } else { "ridge.agree.off" }, xi.w, dn / unit, &|| format!("{} alpha={:e} cond(G)={:.2e}", (cx.label)(), alpha, cond_g));
        }
        if tol < 0.25 * wn {
            mc::count("ridge_agreement_decisive");
        }
        let mut bad = !(dn <= tol);
        // intercepts: b = ybar - w.mu with the library's own (rounded) ybar and mu, so the two intercepts may
        // differ by sum_j |dw_j| (|mu_j| + n eps mean|x_j|) plus the rounding of the subtraction
        let (mut tol_b, db) = (0.0, (a.b - b.b).abs());
        if normalize {
            let yabs = cx.y.iter().map(|v| v.abs()).sum::<f64>() / n;
            let mut lin = 0.0;
            let mut wmu = 0.0;
            for j in 0..p {
                let ma = xi.x.iter().map(|r| r[j].abs()).sum::<f64>() / n;
                let m = xi.mu[j].abs() + n * eps * ma;
                lin += (a.w[j] - b.w[j]).abs() * m;
                wmu += a.w[j].abs().max(b.w[j].abs()) * m;
            }
            tol_b = 2.0 * lin + C_RIDGE_AGREE * (p + 2) as f64 * eps * (yabs + wmu);
            bad |= !(db <= tol_b);
        }
        if bad {
            mc::violation(
                format!("ridge.fit:chol-svd-disagree{}{}", class, cx.sfx()),
                format!(
                    "{}: alpha={:e} normalize={}: Cholesky gives w={} b={:e}, SVD gives w={} b={:e}: |dw| (objective coordinates) {:.3e} vs tol {:.3e}, |db| {:.3e} vs tol {:.3e} (cond(G) {:.2e})",
                    (cx.label)(), alpha, normalize, fmt_v(&a.w), a.b, fmt_v(&b.w), b.b, dn, tol, db, tol_b, cond_g
                ),
            );
        }
    }
    mc::outcome(digest(&ok));
    observed(model, &ok)
}
