//! Error-free transformations and a compensated dot-product accumulator (Ogita-Rump-Oishi "Dot2"):
//! the oracle evaluates residuals and gradients as if in twice the working precision, so its own
//! rounding never competes with the tolerance it grants the library.

#[inline]
pub fn two_sum(a: f64, b: f64) -> (f64, f64) {
    let s = a + b;
    let bb = s - a;
    let e = (a - (s - bb)) + (b - bb);
    (s, e)
}

#[inline]
fn split(a: f64) -> (f64, f64) {
    // Veltkamp split (2^27 + 1); inputs here are far from the overflow threshold
    let c = 134217729.0 * a;
    let hi = c - (c - a);
    (hi, a - hi)
}

#[inline]
pub fn two_prod(a: f64, b: f64) -> (f64, f64) {
    let p = a * b;
    let (ah, al) = split(a);
    let (bh, bl) = split(b);
    let e = ((ah * bh - p) + ah * bl + al * bh) + al * bl;
    (p, e)
}

/// A sum of numbers and products accumulated with a running error term.
#[derive(Clone, Copy, Default)]
pub struct Acc {
    s: f64,
    c: f64,
}

impl Acc {
    pub fn new() -> Acc {
        Acc { s: 0.0, c: 0.0 }
    }
    #[inline]
    pub fn add(&mut self, x: f64) {
        let (s, e) = two_sum(self.s, x);
        self.s = s;
        self.c += e;
    }
    #[inline]
    pub fn add_prod(&mut self, a: f64, b: f64) {
        let (p, e) = two_prod(a, b);
        let (s, e2) = two_sum(self.s, p);
        self.s = s;
        self.c += e + e2;
    }
    /// value as an unevaluated sum hi + lo
    pub fn dd(&self) -> (f64, f64) {
        two_sum(self.s, self.c)
    }
    pub fn val(&self) -> f64 {
        self.s + self.c
    }
}

/// Euclidean norm (inputs are moderate: no scaling needed, but guard against overflow anyway).
pub fn norm2(a: &[f64]) -> f64 {
    let m = a.iter().fold(0.0f64, |m, x| if x.is_nan() { f64::INFINITY } else { m.max(x.abs()) });
    if m == 0.0 || !m.is_finite() {
        return m;
    }
    let mut acc = Acc::new();
    for x in a {
        let t = x / m;
        acc.add_prod(t, t);
    }
    m * acc.val().sqrt()
}
