//! C07 — least squares and ridge regression return the exact minimiser of their objective.
//!
//! E1 over (X, y, model configuration, width). Two input spaces, both enumerated completely:
//!  * the lattice: every n x p matrix X over Σ4 (Σ3 for the largest shapes) and every y over
//!    {0,-1,2}^n, p in {1,2,(3)}, n = p+1..p+3, with the exact rank of X and [X 1] deciding the domain;
//!  * structured designs (Chebyshev-node Vandermonde, indicator with two phases, ramp), p <= 8, n <= 80, with
//!    every combination of 6 column-scale patterns over {1,1e-2,1e3}, 6 column-mean patterns over
//!    {0,5,100} and 4 targets; the domain is decided by the oracle's own singular values.
//! Every execution fits one model configuration (OLS, or ridge with one alpha and one normalise
//! setting) with BOTH solvers and checks every clause of the statement at the reported (w, b).
//! Round 2 (jobs `ways-*`): on a family of small cases the way the parameter struct is constructed is a
//! further choice — every order of the chained builder calls and the struct literal (check.rs, RIDGE_WAYS).
//! Round 2, second extension (jobs `grid-*`): a complete grid of row and column counts beyond the small structured sizes
//! (n = 18..80 including 64, 65, 67, 79; p in {1,2,3,5,6,7,8}) on a 6-pair subset of the scale/mean patterns.

mod check;
mod dd;
mod gen;

use check::{check_ols, check_ridge, Ctx};
use gen::{XInfo, W};
use mc_core::oracle::Mat;
use mc_core::{self as mc, json, Harness, Job, Plan, Tier};

struct C07;

// floors of the construction-order family: about a third of what the quick tier of seed 0 reaches
// (444 991 / 171 144 / 419 670 / 193 735 / 74 160 / 6 972)
const WAYS_FLOOR_ORDER: u64 = 150_000;
const WAYS_FLOOR_NONDEFAULT: u64 = 55_000;
const WAYS_FLOOR_NONZERO: u64 = 140_000;
const WAYS_FLOOR_F32: u64 = 60_000;
const WAYS_FLOOR_LITERAL: u64 = 25_000;
const WAYS_FLOOR_OLS: u64 = 2_300;

// floors of the row/column-count grid (order: see plan().floors): about a third of what the quick tier reaches
// (seed 0: 72 873 / 17 816 / 7 784 / 21 816 / 31 724 / 29 764 / 14 736 / 12 033; seeds 0..7 within 10 %)
const GRID_FLOORS: [u64; 8] = [24_000, 6_000, 2_500, 7_000, 10_000, 10_000, 4_500, 3_500];

const N_CONFIGS: usize = 9; // 0 = OLS; 1..=4 ridge normalize=on, alpha index; 5..=8 ridge normalize=off

fn config_name(c: usize) -> String {
    match c {
        0 => "OLS (QR and SVD)".to_string(),
        c => format!("ridge alpha={:e} normalize={} (Cholesky and SVD)", gen::ALPHAS[(c - 1) % 4], c <= 4),
    }
}

fn mat_str(x: &Mat) -> String {
    format!("[{}]", x.iter().map(|r| format!("[{}]", r.iter().map(|v| format!("{}", v)).collect::<Vec<_>>().join(","))).collect::<Vec<_>>().join(","))
}

/// One configuration on one (X, y): decides the domain, runs the checks, counts. Returns what the
/// library returned (None when the configuration is outside the domain for this X).
///
/// `way`: None = the jobs of round 1 (one fixed construction of the parameter struct: the builder call for least
/// squares, the struct literal for ridge); Some(k) = the construction-order family (round 2), k-th way.
fn run_config(xi: &XInfo, y: &[f64], cfg: usize, way: Option<usize>, label: &dyn Fn() -> String) -> Option<check::Observed> {
    let lim = xi.w.cond_limit();
    let cx = Ctx { xi, y, way: way.unwrap_or(if cfg == 0 { check::OLS_BUILDER } else { check::RIDGE_LITERAL }), label };
    let f32c = xi.w == W::F32;
    let obs = match cfg {
        0 => {
            if !xi.a_full_rank || !(xi.kappa_a() <= lim) {
                mc::count("skipped_ols_design_rank_deficient_or_cond_over_limit");
                return None;
            }
            mc::count("ols_cases");
            if f32c {
                mc::count("ols_cases_f32");
            }
            if xi.n == xi.p + 1 {
                mc::count("ols_square_system_zero_residual");
            }
            check_ols(&cx)
        }
        c => {
            let normalize = c <= 4;
            let alpha = gen::ALPHAS[(c - 1) % 4];
            if !xi.x_full_rank || !(xi.kappa_x() <= lim) {
                mc::count("skipped_ridge_x_rank_deficient_or_cond_over_limit");
                return None;
            }
            if normalize {
                // standardisation is defined only for non-constant columns
                if xi.z.is_none() {
                    mc::count("skipped_ridge_norm_on_constant_column");
                    return None;
                }
                if !xi.a_full_rank {
                    // non-constant columns with an affine dependency (e.g. x1 + x2 = 1): Z is rank deficient,
                    // the ridge minimiser is still unique
                    mc::count("ridge_norm_on_with_standardised_columns_dependent");
                }
                // the centred data keep fewer than 3 digits in this width: the standardised objective is not resolved
                if xi.kappa_s * xi.w.eps() > 1e-3 {
                    mc::count("skipped_ridge_norm_on_unresolved_in_width");
                    return None;
                }
                mc::count("ridge_norm_on_cases");
            } else {
                mc::count("ridge_norm_off_cases");
                if !xi.a_full_rank {
                    mc::count("ridge_norm_off_with_constant_or_dependent_on_ones");
                }
            }
            if f32c {
                mc::count("ridge_cases_f32");
            }
            check_ridge(&cx, alpha, normalize)
        }
    };
    if xi.mu.iter().any(|m| *m != 0.0) {
        mc::count("nonzero_column_mean");
    }
    if obs.nontrivial {
        mc::nontrivial();
        mc::count("nonzero_model");
    }
    if let Some(k) = way {
        // non-vacuity of the construction-order family (in-domain executions that reached the oracle)
        if cfg == 0 {
            mc::count(if k == check::OLS_BUILDER { "ways_ols_builder_cases" } else { "ways_ols_literal_cases" });
        } else if k == check::RIDGE_LITERAL {
            mc::count("ways_ridge_literal_cases");
        } else {
            mc::count("ways_ridge_builder_order_cases");
            // a call that resets another field to its default (alpha 1, normalize on) is visible in the fitted model
            // only if the requested value is not the default
            if cfg > 4 && gen::ALPHAS[(cfg - 1) % 4] != 1.0 {
                mc::count("ways_ridge_builder_alpha_and_normalize_both_nondefault");
            }
            if obs.nontrivial {
                mc::count("ways_ridge_builder_nonzero_model");
            }
            if f32c {
                mc::count("ways_ridge_builder_cases_f32");
            }
        }
    }
    Some(obs)
}

/// Construction-order family: chooses how the parameter struct of configuration `cfg` is constructed
/// (7 ways for ridge, 2 for least squares); None for the jobs of round 1.
fn choose_way(job: &Job, cfg: usize) -> Option<usize> {
    if job.params["ways"].as_bool() != Some(true) {
        return None;
    }
    Some(mc::choose(if cfg == 0 { check::OLS_WAYS } else { check::RIDGE_WAYS }))
}

fn way_str(cfg: usize, way: Option<usize>) -> String {
    match way {
        None => String::new(),
        Some(k) => format!(" params={}", check::way_name(cfg == 0, k)),
    }
}

fn obs_json(o: &Option<check::Observed>) -> mc::Value {
    match o {
        None => json!("configuration outside the domain for this X (skipped, counted)"),
        Some(o) => json!(o.models.iter().map(|(s, w, b)| json!({"solver": s, "coefficients": w, "intercept": b})).collect::<Vec<_>>()),
    }
}

fn width_of(job: &Job) -> W {
    if job.s("width") == "f32" {
        W::F32
    } else {
        W::F64
    }
}

/// Lattice: the job fixes the leading entries of X (row-major alphabet indices); the rest of X,
/// then y, then the configuration are chosen.
fn lattice_case(job: &Job) {
    let (p, n, k) = (job.u("p"), job.u("n"), job.u("k"));
    let w = width_of(job);
    let seed = job.u("seed") % gen::SEED_MAPS.len();
    let (ax, cx_, ay, cy) = gen::SEED_MAPS[seed];
    let fixed: Vec<usize> = job.params["fix"].as_array().map(|a| a.iter().map(|v| v.as_u64().unwrap() as usize).collect()).unwrap_or_default();
    let mut idx = Vec::with_capacity(n * p);
    for e in 0..n * p {
        idx.push(if e < fixed.len() { fixed[e] } else { mc::choose(k) });
    }
    let x_raw: Mat = (0..n).map(|i| (0..p).map(|j| ax * gen::SIGMA4[idx[i * p + j]] as f64 + cx_).collect()).collect();
    // exact ranks of the matrix the library sees: 8 * (a v + c) is an integer for every seed map
    let ranks = || {
        let x8: Vec<Vec<i64>> = x_raw.iter().map(|r| r.iter().map(|v| (v * 8.0) as i64).collect()).collect();
        assert!(x_raw.iter().flatten().all(|v| (v * 8.0).fract() == 0.0));
        gen::exact_ranks(&x8)
    };
    let xi = gen::xinfo(&x_raw, w, Some(&ranks));
    if !xi.x_full_rank {
        // X itself rank deficient: outside the statement for every model
        mc::count("skipped_lattice_x_rank_deficient");
        mc::describe(|| json!({"space": "lattice", "X": x_raw, "skipped": "rank(X) < p (exact)"}));
        return;
    }
    let y: Vec<f64> = (0..n).map(|_| ay * gen::YALPHA[mc::choose(3)] as f64 + cy).collect();
    let cfg = mc::choose(N_CONFIGS);
    let way = choose_way(job, cfg);
    let label = || format!("lattice {} X={} y={:?}{}", w.name(), mat_str(&xi.x), y, way_str(cfg, way));
    let obs = run_config(&xi, &y, cfg, way, &label);
    mc::describe(|| {
        json!({"space": "lattice", "parameters_constructed_by": way.map(|k| check::way_name(cfg == 0, k)), "observed": obs_json(&obs), "width": w.name(), "X": xi.x, "y": y, "config": config_name(cfg),
               "rank_X_full": xi.x_full_rank, "rank_X1_full": xi.a_full_rank, "cond_X1": xi.kappa_a(), "cond_X": xi.kappa_x()})
    });
}

/// Structured designs: the job fixes (design, p, n); width, scale pattern, mean pattern, target
/// and configuration are chosen.
fn structured_case(job: &Job) {
    let design = job.s("design").to_string();
    let w = if mc::choose(2) == 0 { W::F64 } else { W::F32 };
    let sp = mc::choose(6);
    let mp = mc::choose(6);
    structured_exec(job, &design, w, sp, mp, false);
}

/// The (scale pattern, mean pattern) pairs of the row/column-count grid (indices into the 6 x 6 patterns of the
/// structured space): unit scales / zero means; unit scales / means all 5; cyclic scales from 1 / zero means;
/// all 1e3 / cyclic means from 5; cyclic scales from 1e-2 / cyclic means from 0; all 1e-2 / zero means.
/// Pairs 0 and 1 (equal column scales, so that cond stays within the f32 limit) are run in f32 as well: a third.
const GRID_PATTERNS: [(usize, usize); 6] = [(0, 0), (0, 1), (3, 0), (2, 4), (4, 3), (1, 0)];
const GRID_F32_PATTERNS: usize = 2;
/// every target of the structured space (the task asked for 2; all 4 cost 3 CPU-seconds in total)
const GRID_TARGETS: usize = gen::N_YTYPES;
const GRID_PS_QUICK: [usize; 7] = [1, 2, 3, 5, 6, 7, 8];
const GRID_NS: [usize; 9] = [18, 23, 33, 47, 64, 65, 67, 79, 80];
/// thorough only: row counts beyond the structured space of round 1 (which stops at n = 80)
const GRID_NS_BEYOND: [usize; 7] = [81, 95, 96, 97, 127, 128, 129];

fn grid_ns(p: usize) -> Vec<usize> {
    let mut v = vec![p + 1];
    v.extend(GRID_NS.iter().filter(|n| **n > p + 1));
    v
}

/// Row/column-count grid (round 2, second extension): the job fixes (p, n); design, (scale, mean) pattern pair, width,
/// target and configuration are chosen.
fn grid_case(job: &Job) {
    let design = gen::DESIGNS[mc::choose(gen::DESIGNS.len())];
    let k = mc::choose(GRID_PATTERNS.len());
    let w = if k < GRID_F32_PATTERNS && mc::choose(2) == 1 { W::F32 } else { W::F64 };
    let (sp, mp) = GRID_PATTERNS[k];
    structured_exec(job, design, w, sp, mp, true);
}

/// One structured execution; `grid` = true for the jobs of the row/column-count grid (own counters).
fn structured_exec(job: &Job, design: &str, w: W, sp: usize, mp: usize, grid: bool) {
    let (p, n) = (job.u("p"), job.u("n"));
    let seed = job.u("seed") as u64;
    let rot = (seed % 3) as usize;
    let base = gen::base_design(design, n, p, seed);
    let x_raw: Mat = base
        .iter()
        .map(|r| (0..p).map(|j| gen::MEANS[gen::pattern(mp, j, rot)] + gen::SCALES[gen::pattern(sp, j, rot)] * r[j]).collect())
        .collect();
    let xi = gen::xinfo(&x_raw, w, None);
    let yt = mc::choose(if grid { GRID_TARGETS } else { gen::N_YTYPES });
    let y: Vec<f64> = gen::structured_y(yt, &base, n, p, seed).into_iter().map(|v| w.round(v)).collect();
    let cfg = mc::choose(N_CONFIGS);
    let way = choose_way(job, cfg);
    let sname = gen::pattern_name(sp, ["1", "1e-2", "1e3"], rot);
    let mname = gen::pattern_name(mp, ["0", "5", "100"], rot);
    let label = || {
        let mut s = format!("structured {} design={} n={} p={} column scales {} column means {} y={}", w.name(), design, n, p, sname, mname, gen::ytype_name(yt));
        if n * p <= 12 {
            s.push_str(&format!(" X={} y={:?}", mat_str(&xi.x), y));
        }
        s.push_str(&way_str(cfg, way));
        s
    };
    if sp != 0 {
        mc::count("structured_nonunit_column_scales");
    }
    let obs = run_config(&xi, &y, cfg, way, &label);
    if grid {
        grid_counters(&xi, cfg, sp, mp, obs.is_some());
    }
    mc::describe(|| {
        json!({"space": if grid { "structured (row/column-count grid)" } else { "structured" }, "parameters_constructed_by": way.map(|k| check::way_name(cfg == 0, k)), "observed": obs_json(&obs), "width": w.name(), "design": design, "n": n, "p": p, "column_scales": sname, "column_means": mname,
               "target": gen::ytype_name(yt), "config": config_name(cfg), "cond_X1": xi.kappa_a(), "cond_X": xi.kappa_x(), "max_mean_over_std": xi.kappa_s - 1.0,
               "X_first_rows": xi.x.iter().take(4).collect::<Vec<_>>(), "y_first": y.iter().take(4).collect::<Vec<_>>()})
    });
}

/// Non-vacuity of the row/column-count grid: in-domain executions that reached the oracle, by the classes the family
/// was added for.
fn grid_counters(xi: &XInfo, cfg: usize, sp: usize, mp: usize, in_domain: bool) {
    if !in_domain {
        mc::count("grid_skipped_outside_domain_cond_or_constant_column");
        return;
    }
    let (n, p) = (xi.n, xi.p);
    mc::count("grid_cases");
    if xi.w == W::F32 {
        mc::count("grid_cases_f32");
    }
    if cfg == 0 {
        mc::count("grid_ols_cases");
    }
    if n > 64 && n % 2 == 1 {
        mc::count("grid_cases_rows_over_64_odd");
    }
    if n > 32 && n % 4 != 0 && p % 4 != 0 {
        // neither count is a multiple of the usual block sizes: remainder rows meet remainder columns
        mc::count("grid_cases_rows_over_32_n_and_p_not_multiples_of_4");
    }
    if p >= 5 && n % 4 != 0 {
        mc::count("grid_cases_p_5_to_8_n_not_multiple_of_4");
    }
    if sp >= 3 {
        mc::count("grid_cases_different_column_scales");
    }
    // standardising path with non-zero column means outside the D1 class: a wrong column mean / variance / centred
    // Gram matrix is visible here under a site key that is not a known finding
    if (1..=4).contains(&cfg) && n > 16 && mp != 0 && xi.kappa_s - 1.0 <= check::LARGE_MEAN_OVER_STD {
        mc::count("grid_ridge_norm_on_rows_over_16_nonzero_means_within_64std");
    }
}

fn lattice_jobs(jobs: &mut Vec<Job>, p: usize, n: usize, k: usize, nfix: usize, widths: &[&str], seed: u64) {
    lattice_jobs_w(jobs, p, n, k, nfix, widths, seed, false)
}

/// `ways` = true: the construction-order family (job names `ways-lattice-..`; the round-1 jobs are exactly those matching `--job lat-p` and `--job str-`)
#[allow(clippy::too_many_arguments)]
fn lattice_jobs_w(jobs: &mut Vec<Job>, p: usize, n: usize, k: usize, nfix: usize, widths: &[&str], seed: u64, ways: bool) {
    let combos = k.pow(nfix as u32);
    for w in widths {
        for c in 0..combos {
            let mut fix = Vec::new();
            let mut r = c;
            for _ in 0..nfix {
                fix.push(r % k);
                r /= k;
            }
            fix.reverse();
            jobs.push(Job::new(
                format!("{}-p{}-n{}-s{}-{}-{}", if ways { "ways-lattice" } else { "lat" }, p, n, k, w, fix.iter().map(|d| d.to_string()).collect::<String>()),
                json!({"kind": "lat", "p": p, "n": n, "k": k, "width": w, "fix": fix, "seed": seed, "ways": ways}),
            ));
        }
    }
}

fn structured_ns(p: usize, thorough: bool) -> Vec<usize> {
    if thorough {
        (p + 1..=80).collect()
    } else {
        let mut v = vec![p + 1, p + 2, 2 * p + 1, 3 * p + 2, 20, 47, 80];
        v.retain(|n| *n > p);
        v.sort_unstable();
        v.dedup();
        v
    }
}

impl Harness for C07 {
    fn id(&self) -> &'static str {
        "C07"
    }

    fn plan(&self, tier: Tier, seed: u64) -> Plan {
        let t = tier.is_thorough();
        let mut jobs = Vec::new();
        let both = ["f64", "f32"];
        // p = 1: n = 2..4 over Σ4
        for n in 2..=4 {
            lattice_jobs(&mut jobs, 1, n, 4, 0, &both, seed);
        }
        // p = 2, n = 3 over Σ4 (4096 X)
        lattice_jobs(&mut jobs, 2, 3, 4, 2, &both, seed);
        if t {
            // p = 1, n = 5, 6 over Σ4; p = 2, n = 4 over Σ4 (65 536 X), n = 5 over Σ3 (59 049 X); p = 3, n = 4 over Σ3 (531 441 X)
            lattice_jobs(&mut jobs, 1, 5, 4, 1, &both, seed);
            lattice_jobs(&mut jobs, 1, 6, 4, 3, &both, seed);
            lattice_jobs(&mut jobs, 2, 4, 4, 4, &both, seed);
            lattice_jobs(&mut jobs, 2, 5, 3, 4, &both, seed);
            lattice_jobs(&mut jobs, 3, 4, 3, 6, &both, seed);
        } else {
            // p = 2, n = 4 over Σ3 (6561 X)
            lattice_jobs(&mut jobs, 2, 4, 3, 2, &both, seed);
        }
        // Round 2 — construction-order family: the same lattice cases, every configuration, with the parameter struct
        // constructed in each of the 7 (ridge) / 2 (least squares) ways. quick: p = 1, n = 2, 3; thorough: + p = 1, n = 4
        // and p = 2, n = 3 (all over Σ4).
        lattice_jobs_w(&mut jobs, 1, 2, 4, 0, &both, seed, true);
        lattice_jobs_w(&mut jobs, 1, 3, 4, 0, &both, seed, true);
        if t {
            lattice_jobs_w(&mut jobs, 1, 4, 4, 1, &both, seed, true);
            lattice_jobs_w(&mut jobs, 2, 3, 4, 2, &both, seed, true);
        }
        let mut structured = Vec::new();
        // construction-order family on the structured designs: quick p = 1..3, n in {p+1, 3p+2}; thorough p = 1..5 with
        // the seven n of the quick structured space
        for p in 1..=(if t { 5usize } else { 3 }) {
            let ns = if t { structured_ns(p, false) } else { vec![p + 1, 3 * p + 2] };
            for n in ns {
                for d in gen::DESIGNS {
                    structured.push((n * p, Job::new(format!("ways-structured-{}-p{}-n{}", d, p, n), json!({"kind": "str", "design": d, "p": p, "n": n, "seed": seed, "ways": true}))));
                }
            }
        }
        for p in 1..=8usize {
            for n in structured_ns(p, t) {
                for d in gen::DESIGNS {
                    structured.push((n * p, Job::new(format!("str-{}-p{}-n{}", d, p, n), json!({"kind": "str", "design": d, "p": p, "n": n, "seed": seed}))));
                }
            }
        }
        // Round 2, second extension — row/column-count grid: quick p in {1,2,3,5,6,7,8} x n in {p+1,18,23,33,47,64,65,67,79,80},
        // 4 designs x 6 (scale, mean) pattern pairs x 4 targets x 9 configurations, f64 (+ f32 for 2 of the 6 pairs);
        // thorough: p = 1..8, and additionally the FULL structured space (36 pattern pairs, 4 targets, both widths) at the
        // row counts n in {81,95,96,97,127,128,129} beyond the n <= 80 of round 1
        let grid_ps: Vec<usize> = if t { (1..=8).collect() } else { GRID_PS_QUICK.to_vec() };
        for p in grid_ps {
            for n in grid_ns(p) {
                structured.push((n * p * 4, Job::new(format!("grid-p{}-n{}", p, n), json!({"kind": "grid", "p": p, "n": n, "seed": seed}))));
            }
            if t {
                for n in GRID_NS_BEYOND {
                    for d in gen::DESIGNS {
                        structured.push((n * p, Job::new(format!("grid-beyond-{}-p{}-n{}", d, p, n), json!({"kind": "str", "design": d, "p": p, "n": n, "seed": seed}))));
                    }
                }
            }
        }
        structured.sort_by_key(|(c, _)| *c);
        jobs.extend(structured.into_iter().map(|(_, j)| j));
        let jobs = {
            let mut j: Vec<Job> = jobs;
            j.insert(0, Job::new("builders", json!({"kind": "builders"})));
            for i in 0..mc_sc::entry::n_parts("C07") {
                j.insert(1 + i, Job::new(format!("entry-{}", i), json!({"kind": "entry", "part": i})));
            }
            j
        };
        Plan {
            jobs,
            budget_s: if t { 2700 } else { 40 },
            case_deadline_ms: 20_000,
            // about a quarter of what the quick tier of seed 0 reaches (the thorough tier reaches 50x more)
            floors: vec![
                ("builder_chains", 5),
                ("entry_cases", 1000),
                ("ols_cases", 250_000),
                ("ols_cases_f32", 120_000),
                ("ols_square_system_zero_residual", 40_000),
                ("ols_agreement_decisive", 250_000),
                ("ridge_norm_on_cases", 1_000_000),
                ("ridge_norm_off_cases", 1_000_000),
                ("ridge_norm_off_with_constant_or_dependent_on_ones", 100_000),
                ("ridge_norm_on_with_standardised_columns_dependent", 10_000),
                ("ridge_cases_f32", 1_000_000),
                ("ridge_agreement_decisive", 2_000_000),
                ("ridge_norm_on_large_mean_over_std", 10_000),
                ("nonzero_column_mean", 2_500_000),
                ("structured_nonunit_column_scales", 100_000),
                ("skipped_lattice_x_rank_deficient", 50),
                ("nonzero_model", 2_500_000),
                // construction-order family (round 2): about a third of what the quick tier of seed 0 reaches
                ("ways_ridge_builder_order_cases", WAYS_FLOOR_ORDER),
                ("ways_ridge_builder_alpha_and_normalize_both_nondefault", WAYS_FLOOR_NONDEFAULT),
                ("ways_ridge_builder_nonzero_model", WAYS_FLOOR_NONZERO),
                ("ways_ridge_builder_cases_f32", WAYS_FLOOR_F32),
                ("ways_ridge_literal_cases", WAYS_FLOOR_LITERAL),
                ("ways_ols_builder_cases", WAYS_FLOOR_OLS),
                ("ways_ols_literal_cases", WAYS_FLOOR_OLS),
                // row/column-count grid: about a third of what the quick tier of seed 0 reaches
                ("grid_cases", GRID_FLOORS[0]),
                ("grid_cases_f32", GRID_FLOORS[1]),
                ("grid_ols_cases", GRID_FLOORS[2]),
                ("grid_cases_rows_over_64_odd", GRID_FLOORS[3]),
                ("grid_cases_rows_over_32_n_and_p_not_multiples_of_4", GRID_FLOORS[4]),
                ("grid_cases_p_5_to_8_n_not_multiple_of_4", GRID_FLOORS[5]),
                ("grid_cases_different_column_scales", GRID_FLOORS[6]),
                ("grid_ridge_norm_on_rows_over_16_nonzero_means_within_64std", GRID_FLOORS[7]),
            ],
            bounds: json!({
                "builders": mc_sc::builders::BOUNDS,
                "entry_paths": mc_sc::entry::BOUNDS,
                "lattice": if t {
                    "every X over {0,1,-1,2}: p=1 n=2..6, p=2 n=3..4; every X over {0,1,-1}: p=2 n=5, p=3 n=4; every y over {0,-1,2}^n; f64 and f32"
                } else {
                    "every X over {0,1,-1,2}: p=1 n=2..4, p=2 n=3; every X over {0,1,-1}: p=2 n=4; every y over {0,-1,2}^n; f64 and f32"
                },
                "structured": format!("designs {:?} x p=1..8 x n in {} x 6 column-scale patterns over {{1,1e-2,1e3}} x 6 column-mean patterns over {{0,5,100}} x 4 targets x f64/f32",
                    gen::DESIGNS, if t { "p+1..80 (every n)" } else { "{p+1,p+2,2p+1,3p+2,20,47,80}" }),
                "row_column_count_grid": format!("round 2, second extension (jobs grid-*): designs {:?} x p in {} x n in {{p+1,18,23,33,47,64,65,67,79,80}} x 6 (column-scale, column-mean) pattern pairs [all 1/all 0; all 1/all 5; cyclic scales from 1/all 0; all 1e3/cyclic means from 5; cyclic scales from 1e-2/cyclic means from 0; all 1e-2/all 0] x 4 targets x all 9 configurations (OLS both solvers; ridge 4 alpha x normalize x both solvers), f64, and f32 for the first two pattern pairs (a third); domain (cond <= limit by the oracle's Jacobi singular values, non-constant columns) decided as for the structured space, skipped designs counted{}",
                    gen::DESIGNS, if t { "1..8" } else { "{1,2,3,5,6,7,8}" },
                    if t { "; thorough additionally the full structured space (36 pattern pairs x 4 targets x f64/f32 x 9 configurations) at n in {81,95,96,97,127,128,129}, p=1..8 (jobs grid-beyond-*)" } else { "" }),
                "configurations": "OLS {QR,SVD}; ridge alpha in {1e-3,0.1,1,100} x normalize {on,off} x {Cholesky,SVD}",
                "parameter_construction": format!("round 1 spaces above: one fixed way (OLS: default().with_solver(s); ridge: struct literal). Round-2 family (jobs ways-*): every configuration above (16 ridge: 4 alpha x normalize x solver; 2 OLS) x EVERY way of constructing the parameter struct — ridge 7 ways: Default::default() followed by with_alpha / with_normalize / with_solver in each of the 3! = 6 orders, and the struct literal; OLS 2 ways: default().with_solver(s) and the struct literal — on: lattice every X over {{0,1,-1,2}} {}, every y over {{0,-1,2}}^n, f64 and f32; structured designs {:?} x {} x 6 scale patterns x 6 mean patterns x 4 targets x f64/f32. Clauses: all of the above for the REQUESTED configuration, plus the constructed struct carries the requested solver / alpha / normalize.",
                    if t { "p=1 n=2..4, p=2 n=3" } else { "p=1 n=2..3" }, gen::DESIGNS, if t { "p=1..5 x n in {p+1,p+2,2p+1,3p+2,20,47,80}" } else { "p=1..3 x n in {p+1,3p+2}" }),
                "domain": "OLS: [X 1] full column rank (exact on the lattice) and cond2([X 1]) <= 1e6 (f64) / 1e3 (f32); ridge: X full column rank and cond2(X) <= limit; normalize=on additionally needs non-constant columns (an affine dependency between non-constant columns is allowed)",
                "seed": format!("affine image of the lattice alphabet #{} of 8; rotation of the cyclic scale/mean patterns and indicator offset", seed % 8),
            }),
        }
    }

    fn run(&self, job: &Job) {
        if job.kind() == "entry" {
            return mc_sc::entry::run_part("C07", job.u("part"));
        }
        if job.kind() == "builders" {
            return mc_sc::builders::run("C07");
        }
        match job.kind() {
            "lat" => lattice_case(job),
            "grid" => grid_case(job),
            "str" => structured_case(job),
            other => panic!("unknown job kind {}", other),
        }
    }

    fn rule(&self) -> String {
        "one execution = one (X, y, width, model configuration) fitted with both solvers; non-trivial when the fit returned a non-zero model; distinct = distinct bit-exact digest of the returned coefficients and intercepts of both solvers".into()
    }

    fn assumptions(&self) -> Vec<String> {
        vec![
            "inputs are rounded to the working type before the oracle sees them; the oracle works in f64 with compensated sums".into(),
            "'standardised' means centred by the column mean and divided by the population standard deviation (the convention of linalg/stats.rs)".into(),
            "f32 is checked for designs with cond <= 1e3 only ('scaled tolerance' of the statement); normalize=on is checked only while (1+max|mean|/std)*eps_T <= 1e-3, its gradient clauses only while 64*n*eps_T*(1+max|mean|/std) <= 0.05".into(),
            "no RNG on any explored path (linear models are deterministic); RNG allow-list checked at start-up".into(),
        ]
    }
}

fn main() {
    if let Err(e) = mc_sc::check_rng_sites() {
        eprintln!("MACHINERY-ERROR: {}", e);
        std::process::exit(2);
    }
    mc::main(C07)
}
