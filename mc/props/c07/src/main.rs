//! C07 — least squares and ridge regression return the exact minimiser of their objective.
//!
//! E1 over (X, y, model configuration, width). Two input spaces, both enumerated completely:
//!  * the lattice: every n x p matrix X over Σ4 (Σ3 for the largest shapes) and every y over
//!    {0,-1,2}^n, p in {1,2,(3)}, n = p+1..p+3, with the exact rank of X and [X 1] deciding the domain;
//!  * structured designs (Chebyshev-node Vandermonde, indicator with two phases, ramp), p <= 8, n <= 80, with
//!    every combination of 6 column-scale patterns over {1,1e-2,1e3}, 6 column-mean patterns over
//!    {0,5,100} and 4 targets; the domain is decided by the oracle's own singular values.
//! Every execution fits one model configuration (OLS, or ridge with one alpha and one normalise
//! setting) with BOTH solvers and checks every clause of the statement at the reported (w, b).
//! Round 2 (jobs `ways-*`): on a family of small cases the way the parameter struct is constructed is a
//! further choice — every order of the chained builder calls and the struct literal (check.rs, RIDGE_WAYS).

mod check;
mod dd;
mod gen;

use check::{check_ols, check_ridge, Ctx};
use gen::{XInfo, W};
use mc_core::oracle::Mat;
use mc_core::{self as mc, json, Harness, Job, Plan, Tier};

struct C07;

// floors of the construction-order family: about a third of what the quick tier of seed 0 reaches
// (444 991 / 171 144 / 419 670 / 193 735 / 74 160 / 6 972)
const WAYS_FLOOR_ORDER: u64 = 150_000;
const WAYS_FLOOR_NONDEFAULT: u64 = 55_000;
const WAYS_FLOOR_NONZERO: u64 = 140_000;
const WAYS_FLOOR_F32: u64 = 60_000;
const WAYS_FLOOR_LITERAL: u64 = 25_000;
const WAYS_FLOOR_OLS: u64 = 2_300;

const N_CONFIGS: usize = 9; // 0 = OLS; 1..=4 ridge normalize=on, alpha index; 5..=8 ridge normalize=off

fn config_name(c: usize) -> String {
    match c {
        0 => "OLS (QR and SVD)".to_string(),
        c => format!("ridge alpha={:e} normalize={} (Cholesky and SVD)", gen::ALPHAS[(c - 1) % 4], c <= 4),
    }
}

fn mat_str(x: &Mat) -> String {
    format!("[{}]", x.iter().map(|r| format!("[{}]", r.iter().map(|v| format!("{}", v)).collect::<Vec<_>>().join(","))).collect::<Vec<_>>().join(","))
}

/// One configuration on one (X, y): decides the domain, runs the checks, counts. Returns what the
/// library returned (None when the configuration is outside the domain for this X).
///
/// `way`: None = the jobs of round 1 (one fixed construction of the parameter struct: the builder call for least
/// squares, the struct literal for ridge); Some(k) = the construction-order family (round 2), k-th way.
fn run_config(xi: &XInfo, y: &[f64], cfg: usize, way: Option<usize>, label: &dyn Fn() -> String) -> Option<check::Observed> {
    let lim = xi.w.cond_limit();
    let cx = Ctx { xi, y, way: way.unwrap_or(if cfg == 0 { check::OLS_BUILDER } else { check::RIDGE_LITERAL }), label };
    let f32c = xi.w == W::F32;
    let obs = match cfg {
        0 => {
            if !xi.a_full_rank || !(xi.kappa_a() <= lim) {
                mc::count("skipped_ols_design_rank_deficient_or_cond_over_limit");
                return None;
            }
            mc::count("ols_cases");
            if f32c {
                mc::count("ols_cases_f32");
            }
            if xi.n == xi.p + 1 {
                mc::count("ols_square_system_zero_residual");
            }
            check_ols(&cx)
        }
        c => {
            let normalize = c <= 4;
            let alpha = gen::ALPHAS[(c - 1) % 4];
            if !xi.x_full_rank || !(xi.kappa_x() <= lim) {
                mc::count("skipped_ridge_x_rank_deficient_or_cond_over_limit");
                return None;
            }
            if normalize {
                // standardisation is defined only for non-constant columns
                if xi.z.is_none() {
                    mc::count("skipped_ridge_norm_on_constant_column");
                    return None;
                }
                if !xi.a_full_rank {
                    // non-constant columns with an affine dependency (e.g. x1 + x2 = 1): Z is rank deficient,
                    // the ridge minimiser is still unique
                    mc::count("ridge_norm_on_with_standardised_columns_dependent");
                }
                // the centred data keep fewer than 3 digits in this width: the standardised objective is not resolved
                if xi.kappa_s * xi.w.eps() > 1e-3 {
                    mc::count("skipped_ridge_norm_on_unresolved_in_width");
                    return None;
                }
                mc::count("ridge_norm_on_cases");
            } else {
                mc::count("ridge_norm_off_cases");
                if !xi.a_full_rank {
                    mc::count("ridge_norm_off_with_constant_or_dependent_on_ones");
                }
            }
            if f32c {
                mc::count("ridge_cases_f32");
            }
            check_ridge(&cx, alpha, normalize)
        }
    };
    if xi.mu.iter().any(|m| *m != 0.0) {
        mc::count("nonzero_column_mean");
    }
    if obs.nontrivial {
        mc::nontrivial();
        mc::count("nonzero_model");
    }
    if let Some(k) = way {
        // non-vacuity of the construction-order family (in-domain executions that reached the oracle)
        if cfg == 0 {
            mc::count(if k == check::OLS_BUILDER { "ways_ols_builder_cases" } else { "ways_ols_literal_cases" });
        } else if k == check::RIDGE_LITERAL {
            mc::count("ways_ridge_literal_cases");
        } else {
            mc::count("ways_ridge_builder_order_cases");
            // a call that resets another field to its default (alpha 1, normalize on) is visible in the fitted model
            // only if the requested value is not the default
            if cfg > 4 && gen::ALPHAS[(cfg - 1) % 4] != 1.0 {
                mc::count("ways_ridge_builder_alpha_and_normalize_both_nondefault");
            }
            if obs.nontrivial {
                mc::count("ways_ridge_builder_nonzero_model");
            }
            if f32c {
                mc::count("ways_ridge_builder_cases_f32");
            }
        }
    }
    Some(obs)
}

/// Construction-order family: chooses how the parameter struct of configuration `cfg` is constructed
/// (7 ways for ridge, 2 for least squares); None for the jobs of round 1.
fn choose_way(job: &Job, cfg: usize) -> Option<usize> {
    if job.params["ways"].as_bool() != Some(true) {
        return None;
    }
    Some(mc::choose(if cfg == 0 { check::OLS_WAYS } else { check::RIDGE_WAYS }))
}

fn way_str(cfg: usize, way: Option<usize>) -> String {
    match way {
        None => String::new(),
        Some(k) => format!(" params={}", check::way_name(cfg == 0, k)),
    }
}

fn obs_json(o: &Option<check::Observed>) -> mc::Value {
    match o {
        None => json!("configuration outside the domain for this X (skipped, counted)"),
        Some(o) => json!(o.models.iter().map(|(s, w, b)| json!({"solver": s, "coefficients": w, "intercept": b})).collect::<Vec<_>>()),
    }
}

fn width_of(job: &Job) -> W {
    if job.s("width") == "f32" {
        W::F32
    } else {
        W::F64
    }
}

/// Lattice: the job fixes the leading entries of X (row-major alphabet indices); the rest of X,
/// then y, then the configuration are chosen.
fn lattice_case(job: &Job) {
    let (p, n, k) = (job.u("p"), job.u("n"), job.u("k"));
    let w = width_of(job);
    let seed = job.u("seed") % gen::SEED_MAPS.len();
    let (ax, cx_, ay, cy) = gen::SEED_MAPS[seed];
    let fixed: Vec<usize> = job.params["fix"].as_array().map(|a| a.iter().map(|v| v.as_u64().unwrap() as usize).collect()).unwrap_or_default();
    let mut idx = Vec::with_capacity(n * p);
    for e in 0..n * p {
        idx.push(if e < fixed.len() { fixed[e] } else { mc::choose(k) });
    }
    let x_raw: Mat = (0..n).map(|i| (0..p).map(|j| ax * gen::SIGMA4[idx[i * p + j]] as f64 + cx_).collect()).collect();
    // exact ranks of the matrix the library sees: 8 * (a v + c) is an integer for every seed map
    let ranks = || {
        let x8: Vec<Vec<i64>> = x_raw.iter().map(|r| r.iter().map(|v| (v * 8.0) as i64).collect()).collect();
        assert!(x_raw.iter().flatten().all(|v| (v * 8.0).fract() == 0.0));
        gen::exact_ranks(&x8)
    };
    let xi = gen::xinfo(&x_raw, w, Some(&ranks));
    if !xi.x_full_rank {
        // X itself rank deficient: outside the statement for every model
        mc::count("skipped_lattice_x_rank_deficient");
        mc::describe(|| json!({"space": "lattice", "X": x_raw, "skipped": "rank(X) < p (exact)"}));
        return;
    }
    let y: Vec<f64> = (0..n).map(|_| ay * gen::YALPHA[mc::choose(3)] as f64 + cy).collect();
    let cfg = mc::choose(N_CONFIGS);
    let way = choose_way(job, cfg);
    let label = || format!("lattice {} X={} y={:?}{}", w.name(), mat_str(&xi.x), y, way_str(cfg, way));
    let obs = run_config(&xi, &y, cfg, way, &label);
    mc::describe(|| {
        json!({"space": "lattice", "parameters_constructed_by": way.map(|k| check::way_name(cfg == 0, k)), "observed": obs_json(&obs), "width": w.name(), "X": xi.x, "y": y, "config": config_name(cfg),
               "rank_X_full": xi.x_full_rank, "rank_X1_full": xi.a_full_rank, "cond_X1": xi.kappa_a(), "cond_X": xi.kappa_x()})
    });
}

/// Structured designs: the job fixes (design, p, n); width, scale pattern, mean pattern, target
/// and configuration are chosen.
fn structured_case(job: &Job) {
    let (p, n) = (job.u("p"), job.u("n"));
    let design = job.s("design").to_string();
    let seed = job.u("seed") as u64;
    let rot = (seed % 3) as usize;
    let w = if mc::choose(2) == 0 { W::F64 } else { W::F32 };
    let sp = mc::choose(6);
    let mp = mc::choose(6);
    let base = gen::base_design(&design, n, p, seed);
    let x_raw: Mat = base
        .iter()
        .map(|r| (0..p).map(|j| gen::MEANS[gen::pattern(mp, j, rot)] + gen::SCALES[gen::pattern(sp, j, rot)] * r[j]).collect())
        .collect();
    let xi = gen::xinfo(&x_raw, w, None);
    let yt = mc::choose(gen::N_YTYPES);
    let y: Vec<f64> = gen::structured_y(yt, &base, n, p, seed).into_iter().map(|v| w.round(v)).collect();
    let cfg = mc::choose(N_CONFIGS);
    let way = choose_way(job, cfg);
    let sname = gen::pattern_name(sp, ["1", "1e-2", "1e3"], rot);
    let mname = gen::pattern_name(mp, ["0", "5", "100"], rot);
    let label = || {
        let mut s = format!("structured {} design={} n={} p={} column scales {} column means {} y={}", w.name(), design, n, p, sname, mname, gen::ytype_name(yt));
        if n * p <= 12 {
            s.push_str(&format!(" X={} y={:?}", mat_str(&xi.x), y));
        }
        s.push_str(&way_str(cfg, way));
        s
    };
    if sp != 0 {
        mc::count("structured_nonunit_column_scales");
    }
    let obs = run_config(&xi, &y, cfg, way, &label);
    mc::describe(|| {
        json!({"space": "structured", "parameters_constructed_by": way.map(|k| check::way_name(cfg == 0, k)), "observed": obs_json(&obs), "width": w.name(), "design": design, "n": n, "p": p, "column_scales": sname, "column_means": mname,
               "target": gen::ytype_name(yt), "config": config_name(cfg), "cond_X1": xi.kappa_a(), "cond_X": xi.kappa_x(), "max_mean_over_std": xi.kappa_s - 1.0,
               "X_first_rows": xi.x.iter().take(4).collect::<Vec<_>>(), "y_first": y.iter().take(4).collect::<Vec<_>>()})
    });
}

fn lattice_jobs(jobs: &mut Vec<Job>, p: usize, n: usize, k: usize, nfix: usize, widths: &[&str], seed: u64) {
    lattice_jobs_w(jobs, p, n, k, nfix, widths, seed, false)
}

/// `ways` = true: the construction-order family (job names `ways-lattice-..`; the round-1 jobs are exactly those matching `--job lat-p` and `--job str-`)
#[allow(clippy::too_many_arguments)]
fn lattice_jobs_w(jobs: &mut Vec<Job>, p: usize, n: usize, k: usize, nfix: usize, widths: &[&str], seed: u64, ways: bool) {
    let combos = k.pow(nfix as u32);
    for w in widths {
        for c in 0..combos {
            let mut fix = Vec::new();
            let mut r = c;
            for _ in 0..nfix {
                fix.push(r % k);
                r /= k;
            }
            fix.reverse();
            jobs.push(Job::new(
                format!("{}-p{}-n{}-s{}-{}-{}", if ways { "ways-lattice" } else { "lat" }, p, n, k, w, fix.iter().map(|d| d.to_string()).collect::<String>()),
                json!({"kind": "lat", "p": p, "n": n, "k": k, "width": w, "fix": fix, "seed": seed, "ways": ways}),
            ));
        }
    }
}

fn structured_ns(p: usize, thorough: bool) -> Vec<usize> {
    if thorough {
        (p + 1..=80).collect()
    } else {
        let mut v = vec![p + 1, p + 2, 2 * p + 1, 3 * p + 2, 20, 47, 80];
        v.retain(|n| *n > p);
        v.sort_unstable();
        v.dedup();
        v
    }
}

impl Harness for C07 {
    fn id(&self) -> &'static str {
        "C07"
    }

    fn plan(&self, tier: Tier, seed: u64) -> Plan {
        let t = tier.is_thorough();
        let mut jobs = Vec::new();
        let both = ["f64", "f32"];
        // p = 1: n = 2..4 over Σ4
        for n in 2..=4 {
            lattice_jobs(&mut jobs, 1, n, 4, 0, &both, seed);
        }
        // p = 2, n = 3 over Σ4 (4096 X)
        lattice_jobs(&mut jobs, 2, 3, 4, 2, &both, seed);
        if t {
            // p = 1, n = 5, 6 over Σ4; p = 2, n = 4 over Σ4 (65 536 X), n = 5 over Σ3 (59 049 X); p = 3, n = 4 over Σ3 (531 441 X)
            lattice_jobs(&mut jobs, 1, 5, 4, 1, &both, seed);
            lattice_jobs(&mut jobs, 1, 6, 4, 3, &both, seed);
            lattice_jobs(&mut jobs, 2, 4, 4, 4, &both, seed);
            lattice_jobs(&mut jobs, 2, 5, 3, 4, &both, seed);
            lattice_jobs(&mut jobs, 3, 4, 3, 6, &both, seed);
        } else {
            // p = 2, n = 4 over Σ3 (6561 X)
            lattice_jobs(&mut jobs, 2, 4, 3, 2, &both, seed);
        }
        // Round 2 — construction-order family: the same lattice cases, every configuration, with the parameter struct
        // constructed in each of the 7 (ridge) / 2 (least squares) ways. quick: p = 1, n = 2, 3; thorough: + p = 1, n = 4
        // and p = 2, n = 3 (all over Σ4).
        lattice_jobs_w(&mut jobs, 1, 2, 4, 0, &both, seed, true);
        lattice_jobs_w(&mut jobs, 1, 3, 4, 0, &both, seed, true);
        if t {
            lattice_jobs_w(&mut jobs, 1, 4, 4, 1, &both, seed, true);
            lattice_jobs_w(&mut jobs, 2, 3, 4, 2, &both, seed, true);
        }
        let mut structured = Vec::new();
        // construction-order family on the structured designs: quick p = 1..3, n in {p+1, 3p+2}; thorough p = 1..5 with
        // the seven n of the quick structured space
        for p in 1..=(if t { 5usize } else { 3 }) {
            let ns = if t { structured_ns(p, false) } else { vec![p + 1, 3 * p + 2] };
            for n in ns {
                for d in gen::DESIGNS {
                    structured.push((n * p, Job::new(format!("ways-structured-{}-p{}-n{}", d, p, n), json!({"kind": "str", "design": d, "p": p, "n": n, "seed": seed, "ways": true}))));
                }
            }
        }
        for p in 1..=8usize {
            for n in structured_ns(p, t) {
                for d in gen::DESIGNS {
                    structured.push((n * p, Job::new(format!("str-{}-p{}-n{}", d, p, n), json!({"kind": "str", "design": d, "p": p, "n": n, "seed": seed}))));
                }
            }
        }
        structured.sort_by_key(|(c, _)| *c);
        jobs.extend(structured.into_iter().map(|(_, j)| j));
        let jobs = {
            let mut j: Vec<Job> = jobs;
            j.insert(0, Job::new("builders", json!({"kind": "builders"})));
            for i in 0..mc_sc::entry::n_parts("C07") {
                j.insert(1 + i, Job::new(format!("entry-{}", i), json!({"kind": "entry", "part": i})));
            }
            j
        };
        Plan {
            jobs,
            budget_s: if t { 2700 } else { 40 },
            case_deadline_ms: 20_000,
            // about a quarter of what the quick tier of seed 0 reaches (the thorough tier reaches 50x more)
            floors: vec![
                ("builder_chains", 5),
                ("entry_cases", 1000),
                ("ols_cases", 250_000),
                ("ols_cases_f32", 120_000),
                ("ols_square_system_zero_residual", 40_000),
                ("ols_agreement_decisive", 250_000),
                ("ridge_norm_on_cases", 1_000_000),
                ("ridge_norm_off_cases", 1_000_000),
                ("ridge_norm_off_with_constant_or_dependent_on_ones", 100_000),
                ("ridge_norm_on_with_standardised_columns_dependent", 10_000),
                ("ridge_cases_f32", 1_000_000),
                ("ridge_agreement_decisive", 2_000_000),
                ("ridge_norm_on_large_mean_over_std", 10_000),
                ("nonzero_column_mean", 2_500_000),
                ("structured_nonunit_column_scales", 100_000),
                ("skipped_lattice_x_rank_deficient", 50),
                ("nonzero_model", 2_500_000),
                // construction-order family (round 2): about a third of what the quick tier of seed 0 reaches
                ("ways_ridge_builder_order_cases", WAYS_FLOOR_ORDER),
                ("ways_ridge_builder_alpha_and_normalize_both_nondefault", WAYS_FLOOR_NONDEFAULT),
                ("ways_ridge_builder_nonzero_model", WAYS_FLOOR_NONZERO),
                ("ways_ridge_builder_cases_f32", WAYS_FLOOR_F32),
                ("ways_ridge_literal_cases", WAYS_FLOOR_LITERAL),
                ("ways_ols_builder_cases", WAYS_FLOOR_OLS),
                ("ways_ols_literal_cases", WAYS_FLOOR_OLS),
            ],
            bounds: json!({
                "builders": mc_sc::builders::BOUNDS,
                "entry_paths": mc_sc::entry::BOUNDS,
                "lattice": if t {
                    "every X over {0,1,-1,2}: p=1 n=2..6, p=2 n=3..4; every X over {0,1,-1}: p=2 n=5, p=3 n=4; every y over {0,-1,2}^n; f64 and f32"
                } else {
                    "every X over {0,1,-1,2}: p=1 n=2..4, p=2 n=3; every X over {0,1,-1}: p=2 n=4; every y over {0,-1,2}^n; f64 and f32"
                },
                "structured": format!("designs {:?} x p=1..8 x n in {} x 6 column-scale patterns over {{1,1e-2,1e3}} x 6 column-mean patterns over {{0,5,100}} x 4 targets x f64/f32",
                    gen::DESIGNS, if t { "p+1..80 (every n)" } else { "{p+1,p+2,2p+1,3p+2,20,47,80}" }),
                "configurations": "OLS {QR,SVD}; ridge alpha in {1e-3,0.1,1,100} x normalize {on,off} x {Cholesky,SVD}",
                "parameter_construction": format!("round 1 spaces above: one fixed way (OLS: default().with_solver(s); ridge: struct literal). Round-2 family (jobs ways-*): every configuration above (16 ridge: 4 alpha x normalize x solver; 2 OLS) x EVERY way of constructing the parameter struct — ridge 7 ways: Default::default() followed by with_alpha / with_normalize / with_solver in each of the 3! = 6 orders, and the struct literal; OLS 2 ways: default().with_solver(s) and the struct literal — on: lattice every X over {{0,1,-1,2}} {}, every y over {{0,-1,2}}^n, f64 and f32; structured designs {:?} x {} x 6 scale patterns x 6 mean patterns x 4 targets x f64/f32. Clauses: all of the above for the REQUESTED configuration, plus the constructed struct carries the requested solver / alpha / normalize.",
                    if t { "p=1 n=2..4, p=2 n=3" } else { "p=1 n=2..3" }, gen::DESIGNS, if t { "p=1..5 x n in {p+1,p+2,2p+1,3p+2,20,47,80}" } else { "p=1..3 x n in {p+1,3p+2}" }),
                "domain": "OLS: [X 1] full column rank (exact on the lattice) and cond2([X 1]) <= 1e6 (f64) / 1e3 (f32); ridge: X full column rank and cond2(X) <= limit; normalize=on additionally needs non-constant columns (an affine dependency between non-constant columns is allowed)",
                "seed": format!("affine image of the lattice alphabet #{} of 8; rotation of the cyclic scale/mean patterns and indicator offset", seed % 8),
            }),
        }
    }

    fn run(&self, job: &Job) {
        if job.kind() == "entry" {
            return mc_sc::entry::run_part("C07", job.u("part"));
        }
        if job.kind() == "builders" {
            return mc_sc::builders::run("C07");
        }
        match job.kind() {
            "lat" => lattice_case(job),
            "str" => structured_case(job),
            other => panic!("unknown job kind {}", other),
        }
    }

    fn rule(&self) -> String {
        "one execution = one (X, y, width, model configuration) fitted with both solvers; non-trivial when the fit returned a non-zero model; distinct = distinct bit-exact digest of the returned coefficients and intercepts of both solvers".into()
    }

    fn assumptions(&self) -> Vec<String> {
        vec![
            "inputs are rounded to the working type before the oracle sees them; the oracle works in f64 with compensated sums".into(),
            "'standardised' means centred by the column mean and divided by the population standard deviation (the convention of linalg/stats.rs)".into(),
            "f32 is checked for designs with cond <= 1e3 only ('scaled tolerance' of the statement); normalize=on is checked only while (1+max|mean|/std)*eps_T <= 1e-3, its gradient clauses only while 64*n*eps_T*(1+max|mean|/std) <= 0.05".into(),
            "no RNG on any explored path (linear models are deterministic); RNG allow-list checked at start-up".into(),
        ]
    }
}

fn main() {
    if let Err(e) = mc_sc::check_rng_sites() {
        eprintln!("MACHINERY-ERROR: {}", e);
        std::process::exit(2);
    }
    mc::main(C07)
}
