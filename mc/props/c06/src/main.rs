//! C06 — random forests are seed-reproducible and aggregate their member trees faithfully.
//!
//! Two exhaustive dimensions:
//!  (a) configurations with the real seeded RNG: data catalogue x seeds 0..S x n_trees x m x tree
//!      limits x keep_samples (every combination, no sampling);
//!  (b) EVERY bootstrap outcome (and every feature-subsampling shuffle) of tiny forests, the draws
//!      being answered through the `verif-hooks` seam.
//! Member trees are recovered from the forest's serde form, deserialised into real tree objects and
//! queried, so that the aggregation (plurality / mean, out-of-bag masks) is checked against them.

use mc_core::{self as mc, json, Harness, Job, Plan, Tier, Value};
use mc_sc::{dm, own_rng, release_rng, take_draws, Draw, RngMode};
use smartcore::ensemble::random_forest_classifier::{RandomForestClassifier, RandomForestClassifierParameters};
use smartcore::ensemble::random_forest_regressor::{RandomForestRegressor, RandomForestRegressorParameters};
use smartcore::linalg::naive::dense_matrix::DenseMatrix;
use smartcore::tree::decision_tree_classifier::{DecisionTreeClassifier, SplitCriterion};
use smartcore::tree::decision_tree_regressor::DecisionTreeRegressor;

struct C06;
type DM = DenseMatrix<f64>;

/// catalogue of lattice data sets: (name, rows, class labels, regression targets)
fn catalogue() -> Vec<(&'static str, Vec<Vec<f64>>, Vec<f64>, Vec<f64>)> {
    let mut v = Vec::new();
    // n=4, p=1, two classes with ugly labels
    v.push(("n4p1", vec![vec![0.0], vec![1.0], vec![2.0], vec![3.0]], vec![-3.0, -3.0, 7.0, 7.0], vec![0.0, 1.0, 3.0, 3.0]));
    // n=5, p=2, ties in features
    v.push(("n5p2", vec![vec![0.0, 1.0], vec![1.0, 1.0], vec![1.0, 0.0], vec![2.0, 2.0], vec![0.0, 2.0]], vec![2.0, 3.0, 2.0, 3.0, 3.0], vec![100.0, 101.5, 103.0, 100.0, 103.4]));
    // n=6, p=2, three classes non-contiguous / negative labels
    v.push(("n6p2c3", (0..6).map(|i| vec![(i % 3) as f64, (i / 3) as f64]).collect(), vec![-3.0, 7.0, 10.0, 10.0, -3.0, 7.0], vec![-1.0, 0.0, 2.0, 2.0, 0.0, -1.0]));
    // n=8, p=3, constant feature, duplicates
    v.push(("n8p3", (0..8).map(|i| vec![(i % 4) as f64, 1.0, ((i * 3) % 5) as f64]).collect(), vec![0.0, 1.0, 1.0, 0.0, 0.0, 1.0, 0.0, 1.0], (0..8).map(|i| ((i * 5) % 7) as f64 * 0.5).collect()));
    // n=12, p=2, four classes, skewed
    v.push(("n12p2c4", (0..12).map(|i| vec![(i % 4) as f64 + 0.5 * (i / 8) as f64, ((i * 7) % 6) as f64]).collect(), vec![1.0, 1.0, 1.0, 1.0, 1.0, 1.0, 5.0, 5.0, 5.0, 9.0, 9.0, 20.0], (0..12).map(|i| if i % 5 == 0 { 50.0 } else { i as f64 }).collect()));
    // n=8, p=6, binary features with exact gain ties between columns (feature sub-sampling with m << p)
    v.push(("n8p6", (0..8).map(|i: usize| (0..6).map(|c: usize| (((i >> (c % 3)) & 1) ^ (c / 3)) as f64).collect()).collect(), vec![0.0, 1.0, 1.0, 0.0, 1.0, 0.0, 0.0, 1.0], (0..8).map(|i| ((i * 3) % 8) as f64).collect()));
    // n=8, p=2, features symmetric about zero: thresholds (midpoints of -v and +v) and, with the tied
    // second column, split scores that are EXACTLY 0.0
    v.push(("n8p2centred", (0..8).map(|i: usize| vec![[-2.0, -1.0, -0.5, -0.5, 0.5, 0.5, 1.0, 2.0][i], [1.0, -1.0, 1.0, -1.0, 1.0, -1.0, 1.0, -1.0][i]]).collect(), vec![-3.0, -3.0, -3.0, 7.0, 7.0, -3.0, 7.0, 7.0], vec![-1.0, -1.0, 0.0, 0.5, 0.5, 0.0, 1.0, 1.0]));
    // n=6, p=1 heavy ties
    v.push(("n6p1ties", vec![vec![1.0], vec![1.0], vec![1.0], vec![2.0], vec![2.0], vec![3.0]], vec![-1.0, 1.0, -1.0, 1.0, 1.0, -1.0], vec![3.0, 1.0, 2.0, 5.0, 4.0, 0.0]));
    v
}

fn queries(rows: &[Vec<f64>]) -> Vec<Vec<f64>> {
    let p = rows[0].len();
    let mut q = rows.to_vec();
    // off-sample points: midpoints and outside the range
    for i in 0..rows.len() {
        q.push((0..p).map(|c| rows[i][c] + 0.5).collect());
    }
    q.push(vec![-10.0; p]);
    q.push(vec![10.0; p]);
    q
}

fn jbools(v: &Value) -> Option<Vec<Vec<bool>>> {
    v.as_array().map(|a| a.iter().map(|r| r.as_array().map(|x| x.iter().map(|b| b.as_bool().unwrap_or(false)).collect()).unwrap_or_default()).collect())
}

struct Obs {
    json: Value,
    pred: Vec<f64>,
    oob: Option<Vec<f64>>,
}

#[allow(clippy::too_many_arguments)]
fn check_classifier(site: &str, ctx: &str, rows: &[Vec<f64>], y: &[f64], n_trees: usize, keep: bool, o: &Obs, q: &[Vec<f64>]) {
    let n = rows.len();
    let mut classes: Vec<f64> = y.to_vec();
    classes.sort_by(|a, b| a.partial_cmp(b).unwrap());
    classes.dedup();
    let trees_json = o.json["trees"].as_array().cloned().unwrap_or_default();
    if trees_json.len() != n_trees {
        mc::violation(format!("{}:tree-count", site), format!("{}: forest holds {} trees, n_trees={}", ctx, trees_json.len(), n_trees));
        return;
    }
    let qm: DM = dm(q);
    let mut member: Vec<Vec<f64>> = Vec::new();
    for (t, tj) in trees_json.iter().enumerate() {
        match serde_json::from_value::<DecisionTreeClassifier<f64>>(tj.clone()) {
            Ok(tree) => match mc::guard(|| tree.predict(&qm)) {
                Ok(Ok(p)) => member.push(p),
                _ => {
                    mc::violation(format!("{}:member-tree-unusable", site), format!("{}: member tree {} cannot predict", ctx, t));
                    return;
                }
            },
            Err(e) => {
                mc::violation(format!("{}:member-tree-unusable", site), format!("{}: member tree {} does not deserialise: {}", ctx, t, e));
                return;
            }
        }
    }
    let plurality_ok = |votes: &[f64], got: f64| -> bool {
        let cnt = |c: f64| votes.iter().filter(|v| **v == c).count();
        let best = classes.iter().map(|c| cnt(*c)).max().unwrap_or(0);
        classes.contains(&got) && cnt(got) == best
    };
    for i in 0..q.len() {
        let votes: Vec<f64> = member.iter().map(|m| m[i]).collect();
        if !classes.contains(&o.pred[i]) {
            mc::violation(format!("{}:label-not-original", site), format!("{}: prediction {} for {:?} is not one of the labels {:?}", ctx, o.pred[i], q[i], classes));
            return;
        }
        if !plurality_ok(&votes, o.pred[i]) {
            mc::violation(format!("{}:not-plurality", site), format!("{}: forest predicts {} for {:?} but member trees vote {:?}", ctx, o.pred[i], q[i], votes));
            return;
        }
        if votes.iter().any(|v| *v != votes[0]) {
            mc::count("rows_with_disagreeing_trees");
        }
    }
    if keep {
        let Some(samples) = jbools(&o.json["samples"]) else {
            mc::violation(format!("{}:samples-missing", site), format!("{}: keep_samples=true but no samples stored", ctx));
            return;
        };
        if samples.len() != n_trees || samples.iter().any(|s| s.len() != n) {
            mc::violation(format!("{}:samples-shape", site), format!("{}: samples has shape {}x{:?}", ctx, samples.len(), samples.first().map(|s| s.len())));
            return;
        }
        for (t, s) in samples.iter().enumerate() {
            for c in &classes {
                if !(0..n).any(|i| s[i] && y[i] == *c) {
                    mc::violation(format!("{}:bootstrap-misses-class", site), format!("{}: bootstrap sample of tree {} ({:?}) contains no row of class {}", ctx, t, s, c));
                }
            }
        }
        // a tree fitted on a bootstrap sample can only predict labels that occur among its in-bag rows
        for (t, smp) in samples.iter().enumerate() {
            let inbag: Vec<f64> = (0..n).filter(|i| smp[*i]).map(|i| y[i]).collect();
            if member[t].iter().any(|v| !inbag.contains(v)) {
                mc::violation(format!("{}:tree-inconsistent-with-in-bag-mask", site), format!("{}: member tree {} predicts {:?} but its stored in-bag mask {:?} only holds the labels {:?}", ctx, t, member[t], smp, inbag));
                return;
            }
        }
        match &o.oob {
            None => mc::violation(format!("{}:oob-unavailable", site), format!("{}: predict_oob failed although samples were kept", ctx)),
            Some(oob) => {
                for i in 0..n {
                    let votes: Vec<f64> = (0..n_trees).filter(|t| !samples[*t][i]).map(|t| member[t][i]).collect();
                    if votes.is_empty() {
                        // no out-of-bag tree: the vote is undefined, but whatever is returned must still be
                        // one of the original label values ("classifier predictions are original label values")
                        mc::count("oob_rows_without_tree");
                        if !classes.contains(&oob[i]) {
                            mc::violation(format!("{}:oob-label-not-original", site), format!("{}: OOB prediction {} for row {} (in-bag for every tree) is not one of the labels {:?}", ctx, oob[i], i, classes));
                            return;
                        }
                        continue;
                    }
                    mc::count("oob_rows_checked");
                    if votes.len() < n_trees {
                        mc::count("oob_rows_partial");
                    }
                    if !plurality_ok(&votes, oob[i]) {
                        mc::violation(format!("{}:oob-not-plurality-of-oob-trees", site), format!("{}: OOB prediction {} for row {} but its out-of-bag trees vote {:?} (all trees: {:?}, masks {:?})", ctx, oob[i], i, votes, member.iter().map(|m| m[i]).collect::<Vec<_>>(), samples.iter().map(|s| s[i]).collect::<Vec<_>>()));
                        return;
                    }
                }
            }
        }
    } else if o.oob.is_some() {
        mc::count("oob_without_samples");
    }
}

#[allow(clippy::too_many_arguments)]
fn check_regressor(site: &str, ctx: &str, rows: &[Vec<f64>], y: &[f64], n_trees: usize, keep: bool, o: &Obs, q: &[Vec<f64>]) {
    let n = rows.len();
    let trees_json = o.json["trees"].as_array().cloned().unwrap_or_default();
    if trees_json.len() != n_trees {
        mc::violation(format!("{}:tree-count", site), format!("{}: forest holds {} trees, n_trees={}", ctx, trees_json.len(), n_trees));
        return;
    }
    let qm: DM = dm(q);
    let mut member: Vec<Vec<f64>> = Vec::new();
    for (t, tj) in trees_json.iter().enumerate() {
        match serde_json::from_value::<DecisionTreeRegressor<f64>>(tj.clone()) {
            Ok(tree) => match mc::guard(|| tree.predict(&qm)) {
                Ok(Ok(p)) => member.push(p),
                _ => {
                    mc::violation(format!("{}:member-tree-unusable", site), format!("{}: member tree {} cannot predict", ctx, t));
                    return;
                }
            },
            Err(e) => {
                mc::violation(format!("{}:member-tree-unusable", site), format!("{}: member tree {} does not deserialise: {}", ctx, t, e));
                return;
            }
        }
    }
    let (lo, hi) = (y.iter().cloned().fold(f64::INFINITY, f64::min), y.iter().cloned().fold(f64::NEG_INFINITY, f64::max));
    let span = (hi - lo).abs().max(hi.abs()).max(1.0);
    for i in 0..q.len() {
        let vals: Vec<f64> = member.iter().map(|m| m[i]).collect();
        let mean = vals.iter().sum::<f64>() / n_trees as f64;
        if !((o.pred[i] - mean).abs() <= 1e-12 * span) {
            mc::violation(format!("{}:not-mean", site), format!("{}: forest predicts {} for {:?} but the mean of its member trees {:?} is {}", ctx, o.pred[i], q[i], vals, mean));
            return;
        }
        if !(o.pred[i] >= lo - 1e-12 * span && o.pred[i] <= hi + 1e-12 * span) {
            mc::violation(format!("{}:out-of-target-range", site), format!("{}: prediction {} for {:?} outside the range [{}, {}] of the training targets", ctx, o.pred[i], q[i], lo, hi));
            return;
        }
    }
    if keep {
        let Some(samples) = jbools(&o.json["samples"]) else {
            mc::violation(format!("{}:samples-missing", site), format!("{}: keep_samples=true but no samples stored", ctx));
            return;
        };
        if samples.len() != n_trees || samples.iter().any(|s| s.len() != n) {
            mc::violation(format!("{}:samples-shape", site), format!("{}: samples has shape {}x{:?}", ctx, samples.len(), samples.first().map(|s| s.len())));
            return;
        }
        // a tree fitted on a bootstrap sample predicts means of in-bag targets only: every prediction
        // lies within the range of the targets of the rows its stored mask calls in-bag
        for t in 0..n_trees {
            let inbag: Vec<f64> = (0..n).filter(|i| samples[t][*i]).map(|i| y[i]).collect();
            if inbag.is_empty() {
                mc::violation(format!("{}:in-bag-mask-empty", site), format!("{}: tree {} has an empty in-bag mask", ctx, t));
                continue;
            }
            let (l, h) = (inbag.iter().cloned().fold(f64::INFINITY, f64::min), inbag.iter().cloned().fold(f64::NEG_INFINITY, f64::max));
            if member[t].iter().any(|v| !(*v >= l - 1e-12 * span && *v <= h + 1e-12 * span)) {
                mc::violation(format!("{}:tree-inconsistent-with-in-bag-mask", site), format!("{}: member tree {} predicts {:?} but its stored in-bag mask {:?} only holds targets in [{}, {}] - the mask does not describe the sample the tree was fitted on", ctx, t, member[t], samples[t], l, h));
                return;
            }
        }
        match &o.oob {
            None => mc::violation(format!("{}:oob-unavailable", site), format!("{}: predict_oob failed although samples were kept", ctx)),
            Some(oob) => {
                for i in 0..n {
                    let vals: Vec<f64> = (0..n_trees).filter(|t| !samples[*t][i]).map(|t| member[t][i]).collect();
                    if vals.is_empty() {
                        mc::count("oob_rows_without_tree");
                        continue;
                    }
                    mc::count("oob_rows_checked");
                    if vals.len() < n_trees {
                        mc::count("oob_rows_partial");
                    }
                    let mean = vals.iter().sum::<f64>() / vals.len() as f64;
                    if !((oob[i] - mean).abs() <= 1e-12 * span) {
                        mc::violation(format!("{}:oob-not-mean-of-oob-trees", site), format!("{}: OOB prediction {} for row {} but the mean of its out-of-bag trees {:?} is {}", ctx, oob[i], i, vals, mean));
                        return;
                    }
                }
            }
        }
    }
}

const LIMITS: &[(Option<u16>, usize, usize)] = &[(None, 1, 2), (Some(1), 1, 2), (Some(2), 2, 2), (None, 2, 4), (None, 3, 2), (Some(3), 1, 5)];

fn fit_classifier(x: &DM, y: &Vec<f64>, q: &[Vec<f64>], p: RandomForestClassifierParameters) -> Result<Obs, String> {
    let keep = p.keep_samples;
    let m = RandomForestClassifier::fit(x, y, p).map_err(|e| e.to_string())?;
    let qm: DM = dm(q);
    let pred = m.predict(&qm).map_err(|e| e.to_string())?;
    let oob = if keep { m.predict_oob(x).ok() } else { m.predict_oob(x).ok() };
    Ok(Obs { json: serde_json::to_value(&m).map_err(|e| e.to_string())?, pred, oob })
}

fn fit_regressor(x: &DM, y: &Vec<f64>, q: &[Vec<f64>], p: RandomForestRegressorParameters) -> Result<Obs, String> {
    let m = RandomForestRegressor::fit(x, y, p).map_err(|e| e.to_string())?;
    let qm: DM = dm(q);
    let pred = m.predict(&qm).map_err(|e| e.to_string())?;
    let oob = m.predict_oob(x).ok();
    Ok(Obs { json: serde_json::to_value(&m).map_err(|e| e.to_string())?, pred, oob })
}

fn cparams(crit: usize, lim: (Option<u16>, usize, usize), n_trees: usize, m: Option<usize>, keep: bool, seed: u64) -> RandomForestClassifierParameters {
    let mut p = RandomForestClassifierParameters::default()
        .with_criterion([SplitCriterion::Gini, SplitCriterion::Entropy, SplitCriterion::ClassificationError][crit].clone())
        .with_min_samples_leaf(lim.1)
        .with_min_samples_split(lim.2)
        .with_n_trees(n_trees as u16)
        .with_keep_samples(keep)
        .with_seed(seed);
    p.max_depth = lim.0;
    p.m = m;
    p
}

fn rparams(lim: (Option<u16>, usize, usize), n_trees: usize, m: Option<usize>, keep: bool, seed: u64) -> RandomForestRegressorParameters {
    let mut p = RandomForestRegressorParameters::default().with_min_samples_leaf(lim.1).with_min_samples_split(lim.2).with_n_trees(n_trees).with_keep_samples(keep).with_seed(seed);
    p.max_depth = lim.0;
    p.m = m;
    p
}

fn seeded_case(job: &Job) {
    let cat = catalogue();
    let (name, rows, labels, targets) = &cat[job.u("data")];
    let regression = job.b("regression");
    let n_trees = job.u("n_trees");
    let p = rows[0].len();
    let nseeds = job.u("seeds");
    let seed = job.params["seed0"].as_u64().expect("seed0") + mc::choose(nseeds) as u64;
    let m = match mc::choose(p + 1) {
        0 => None,
        k => Some(k),
    };
    let lim = mc::pick(LIMITS);
    let keep = mc::choose(2) == 0;
    let crit = if regression { 0 } else { mc::choose(3) };
    let x: DM = dm(rows);
    let q = queries(rows);
    let y = if regression { targets.clone() } else { labels.clone() };
    let ctx = format!("data {} ({} rows, p={}) {} seed={} n_trees={} m={:?} max_depth={:?} min_samples_leaf={} min_samples_split={} keep_samples={} criterion#{}", name, rows.len(), p, if regression { "regressor" } else { "classifier" }, seed, n_trees, m, lim.0, lim.1, lim.2, keep, crit);
    let site = if regression { "forest.regressor:seeded" } else { "forest.classifier:seeded" };
    let fit = || {
        if regression {
            fit_regressor(&x, &y, &q, rparams(lim, n_trees, m, keep, seed))
        } else {
            fit_classifier(&x, &y, &q, cparams(crit, lim, n_trees, m, keep, seed))
        }
    };
    let (a, b) = match (mc::guard(fit), mc::guard(fit)) {
        (Ok(Ok(a)), Ok(Ok(b))) => (a, b),
        (Err(p), _) | (_, Err(p)) => {
            mc::violation(format!("{}:panic", site), format!("{}: {}", ctx, p.brief()));
            return;
        }
        (Ok(Err(e)), _) | (_, Ok(Err(e))) => {
            mc::violation(format!("{}:error", site), format!("{}: {}", ctx, e));
            return;
        }
    };
    let same_bits = |u: &[f64], v: &[f64]| u.len() == v.len() && u.iter().zip(v).all(|(p, q)| p.to_bits() == q.to_bits());
    if a.json != b.json {
        mc::violation_nondet(format!("{}:not-reproducible", site), format!("{}: two fits with equal data, parameters and seed serialise differently", ctx));
    } else if !same_bits(&a.pred, &b.pred) || a.oob.as_ref().map(|v| v.iter().map(|x| mc::hash::canon_bits(*x)).collect::<Vec<_>>()) != b.oob.as_ref().map(|v| v.iter().map(|x| mc::hash::canon_bits(*x)).collect::<Vec<_>>()) {
        mc::violation_nondet(format!("{}:predictions-not-reproducible", site), format!("{}: two identical fits predict differently", ctx));
    }
    // "two forests fitted with the same data, parameters and seed are identical" — also through the
    // library's own equality, and a forest equals itself
    if a.json == b.json {
        let eqs: Option<(bool, bool)> = if regression {
            match (serde_json::from_value::<RandomForestRegressor<f64>>(a.json.clone()), serde_json::from_value::<RandomForestRegressor<f64>>(b.json.clone())) {
                (Ok(ma), Ok(mb)) => mc::guard(|| (ma == mb, ma == ma)).ok(),
                _ => None,
            }
        } else {
            match (serde_json::from_value::<RandomForestClassifier<f64>>(a.json.clone()), serde_json::from_value::<RandomForestClassifier<f64>>(b.json.clone())) {
                (Ok(ma), Ok(mb)) => mc::guard(|| (ma == mb, ma == ma)).ok(),
                _ => None,
            }
        };
        match eqs {
            Some((true, true)) => mc::count("seeded_fits_compared_with_eq"),
            Some((ab, aa)) => mc::violation(format!("{}:identical-fits-compare-unequal", site), format!("{}: two fits with equal data, parameters and seed serialise identically but `==` says first==second: {}, first==first: {}", ctx, ab, aa)),
            None => mc::violation(format!("{}:model-not-restorable", site), format!("{}: the serialised forest cannot be read back / compared", ctx)),
        }
    }
    if regression {
        check_regressor(site, &ctx, rows, &y, n_trees, keep, &a, &q);
    } else {
        check_classifier(site, &ctx, rows, &y, n_trees, keep, &a, &q);
    }
    mc::count("seeded_fits");
    mc::nontrivial();
    mc::outcome(mc::hash::mix(mc::hash::h_f64s(&a.pred), mc::hash::h_str(&a.json["samples"].to_string())));
    mc::describe(|| json!({"op": "forest fit (seeded RNG)", "context": ctx, "predictions_on_queries": a.pred, "oob": a.oob, "samples": a.json["samples"]}));
}

/// Class-size family: every row count n of the quantified range x every two-class split (c, n-c) and
/// three-class layouts with singleton classes; one feature with distinct values. The sizes of the
/// stratified bootstrap blocks depend only on (n, class sizes), so this enumerates that dependence
/// completely; the draws themselves come from the seeded generator (seeds as configurations).
fn sizes_case(job: &Job) {
    let n = job.u("n");
    let seed = job.u("seed") as u64;
    if job.b("regression") {
        // row-count family of the regressor: fit on n rows, predict all n rows in one call (n up to
        // 120 crosses any internal block size), 2 target patterns, 2 trees, keep_samples
        let rows: Vec<Vec<f64>> = (0..n).map(|i| vec![i as f64]).collect();
        let pat = mc::choose(2);
        let y: Vec<f64> = (0..n).map(|i| if pat == 0 { ((i * 7) % n) as f64 * 0.5 } else { (i % 5) as f64 - 2.0 }).collect();
        let n_trees = 1 + mc::choose(2);
        let x: DM = dm(&rows);
        let q = rows.clone();
        let ctx = format!("row-count family n={} targets pattern {} regressor seed={} n_trees={} keep_samples=true, {} query rows", n, pat, seed, n_trees, q.len());
        let site = "forest.regressor:row-counts";
        match mc::guard(|| fit_regressor(&x, &y, &q, rparams(LIMITS[0], n_trees, None, true, seed))) {
            Ok(Ok(o)) => {
                check_regressor(site, &ctx, &rows, &y, n_trees, true, &o, &q);
                mc::count("row_count_fits_regressor");
                if n > 64 {
                    mc::count("row_count_fits_regressor_above_64_rows");
                }
                mc::nontrivial();
                mc::outcome(mc::hash::h_f64s(&o.pred));
                mc::describe(|| json!({"op": "forest fit (seeded RNG), row-count family", "context": ctx}));
            }
            Ok(Err(e)) => mc::violation(format!("{}:error", site), format!("{}: {}", ctx, e)),
            Err(p) => mc::violation(format!("{}:panic", site), format!("{}: {}", ctx, p.brief())),
        }
        return;
    }
    // layouts: 0..n-2 -> two classes (c = layout+1 rows of the first); n-1.. -> three classes
    let layouts = (n - 1) + 3;
    let l = mc::choose(layouts);
    let sizes: Vec<usize> = if l < n - 1 {
        vec![l + 1, n - l - 1]
    } else {
        match l - (n - 1) {
            0 => vec![1, 1, n - 2],
            1 => vec![1, (n - 1) / 2, n - 1 - (n - 1) / 2],
            _ => vec![n - 2, 1, 1],
        }
    };
    // integer-valued labels, or fractional labels that share their integer parts
    let labels = [[-3.0, 7.0, 10.0], [0.25, 0.75, 1.5]][mc::choose(2)];
    let mut y: Vec<f64> = Vec::new();
    for (ci, sz) in sizes.iter().enumerate() {
        y.extend(std::iter::repeat(labels[ci]).take(*sz));
    }
    // interleave so that classes are not contiguous in row order
    let interleave = mc::choose(2) == 1;
    if interleave {
        let m = y.len();
        // multiplication by 7 permutes the rows unless 7 | m; then reverse instead
        y = if m % 7 != 0 { (0..m).map(|i| y[(i * 7) % m]).collect() } else { (0..m).map(|i| y[m - 1 - i]).collect() };
    }
    let rows: Vec<Vec<f64>> = (0..n).map(|i| vec![i as f64]).collect();
    let n_trees = 2usize;
    let x: DM = dm(&rows);
    let q = rows.clone();
    let ctx = format!("class-size family n={} class sizes {:?} labels {:?}{} classifier seed={} n_trees={} keep_samples=true", n, sizes, &labels[..sizes.len()], if interleave { " (interleaved rows)" } else { "" }, seed, n_trees);
    let site = "forest.classifier:class-sizes";
    match mc::guard(|| fit_classifier(&x, &y, &q, cparams(0, LIMITS[0], n_trees, None, true, seed))) {
        Ok(Ok(o)) => {
            check_classifier(site, &ctx, &rows, &y, n_trees, true, &o, &q);
            mc::count("class_size_fits");
            if sizes.iter().any(|s| *s == 1) {
                mc::count("class_size_fits_singleton_class");
            }
            mc::nontrivial();
            mc::outcome(mc::hash::mix(mc::hash::h_f64s(&o.pred), mc::hash::h_str(&o.json["samples"].to_string())));
            mc::describe(|| json!({"op": "forest fit (seeded RNG), class-size family", "context": ctx, "samples": o.json["samples"]}));
        }
        Ok(Err(e)) => mc::violation(format!("{}:error", site), format!("{}: {}", ctx, e)),
        Err(p) => mc::violation(format!("{}:panic", site), format!("{}: {}", ctx, p.brief())),
    }
}

fn bootstrap_case(job: &Job) {
    let regression = job.b("regression");
    let n_trees = job.u("n_trees");
    // tiny data: n = 4 (2+2 classes), p = 1 or 2
    let p = job.u("p");
    let variant = job.u("variant");
    let rows: Vec<Vec<f64>> = match (p, variant) {
        (1, 0) => vec![vec![0.0], vec![1.0], vec![2.0], vec![3.0]],
        (1, 1) => vec![vec![1.0], vec![0.0], vec![1.0], vec![2.0]],
        (1, _) => vec![vec![2.0], vec![2.0], vec![0.0], vec![1.0]],
        (_, 0) => vec![vec![0.0, 1.0], vec![1.0, 0.0], vec![1.0, 1.0], vec![0.0, 0.0]],
        (_, 1) => vec![vec![0.0, 2.0], vec![1.0, 2.0], vec![2.0, 0.0], vec![2.0, 1.0]],
        (_, _) => vec![vec![0.0, 0.0], vec![0.0, 1.0], vec![1.0, 0.0], vec![1.0, 1.0]],
    };
    let labels = [vec![-3.0, 7.0, -3.0, 7.0], vec![7.0, 7.0, -3.0, -3.0], vec![-3.0, 7.0, 7.0, -3.0]][mc::choose(3)].clone();
    let targets = [vec![0.0, 1.0, 3.0, 1.0], vec![5.0, 5.0, 0.0, 2.0]][if regression { mc::choose(2) } else { 0 }].clone();
    let m = if p == 2 && job.b("subsample") { Some(1) } else { Some(p) };
    let lim = LIMITS[if job.b("limits") { 1 + mc::choose(2) } else { 0 }];
    let x: DM = dm(&rows);
    let q = queries(&rows);
    let y = if regression { targets } else { labels };
    own_rng(RngMode::All);
    let r = mc::guard(|| if regression { fit_regressor(&x, &y, &q, rparams(lim, n_trees, m, true, 7)) } else { fit_classifier(&x, &y, &q, cparams(0, lim, n_trees, m, true, 7)) });
    let draws = take_draws();
    release_rng();
    let boot: Vec<usize> = draws.iter().filter(|d| d.0 == Draw::ForestClassifierBootstrap || d.0 == Draw::ForestRegressorBootstrap).map(|d| d.2).collect();
    let shuf: Vec<usize> = draws.iter().filter(|d| d.0 == Draw::TreeFeatureShuffle).map(|d| d.2).collect();
    let ctx = format!("rows {:?} y {:?} {} n_trees={} m={:?} limits={:?} bootstrap draws {:?} feature-shuffle draws {:?}", rows, y, if regression { "regressor" } else { "classifier" }, n_trees, m, lim, boot, shuf);
    let site = if regression { "forest.regressor:any-bootstrap" } else { "forest.classifier:any-bootstrap" };
    let o = match r {
        Err(pn) => {
            mc::violation(format!("{}:panic", site), format!("{}: {}", ctx, pn.brief()));
            return;
        }
        Ok(Err(e)) => {
            mc::violation(format!("{}:error", site), format!("{}: {}", ctx, e));
            return;
        }
        Ok(Ok(o)) => o,
    };
    if boot.len() != 4 * n_trees {
        // a different (still legitimate) drawing scheme: the mask reconstruction below does not apply
        mc::count("nonstandard_bootstrap_draw_pattern");
    }
    // the stored in-bag masks must be the ones the draws produced
    if let Some(samples) = jbools(&o.json["samples"]) {
        let mut want: Vec<Vec<bool>> = Vec::new();
        let mut it = draws.iter().filter(|d| d.0 == Draw::ForestClassifierBootstrap || d.0 == Draw::ForestRegressorBootstrap);
        let mut classes: Vec<f64> = y.clone();
        classes.sort_by(|a, b| a.partial_cmp(b).unwrap());
        classes.dedup();
        for _ in 0..n_trees {
            let mut mask = vec![false; 4];
            if regression {
                for _ in 0..4 {
                    if let Some(d) = it.next() {
                        mask[d.2] = true;
                    }
                }
            } else {
                for c in &classes {
                    let idx: Vec<usize> = (0..4).filter(|i| y[*i] == *c).collect();
                    for _ in 0..idx.len() {
                        if let Some(d) = it.next() {
                            if d.2 < idx.len() {
                                mask[idx[d.2]] = true;
                            }
                        }
                    }
                }
            }
            want.push(mask);
        }
        if samples != want && boot.len() == 4 * n_trees {
            mc::violation(format!("{}:in-bag-mask", site), format!("{}: stored in-bag masks {:?} differ from the rows actually drawn {:?}", ctx, samples, want));
        }
    }
    if regression {
        check_regressor(site, &ctx, &rows, &y, n_trees, true, &o, &q);
    } else {
        check_classifier(site, &ctx, &rows, &y, n_trees, true, &o, &q);
    }
    if !shuf.is_empty() {
        mc::count("feature_shuffles_explored");
    }
    mc::count("bootstrap_schedules");
    mc::nontrivial();
    mc::outcome(mc::hash::mix(mc::hash::h_f64s(&o.pred), mc::hash::h_str(&o.json["samples"].to_string())));
    mc::describe(|| json!({"op": "forest fit (every bootstrap outcome)", "context": ctx, "predictions_on_queries": o.pred, "oob": o.oob, "samples": o.json["samples"]}));
}

impl Harness for C06 {
    fn id(&self) -> &'static str {
        "C06"
    }

    fn plan(&self, tier: Tier, seed: u64) -> Plan {
        let t = tier.is_thorough();
        let mut jobs = Vec::new();
        // (b) every bootstrap outcome of tiny forests
        for regression in [false, true] {
            for n_trees in [1usize, 2] {
                for p in [1usize, 2] {
                    for subsample in [false, true] {
                        if subsample && p == 1 {
                            continue;
                        }
                        for limits in [false, true] {
                            if regression && n_trees == 2 && !t && (subsample || limits || p == 2) {
                                continue; // 65536 bootstraps x shuffles: thorough only
                            }
                            for variant in 0..3usize {
                                jobs.push(Job::new(
                                    format!("bootstrap-{}-t{}-p{}{}{}-v{}", if regression { "reg" } else { "cls" }, n_trees, p, if subsample { "-m1" } else { "" }, if limits { "-lim" } else { "" }, variant),
                                    json!({"kind": "bootstrap", "regression": regression, "n_trees": n_trees, "p": p, "subsample": subsample, "limits": limits, "variant": variant}),
                                ));
                            }
                        }
                    }
                }
            }
        }
        // (a) seeds as configurations; VERIF_SEED rotates which block of seeds is enumerated
        let nseeds = if t { 512 } else { 24 };
        let seed0 = (seed % 8) * 4096;
        let block = 8usize;
        for (di, _) in catalogue().iter().enumerate() {
            for regression in [false, true] {
                for n_trees in [1usize, 2, 3, 5, 10, 30] {
                    if !t && n_trees == 30 && di != 1 {
                        continue;
                    }
                    for b in 0..(nseeds / block) {
                        jobs.push(Job::new(
                            format!("seeded-{}-d{}-t{}-s{}", if regression { "reg" } else { "cls" }, di, n_trees, b),
                            json!({"kind": "seeded", "data": di, "regression": regression, "n_trees": n_trees, "seed0": seed0 as usize + b * block, "seeds": block}),
                        ));
                    }
                }
            }
        }
        // (a') the top of the seed range: u64::MAX - 7 ..= u64::MAX (seed arithmetic must not overflow)
        for (di, _) in catalogue().iter().enumerate().take(3) {
            for regression in [false, true] {
                for n_trees in [1usize, 2, 3] {
                    jobs.push(Job::new(
                        format!("seeded-{}-d{}-t{}-top", if regression { "reg" } else { "cls" }, di, n_trees),
                        json!({"kind": "seeded", "data": di, "regression": regression, "n_trees": n_trees, "seed0": u64::MAX - 7, "seeds": 8}),
                    ));
                }
            }
        }
        // (c) class-size family: every n x every class-size layout
        for n in 4..=120usize {
            for sd in 0..(if t { 4usize } else { 1 }) {
                jobs.push(Job::new(format!("sizes-n{}-s{}", n, sd), json!({"kind": "sizes", "n": n, "seed": seed0 as usize + sd})));
                jobs.push(Job::new(format!("sizes-reg-n{}-s{}", n, sd), json!({"kind": "sizes", "regression": true, "n": n, "seed": seed0 as usize + sd})));
            }
        }
        jobs.insert(0, Job::new("builders", json!({"kind": "builders"})));
        {
            let j = &mut jobs;
            for i in 0..mc_sc::entry::n_parts("C06") {
                j.insert(1 + i, Job::new(format!("entry-{}", i), json!({"kind": "entry", "part": i})));
            }
        }
        Plan {
            jobs,
            budget_s: if t { 2400 } else { 40 },
            case_deadline_ms: 20_000,
            floors: vec![("builder_chains", 5), ("entry_cases", 1000), ("seeded_fits", 10_000), ("seeded_fits_compared_with_eq", 10_000), ("bootstrap_schedules", 10_000), ("feature_shuffles_explored", 1000), ("oob_rows_checked", 10_000), ("oob_rows_partial", 1000), ("rows_with_disagreeing_trees", 1000), ("class_size_fits", 10_000), ("class_size_fits_singleton_class", 500), ("row_count_fits_regressor", 400), ("row_count_fits_regressor_above_64_rows", 200)],
            bounds: json!({
                "builders": mc_sc::builders::BOUNDS,
                "entry_paths": mc_sc::entry::BOUNDS,
                "seeded_top_of_range": "3 data sets x {classifier, regressor} x n_trees {1,2,3} x seeds u64::MAX-7..=u64::MAX x the same configuration choices", "seeded": format!("8 lattice data sets (one centred: thresholds and gains exactly 0) x {{classifier, regressor}} x seeds {}..{} x n_trees {{1,2,3,5,10,30}} x m in {{None,1..p}} x 6 (max_depth, min_samples_leaf, min_samples_split) settings x keep_samples x 3 criteria", seed0, seed0 as usize + nseeds),
                "row_counts_regressor": "regressor, p=1: every n in 4..=120 x 2 target patterns x n_trees in {1,2}, all n training rows predicted in one call (mean of member trees, target range, OOB)",
                "class_sizes": "classifier, p=1 distinct values: every n in 4..=120 x every two-class split (c, n-c), c=1..n-1, and three layouts with singleton classes, rows contiguous or interleaved, integer labels {-3,7,10} or fractional labels {0.25,0.75,1.5} that share integer parts, 2 trees, keep_samples (1 seed quick, 4 thorough): stratification and all other classifier clauses",
                "bootstrap": "n=4 rows (2+2 classes / 2 target vectors), 3 layouts per p in {1,2}, n_trees in {1,2}, m in {p, 1}: EVERY bootstrap outcome (16 per classifier tree, 256 per regressor tree) and every feature-subsampling shuffle",
            }),
        }
    }

    fn run(&self, job: &Job) {
        if job.kind() == "entry" {
            return mc_sc::entry::run_part("C06", job.u("part"));
        }
        match job.kind() {
            "seeded" => seeded_case(job),
            "bootstrap" => bootstrap_case(job),
            "sizes" => sizes_case(job),
            "builders" => mc_sc::builders::run("C06"),
            other => panic!("unknown job kind {}", other),
        }
    }

    fn cleanup(&self) {
        release_rng();
    }

    fn rule(&self) -> String {
        "one execution = one (data set, estimator, seed, n_trees, m, limits, keep_samples, criterion) fitted twice with the real seeded RNG, or one complete bootstrap/feature-shuffle answer sequence of a tiny forest; non-trivial = a forest was returned and its aggregation checked against its deserialised member trees; distinct = digest of (predictions, in-bag masks)".into()
    }

    fn assumptions(&self) -> Vec<String> {
        vec![
            "member trees are recovered through serde (forest -> JSON -> DecisionTree*), so serde round-trip fidelity of trees is trusted here (it is C19's subject)".into(),
            "seeds beyond the enumerated block are not explored (the StdRng stream is a black box); the bootstrap-schedule exploration covers all draws for n=4".into(),
            "OOB rows with no out-of-bag tree are skipped (the statement says nothing about them)".into(),
            "the RNG call sites of /repo/src equal /verif/rng_sites.allow (checked at start-up)".into(),
        ]
    }
}

fn main() {
    if let Err(e) = mc_sc::check_rng_sites() {
        eprintln!("MACHINERY-ERROR: {}", e);
        std::process::exit(2);
    }
    mc::main(C06)
}
