//! Input generation, the reference encoder (written from the statement of C18, sharing no code with
//! `/repo`) and the comparison of the library's output with it.

use mc_core::{self as mc, json, PanicInfo, Value};
use mc_sc::rows_of;
use smartcore::error::Failed;
use smartcore::linalg::naive::dense_matrix::DenseMatrix;
use smartcore::linalg::BaseMatrix;
use smartcore::math::num::RealNumber;
use smartcore::preprocessing::categorical::{OneHotEncoder, OneHotEncoderParams};

pub type Rows = Vec<Vec<f64>>;

// ------------------------------------------------------------------------------------------------
// backends: the encoder is generic over `T: Categorizable` (a trait in a private module, so it cannot
// be named here) and `M: Matrix<T>`; every concrete instantiation gets its own little adapter.

pub trait Backend: Sync {
    fn name(&self) -> &'static str;
    fn is_f32(&self) -> bool;
    fn fit(&self, rows: &Rows, idx: &[usize]) -> Result<OneHotEncoder, Failed>;
    fn transform(&self, enc: &OneHotEncoder, rows: &Rows) -> Result<Rows, Failed>;
}

fn build<T: RealNumber, M: BaseMatrix<T>>(rows: &Rows) -> M {
    let r = rows.len();
    let c = if r > 0 { rows[0].len() } else { 0 };
    let mut m = M::zeros(r, c);
    for i in 0..r {
        for j in 0..c {
            m.set(i, j, T::from(rows[i][j]).unwrap());
        }
    }
    m
}

macro_rules! backend {
    ($S:ident, $name:expr, $T:ty, $M:ty, $f32:expr, $via_field:expr) => {
        pub struct $S;
        impl Backend for $S {
            fn name(&self) -> &'static str {
                $name
            }
            fn is_f32(&self) -> bool {
                $f32
            }
            fn fit(&self, rows: &Rows, idx: &[usize]) -> Result<OneHotEncoder, Failed> {
                let m: $M = build::<$T, $M>(rows);
                // the parameters are built by the constructor or by assigning the public field
                let params = if $via_field {
                    let mut p = OneHotEncoderParams::from_cat_idx(&[]);
                    p.col_idx_categorical = Some(idx.to_vec());
                    p
                } else {
                    OneHotEncoderParams::from_cat_idx(idx)
                };
                OneHotEncoder::fit(&m, params)
            }
            fn transform(&self, enc: &OneHotEncoder, rows: &Rows) -> Result<Rows, Failed> {
                let m: $M = build::<$T, $M>(rows);
                enc.transform(&m).map(|o| rows_of::<$T, $M>(&o))
            }
        }
    };
}

backend!(DenseF64, "DenseMatrix<f64>", f64, DenseMatrix<f64>, false, false);
backend!(DenseF32, "DenseMatrix<f32>", f32, DenseMatrix<f32>, true, false);
backend!(NdF64, "ndarray::Array2<f64>", f64, ndarray::Array2<f64>, false, false);
backend!(NaF32, "nalgebra::DMatrix<f32>", f32, nalgebra::DMatrix<f32>, true, false);
// the same matrix types with the parameter struct filled through its public field
// `col_idx_categorical` instead of `from_cat_idx` (round 5)
backend!(DenseF64Field, "DenseMatrix<f64>, params via public field", f64, DenseMatrix<f64>, false, true);
backend!(NaF32Field, "nalgebra::DMatrix<f32>, params via public field", f32, nalgebra::DMatrix<f32>, true, true);

pub static BACKENDS: [&dyn Backend; 6] = [&DenseF64, &DenseF32, &NdF64, &NaF32, &DenseF64Field, &NaF32Field];

/// The value a matrix of the backend's element type really holds for `v`.
pub fn quant(be: &dyn Backend, v: f64) -> f64 {
    if be.is_f32() {
        v as f32 as f64
    } else {
        v
    }
}

// ------------------------------------------------------------------------------------------------
// alphabets

/// Category codes whose numeric order, first-appearance order and position in the table all differ;
/// includes both ends of the u16 range the encoder's category type can hold.
pub const UGLY: [f64; 10] = [65535.0, 0.0, 300.0, 7.0, 12345.0, 2.0, 999.0, 65534.0, 41.0, 1.0];
/// VERIF_SEED-selected perturbation of the code alphabet (seed 0 = plain alphabet).
pub const OFFS: [f64; 8] = [0.0, 1.0, 5.0, 100.0, 1000.0, 40000.0, 3.0, 65000.0];

pub const N_CODE_SCHEMES: usize = 3;
pub const N_ROW_SCHEMES: usize = 3;

/// Code of category `label` in matrix column `col`.
/// scheme 0: numerically descending in the label, different in every column;
/// scheme 1: 0,1,2,.. (the same contiguous codes in every column);
/// scheme 2: the `UGLY` table rotated by the column.
pub fn code(cs: usize, label: usize, col: usize, top: usize, seed: u64) -> f64 {
    match cs {
        0 => (10 * (top - label) + col) as f64 + OFFS[(seed % 8) as usize],
        1 => label as f64,
        _ => UGLY[(label + col + (seed % 10) as usize) % UGLY.len()],
    }
}

/// Index-coded, non-integer, pairwise distinct values of the plain columns (never 0 or 1), exactly
/// representable in f32. Sign pattern by scheme: all +, checkerboard, all -.
pub fn plain(cs: usize, r: usize, c: usize, seed: u64) -> f64 {
    let v = (1 + 16 * r + c) as f64 + 0.5 + 64.0 * (seed % 8) as f64;
    match cs {
        0 => v,
        1 => {
            if (r + c) % 2 == 0 {
                v
            } else {
                -v
            }
        }
        _ => -v,
    }
}

/// Row schemes: 0 = kk+1 rows (reversed sweep, one repeat), 1 = kk rows (every category of the widest
/// column exactly once; n = 1 when every column has a single category), 2 = 2kk rows (pairs).
pub fn n_rows(rs: usize, kk: usize) -> usize {
    match rs {
        0 => kk + 1,
        1 => kk,
        _ => 2 * kk,
    }
}

/// Category label of row `r` in the `i`-th categorical column with `k` categories (surjective onto
/// 0..k for every row scheme because every scheme sweeps at least `kk >= k` consecutive integers).
pub fn label(rs: usize, r: usize, i: usize, k: usize, n: usize) -> usize {
    match rs {
        0 => (n - 1 - r + i) % k,
        1 => (r + i) % k,
        _ => (r / 2 + i) % k,
    }
}

pub fn bits(mask: usize, p: usize) -> Vec<usize> {
    (0..p).filter(|j| mask >> j & 1 == 1).collect()
}

/// The matrix of a layout case: categorical columns `cats` (sorted) with `ks[i]` categories each.
pub fn layout_rows(p: usize, cats: &[usize], ks: &[usize], cs: usize, rs: usize, seed: u64) -> Rows {
    let kk = ks.iter().copied().max().unwrap_or(1);
    let n = n_rows(rs, kk);
    let mut rows = vec![vec![0.0; p]; n];
    for r in 0..n {
        for c in 0..p {
            rows[r][c] = match cats.iter().position(|x| *x == c) {
                Some(i) => code(cs, label(rs, r, i, ks[i], n), c, kk, seed),
                None => plain(cs, r, c, seed),
            };
        }
    }
    rows
}

/// The matrix of a first-appearance case: the label sequences are given explicitly (one per
/// categorical column).
pub fn rgs_rows(p: usize, cats: &[usize], labels: &[Vec<usize>], n: usize, cs: usize, seed: u64) -> Rows {
    let mut rows = vec![vec![0.0; p]; n];
    for r in 0..n {
        for c in 0..p {
            rows[r][c] = match cats.iter().position(|x| *x == c) {
                Some(i) => code(cs, labels[i][r], c, n, seed),
                None => plain(cs, r, c, seed),
            };
        }
    }
    rows
}

// ------------------------------------------------------------------------------------------------
// many categories per column (extension, round 2)

pub fn gcd(a: usize, b: usize) -> usize {
    if b == 0 {
        a
    } else {
        gcd(b, a % b)
    }
}

/// Smallest s >= 2 coprime to k that is not k-1 (i -> i*s mod k is then a permutation of 0..k that is
/// neither the identity nor the reversal up to rotation).
pub fn stride(k: usize) -> usize {
    (2..).find(|s| gcd(*s, k) == 1 && *s + 1 != k).unwrap()
}

/// Table of pairwise distinct u16 codes for many categories: both ends of the range first, then a
/// multiplicative scramble (40503 is odd, so i -> 40503 i mod 65536 is injective; `many_tables_ok`
/// checks that the part that is used avoids 0 and 65535).
pub fn wide_code(i: usize) -> u16 {
    match i {
        0 => 65535,
        1 => 0,
        _ => ((i * 40503) % 65536) as u16,
    }
}

/// Plan-time self-check of the many-category code table (pairwise distinct over the used range).
pub fn many_tables_ok(upto: usize) -> bool {
    let v: Vec<u16> = (0..upto).map(wide_code).collect();
    (0..upto).all(|i| (0..i).all(|j| v[i] != v[j]))
}

pub const N_MANY_CODE_SCHEMES: usize = 4;
/// Smallest category count of the many-category family.
pub const MANY_K: usize = 7;

/// Code of category id `id` (ids are numbered by first appearance in column A) in matrix column `col`
/// when the job's category count is `k`:
/// scheme 0: the id itself (first-appearance order = numeric order, same codes in every column);
/// scheme 1: numerically descending in the id, different in every column;
/// scheme 2: the contiguous codes 0..k in stride-coprime order, rotated by the column;
/// scheme 3: the `wide_code` table (both ends of the u16 range, scrambled), shifted by the column.
pub fn many_code(cs: usize, id: usize, col: usize, k: usize, seed: u64) -> f64 {
    match cs {
        0 => id as f64,
        1 => (10 * (k - id) + col) as f64 + OFFS[(seed % 8) as usize],
        2 => ((id * stride(k) + col + (seed % 8) as usize) % k) as f64,
        _ => wide_code(id + 7 * col + (seed % 10) as usize) as f64,
    }
}

/// Row patterns of the categorical column A with k categories (ids in row order):
/// index 0: n = k, every category once; 1: n = 2k, pairs (0,0,1,1,..); 2: n = 2k, sweep then reversed
/// sweep; 3: n = 2k, sweep then stride-coprime sweep; 4..: n = k+1, the sweep with one extra copy of
/// category c inserted at row q, every (c, q) with c < q <= k  (k(k+1)/2 patterns).
pub fn n_many_row_patterns(k: usize) -> usize {
    4 + k * (k + 1) / 2
}

pub fn many_ids(k: usize, pattern: usize) -> Vec<usize> {
    match pattern {
        0 => (0..k).collect(),
        1 => (0..2 * k).map(|r| r / 2).collect(),
        2 => (0..k).chain((0..k).rev()).collect(),
        3 => (0..k).chain((0..k).map(|i| (i * stride(k)) % k)).collect(),
        _ => {
            let mut t = pattern - 4;
            let mut c = 0;
            // category c has k - c possible insertion rows q = c+1 ..= k
            while t >= k - c {
                t -= k - c;
                c += 1;
            }
            let q = c + 1 + t;
            let mut v: Vec<usize> = (0..k).collect();
            v.insert(q, c);
            v
        }
    }
}

/// The three row patterns used by the error-clause jobs: every category once, the sweep plus a copy of
/// category 0 in the last row (n = k+1), pairs (n = 2k).
pub const MANY_ERR_PATTERNS: usize = 3;
pub fn many_err_pattern(k: usize, e: usize) -> usize {
    match e {
        0 => 0,
        1 => 4 + (k - 1), // c = 0, q = k
        _ => 1,
    }
}

/// (p, categorical columns): a single categorical column alone / first / middle / last, and two
/// categorical columns with exactly one plain column between them (nothing else / plain columns around).
pub const MANY_LAYOUTS: [(usize, &[usize]); 6] = [(1, &[0]), (3, &[0]), (3, &[1]), (3, &[2]), (3, &[0, 2]), (5, &[1, 3])];

/// Matrix of a many-category case. Column A (= cats[0]) follows `ids`; a second categorical column B
/// (= cats[1]) has `kb` categories in a reversed sweep, ids (n-1-r) mod kb.
pub fn many_rows(p: usize, cats: &[usize], ids: &[usize], k: usize, kb: usize, cs: usize, seed: u64) -> Rows {
    let n = ids.len();
    let mut rows = vec![vec![0.0; p]; n];
    for r in 0..n {
        for c in 0..p {
            rows[r][c] = match cats.iter().position(|x| *x == c) {
                Some(0) => many_code(cs, ids[r], c, k, seed),
                Some(_) => many_code(cs, (n - 1 - r) % kb, c, k, seed),
                None => plain(cs % 3, r, c, seed),
            };
        }
    }
    rows
}

// ------------------------------------------------------------------------------------------------
// extreme pass-through values and extreme category codes (extension "pass-through values")

/// Size of the pass-through alphabet (per element type).
pub const N_PT: usize = 14;

/// The `i`-th letter of the pass-through alphabet of the backend's element type, as the f64 that the
/// matrix really holds. f64: both zeros, values far below machine epsilon, the smallest subnormal (both
/// signs), 1e-300, values that are subnormal / below epsilon only in f32, the largest ordinary
/// magnitudes (both signs), 0.1+0.2 and one ordinary value. f32: the same roles with the f32 limits
/// (1.4e-45 smallest subnormal, 1e-40 subnormal, 6e-8 < f32 epsilon, 3e38 largest ordinary magnitude);
/// nothing overflows to inf or is flushed to zero by the conversion.
pub fn pt_letter(is_f32: bool, i: usize) -> f64 {
    if is_f32 {
        let t: [f32; N_PT] = [0.0, -0.0, 7.3e-17, -2.2e-16, 1.4e-45, 1e-40, 6e-8, -1e-40, 3e38, -3e38, 0.1f32 + 0.2f32, -1.4e-45, f32::MIN_POSITIVE, 2.5];
        t[i] as f64
    } else {
        let t: [f64; N_PT] = [0.0, -0.0, 7.3e-17, -2.2e-16, 5e-324, 1e-300, 6e-8, 1e-40, 1e300, 3e38, 0.1f64 + 0.2f64, -5e-324, -1e300, 2.5];
        t[i]
    }
}

/// Plan-time self-check: within each element type the letters are pairwise distinct as bit patterns,
/// finite, exactly representable in the element type, and the roles are what the table says.
pub fn pt_alphabet_ok() -> bool {
    [false, true].iter().all(|&f| {
        let v: Vec<f64> = (0..N_PT).map(|i| pt_letter(f, i)).collect();
        let distinct = (0..N_PT).all(|i| (0..i).all(|j| v[i].to_bits() != v[j].to_bits()));
        let exact = v.iter().all(|x| x.is_finite() && (!f || (*x as f32 as f64).to_bits() == x.to_bits()));
        let kinds: Vec<&str> = v.iter().map(|x| pt_kind(f, *x)).collect();
        distinct
            && exact
            && kinds[0] == "positive-zero"
            && kinds[1] == "negative-zero"
            && kinds[2] == "below-epsilon"
            && kinds[3] == "below-epsilon"
            && kinds[4] == "subnormal"
            && kinds[8] == "huge"
            && kinds[9] == "huge"
            && kinds[10] == "ordinary"
            && kinds[11] == "subnormal"
            && kinds[13] == "ordinary"
            && (!f || (kinds[5] == "subnormal" && kinds[6] == "below-epsilon" && kinds[7] == "subnormal"))
    })
}

/// Kind of a pass-through value, relative to the element type (used for counters and to name the
/// clause of a changed pass-through cell; decided from the input value only).
pub fn pt_kind(is_f32: bool, v: f64) -> &'static str {
    let (tiny, eps) = if is_f32 { (f32::MIN_POSITIVE as f64, f32::EPSILON as f64) } else { (f64::MIN_POSITIVE, f64::EPSILON) };
    let a = v.abs();
    if v == 0.0 {
        if v.is_sign_negative() {
            "negative-zero"
        } else {
            "positive-zero"
        }
    } else if a < tiny {
        "subnormal"
    } else if a <= eps {
        "below-epsilon"
    } else if a > 1e30 {
        "huge"
    } else {
        "ordinary"
    }
}

/// Does the matrix hold a pass-through value outside the ordinary alphabet (a zero, |v| < 1e-6 or
/// |v| > 1e30)? Such layouts are an input class of their own (`-extreme-pass-through-values`); the
/// ordinary plain alphabet has 1.5 <= |v| < 1000.
pub fn has_extreme_pass_through(rows: &Rows, cats_sorted: &[usize]) -> bool {
    rows.iter().any(|r| r.iter().enumerate().any(|(c, v)| !cats_sorted.contains(&c) && (v.abs() < 1e-6 || v.abs() > 1e30)))
}

/// Strides (row, column) of the letter assignment, selected by VERIF_SEED; the row stride is coprime
/// to `N_PT`, so a column of >= 2 rows never repeats a letter in neighbouring rows.
pub fn pt_strides(seed: u64) -> (usize, usize) {
    ([1, 3, 5, 9, 11, 13][(seed % 6) as usize], [3, 1, 5][(seed % 3) as usize])
}

/// The matrix of a pass-through-value case: the layout matrix with every plain cell replaced by a
/// letter of the pass-through alphabet. mode 0: cell (r, j-th plain column) holds letter
/// (a + s1 r + s2 j) mod N_PT — over the N_PT rotations `a` every cell holds every letter once;
/// mode 1: the whole j-th plain column holds letter (a + s2 j) mod N_PT.
pub fn ptval_rows(is_f32: bool, p: usize, cats: &[usize], ks: &[usize], cs: usize, rs: usize, a: usize, mode: usize, seed: u64) -> Rows {
    let mut rows = layout_rows(p, cats, ks, cs, rs, seed);
    let (s1, s2) = pt_strides(seed);
    let mut j = 0;
    for c in 0..p {
        if cats.contains(&c) {
            continue;
        }
        for (r, row) in rows.iter_mut().enumerate() {
            let i = if mode == 0 { a + s1 * r + s2 * j } else { a + s2 * j };
            row[c] = pt_letter(is_f32, i % N_PT);
        }
        j += 1;
    }
    rows
}

/// Bit-exact digest of a matrix (keeps the sign of zero, unlike `digest_rows`).
pub fn digest_rows_bits(rows: &Rows) -> u64 {
    rows.iter().fold(rows.len() as u64, |h, r| r.iter().fold(mc::hash::mix(h, r.len() as u64), |h, x| mc::hash::mix(h, x.to_bits())))
}

/// Code sets (in first-appearance order) of a fitted column that holds BOTH legal extreme codes 0 and
/// 65535: every arrangement of {0, 65535} (k = 2), of {0, 65535, f} for f in {1, 65534} (k = 3), of
/// {0, 65535, 1, 65534} (k = 4) and of {0, 65535, 1, 65534, 300} (k = 5).
pub fn n_extreme_code_sets(k: usize) -> usize {
    match k {
        2 => 2,
        3 => 12,
        4 => 24,
        _ => 120,
    }
}

pub fn extreme_code_set(k: usize, idx: usize) -> Vec<f64> {
    let base: Vec<f64> = match k {
        2 => vec![0.0, 65535.0],
        3 => vec![0.0, 65535.0, if idx / 6 == 0 { 1.0 } else { 65534.0 }],
        4 => vec![0.0, 65535.0, 1.0, 65534.0],
        _ => vec![0.0, 65535.0, 1.0, 65534.0, 300.0],
    };
    nth_perm(k, idx % factorial(k)).into_iter().map(|i| base[i]).collect()
}

/// Values that are not category codes, invalid in different ways (all exactly representable in f32):
/// fractional, negative integer, one past the u16 range, far past it, negative fractional, just above
/// 65535, 2^32 (0 after a wrapping cast), -65535, 2^17-1 (65535 after a wrapping cast), fractional
/// below 1.
pub const INVALID_VALUES: [f64; 10] = [12.5, -4.0, 65536.0, 1e9, -0.5, 65535.5, 4294967296.0, -65535.0, 131071.0, 0.5];

/// Kind of an invalid value (names the input class; decided from the value only).
pub fn invalid_kind(v: f64) -> &'static str {
    match (v < 0.0, v > 65535.0, v.fract() != 0.0) {
        (true, _, false) => "negative-integer",
        (true, _, true) => "negative-fraction",
        (_, true, false) => "integer-above-65535",
        (_, true, true) => "fraction-above-65535",
        _ => "fraction-in-range",
    }
}

/// (p, categorical columns) of the extreme-code jobs.
pub const EXTREME_LAYOUTS: [(usize, &[usize]); 4] = [(1, &[0]), (3, &[1]), (3, &[0, 2]), (5, &[1, 3])];

/// Matrix of an extreme-code case: the i-th categorical column holds the code set rotated by i; rows:
/// pattern 0: n = k (every category once), 1: n = k+1 (first category again in the last row), 2: n = 2k
/// (pairs); the second categorical column runs through its categories in reversed row order. Plain
/// columns hold the ordinary plain alphabet (all positive).
pub fn extreme_rows(p: usize, cats: &[usize], set: &[f64], pattern: usize, seed: u64) -> Rows {
    let k = set.len();
    let n = match pattern {
        0 => k,
        1 => k + 1,
        _ => 2 * k,
    };
    let mut rows = vec![vec![0.0; p]; n];
    for r in 0..n {
        for c in 0..p {
            rows[r][c] = match cats.iter().position(|x| *x == c) {
                Some(i) => {
                    let rr = if i == 0 { r } else { n - 1 - r };
                    let l = if pattern == 2 { rr / 2 } else { rr % k };
                    set[(l + i) % k]
                }
                None => plain(0, r, c, seed),
            };
        }
    }
    rows
}

/// `idx`-th permutation of 0..m in lexicographic order (idx < m!).
pub fn nth_perm(m: usize, mut idx: usize) -> Vec<usize> {
    let mut fact = vec![1usize; m + 1];
    for i in 1..=m {
        fact[i] = fact[i - 1] * i;
    }
    let mut pool: Vec<usize> = (0..m).collect();
    let mut out = Vec::with_capacity(m);
    for i in (0..m).rev() {
        let q = idx / fact[i];
        idx %= fact[i];
        out.push(pool.remove(q));
    }
    out
}

pub fn factorial(m: usize) -> usize {
    (1..=m).product::<usize>().max(1)
}

/// Number of orderings of the index list that are enumerated for `m` categorical columns: all m!
/// for m <= full, otherwise five structured ones.
pub fn n_orders(m: usize, full: usize) -> usize {
    if m <= 1 {
        1
    } else if m <= full {
        factorial(m)
    } else {
        5
    }
}

/// The `o`-th ordering (a permutation of positions 0..m); ordering 0 is always the sorted one.
pub fn order(m: usize, full: usize, o: usize) -> Vec<usize> {
    if m <= full {
        return nth_perm(m, o);
    }
    let id: Vec<usize> = (0..m).collect();
    match o {
        0 => id,
        1 => id.into_iter().rev().collect(),
        2 => (1..m).chain(0..1).collect(),
        3 => (0..m).step_by(2).chain((1..m).step_by(2)).collect(),
        _ => {
            let mut v = id;
            v.swap(0, 1);
            v
        }
    }
}

// ------------------------------------------------------------------------------------------------
// the reference encoder

/// Distinct values of a column in order of first appearance (plain scan, no hashing).
pub fn first_appearance(rows: &Rows, col: usize) -> Vec<f64> {
    let mut cats: Vec<f64> = Vec::new();
    for r in rows {
        if !cats.iter().any(|c| *c == r[col]) {
            cats.push(r[col]);
        }
    }
    cats
}

pub struct Expected {
    pub rows: Rows,
    /// per output column: (input column, Some(category) for an indicator column)
    pub origin: Vec<(usize, Option<f64>)>,
    /// categories of the categorical columns (sorted by column), in order of first appearance
    pub cats: Vec<Vec<f64>>,
}

/// What the statement says the fitted encoder produces for the matrix it was fitted on: n rows; every
/// plain column unchanged and in its original relative order; every categorical column replaced at
/// its own position by k indicator columns in order of first appearance, one 1 per row.
pub fn reference(rows: &Rows, cats_sorted: &[usize]) -> Expected {
    let p = rows[0].len();
    let mut origin = Vec::new();
    let mut cats = Vec::new();
    for j in 0..p {
        if cats_sorted.contains(&j) {
            let c = first_appearance(rows, j);
            for v in &c {
                origin.push((j, Some(*v)));
            }
            cats.push(c);
        } else {
            origin.push((j, None));
        }
    }
    let out = rows
        .iter()
        .map(|r| {
            origin
                .iter()
                .map(|(j, cat)| match cat {
                    None => r[*j],
                    Some(v) => {
                        if r[*j] == *v {
                            1.0
                        } else {
                            0.0
                        }
                    }
                })
                .collect()
        })
        .collect();
    Expected { rows: out, origin, cats }
}

/// Input class of a layout, decided from (p, categorical columns, category counts) only:
/// * `no-categorical`, `single-categorical`;
/// * `column-follows-non-first-categorical`: some categorical column other than the lowest-indexed
///   one has >= 2 categories and is not the last column of the matrix (so the position of at least one
///   later column depends on the width of a block that is not the first block);
/// * `several-categoricals-other`: every other layout with >= 2 categorical columns.
pub fn layout_class(p: usize, cats_sorted: &[usize], ks: &[usize]) -> &'static str {
    match cats_sorted.len() {
        0 => "no-categorical",
        1 => "single-categorical",
        m => {
            if (1..m).any(|i| ks[i] >= 2 && cats_sorted[i] + 1 < p) {
                "column-follows-non-first-categorical"
            } else {
                "several-categoricals-other"
            }
        }
    }
}

pub fn fmt_rows(rows: &Rows) -> String {
    let rs: Vec<String> = rows.iter().map(|r| format!("{:?}", r)).collect();
    format!("[{}]", rs.join(","))
}

pub enum FitOutcome {
    Panic(PanicInfo),
    Err(Failed),
    Ok(OneHotEncoder),
}

pub fn guarded_fit(be: &dyn Backend, rows: &Rows, given: &[usize]) -> FitOutcome {
    match mc::guard(|| be.fit(rows, given)) {
        Err(p) => FitOutcome::Panic(p),
        Ok(Err(e)) => FitOutcome::Err(e),
        Ok(Ok(enc)) => FitOutcome::Ok(enc),
    }
}

/// Fit on `rows` with the index list `given`, transform `rows`, compare with the reference encoder.
/// Reports every broken clause; returns the library's output (for the outcome digest).
pub fn check_fit_transform(be: &dyn Backend, rows: &Rows, cats_sorted: &[usize], given: &[usize]) -> Option<Rows> {
    let p = rows[0].len();
    let n = rows.len();
    let exp = reference(rows, cats_sorted);
    let ks: Vec<usize> = exp.cats.iter().map(|c| c.len()).collect();
    // layouts with a column of >= MANY_K categories are an input class of their own, decided from the
    // input (the original quick space has at most 6 categories per column; the thorough `rgs` jobs with
    // n >= 7 rows reach 7..9 categories and fall into the same class)
    // layouts whose pass-through columns hold a zero, |v| < 1e-6 or |v| > 1e30 (never the case in the
    // ordinary plain alphabet) are an input class of their own as well
    let extreme_pt = has_extreme_pass_through(rows, cats_sorted);
    let class: String = if ks.iter().any(|k| *k >= MANY_K) {
        format!("{}-many-categories", layout_class(p, cats_sorted, &ks))
    } else if extreme_pt {
        format!("{}-extreme-pass-through-values", layout_class(p, cats_sorted, &ks))
    } else {
        layout_class(p, cats_sorted, &ks).to_string()
    };
    let head = || format!("{} p={} categorical={:?} (given as {:?}) k={:?} x={}", be.name(), p, cats_sorted, given, ks, fmt_rows(rows));
    let enc = match guarded_fit(be, rows, given) {
        FitOutcome::Panic(pi) => {
            let sfx = if pi.is_overflow_check() { ":overflow-check" } else { "" };
            mc::violation(format!("onehot.fit:{}:panic{}", class, sfx), format!("{}: fit panicked: {}", head(), pi.brief()));
            return None;
        }
        FitOutcome::Err(e) => {
            mc::violation(format!("onehot.fit:{}:error-on-valid-input", class), format!("{}: fit returned an error for integer-coded categorical columns: {}", head(), e));
            return None;
        }
        FitOutcome::Ok(enc) => enc,
    };
    let out = match mc::guard(|| be.transform(&enc, rows)) {
        Err(pi) => {
            let sfx = if pi.is_overflow_check() { ":overflow-check" } else { "" };
            mc::violation(format!("onehot.transform:{}:panic{}", class, sfx), format!("{}: transform of the fitted matrix panicked: {}", head(), pi.brief()));
            return None;
        }
        Ok(Err(e)) => {
            mc::violation(format!("onehot.transform:{}:error-on-fitted-matrix", class), format!("{}: transform of the very matrix the encoder was fitted on returned an error: {}", head(), e));
            return None;
        }
        Ok(Ok(o)) => o,
    };
    let width = p + ks.iter().map(|k| k - 1).sum::<usize>();
    debug_assert_eq!(width, exp.origin.len());
    let got_cols = out.first().map(|r| r.len()).unwrap_or(0);
    if out.len() != n || got_cols != width || out.iter().any(|r| r.len() != got_cols) {
        mc::violation(
            format!("onehot.transform:{}:shape", class),
            format!("{}: output is {}x{}, expected n x (p + sum(k_j - 1)) = {}x{}", head(), out.len(), got_cols, n, width),
        );
        return Some(out);
    }
    // cell by cell: plain values bit for bit, indicators exactly 1 / 0
    let mut first: Option<(usize, usize)> = None;
    let mut bad_cols: Vec<usize> = Vec::new();
    for q in 0..width {
        for r in 0..n {
            let (e, g) = (exp.rows[r][q], out[r][q]);
            let same = match exp.origin[q].1 {
                None => e.to_bits() == g.to_bits(),
                Some(_) => e == g,
            };
            if !same {
                if first.is_none() {
                    first = Some((r, q));
                }
                if bad_cols.last() != Some(&q) {
                    bad_cols.push(q);
                }
            }
        }
    }
    if let Some((r, q)) = first {
        let (j, cat) = exp.origin[q];
        let role = match cat {
            None => format!("the unchanged plain input column {}", j),
            Some(v) => format!("the indicator of category {} of input column {}", v, j),
        };
        // in the extreme-pass-through class a wrong pass-through cell is a clause of its own, named
        // after the kind of value that should have been copied
        let clause = match (extreme_pt, cat) {
            (true, None) => format!("pass-through-value-changed:{}", pt_kind(be.is_f32(), exp.rows[r][q])),
            _ => "cells".to_string(),
        };
        mc::violation(
            format!("onehot.transform:{}:{}", class, clause),
            format!(
                "{}: output column {} should be {}; row {} holds {:?} instead of {:?} (wrong output columns {:?}); expected {} observed {}",
                head(),
                q,
                role,
                r,
                out[r][q],
                exp.rows[r][q],
                bad_cols,
                fmt_rows(&exp.rows),
                fmt_rows(&out)
            ),
        );
    }
    // "given in any order": the answer must not depend on the order of the index list
    if given != cats_sorted {
        mc::count("index_list_not_sorted");
        let sorted_out = mc::guard(|| be.fit(rows, cats_sorted).and_then(|e| be.transform(&e, rows)));
        let same = matches!(&sorted_out, Ok(Ok(o)) if o.len() == out.len() && o.iter().zip(out.iter()).all(|(a, b)| a.len() == b.len() && a.iter().zip(b.iter()).all(|(x, y)| x.to_bits() == y.to_bits())));
        if !same {
            mc::violation(
                format!("onehot.transform:{}:index-order-dependent", class),
                format!("{}: the result differs from the one obtained with the sorted index list {:?}", head(), cats_sorted),
            );
        }
    }
    Some(out)
}

pub fn digest_rows(rows: &Rows) -> u64 {
    rows.iter().fold(rows.len() as u64, |h, r| mc::hash::mix(h, mc::hash::h_f64s(r)))
}

pub fn describe_case(be: &dyn Backend, rows: &Rows, cats_sorted: &[usize], given: &[usize], out: &Option<Rows>) -> Value {
    let exp = reference(rows, cats_sorted);
    json!({
        "backend": be.name(),
        "x": rows,
        "categorical_columns_as_given": given,
        "categories_in_first_appearance_order": exp.cats,
        "expected": exp.rows,
        "observed": out,
    })
}
