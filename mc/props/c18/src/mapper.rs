//! E2: explicit-state search over category streams for `CategoryMapper`.
//!
//! State = the stream of categories seen so far (the history; the real mapper is rebuilt from it by
//! `fit_to_iter`), action = one more category. In every state the real mapper — built in three ways:
//! `fit_to_iter(stream)`, `from_positional_category_vec`, `from_category_map` (the latter also for
//! every bijection categories -> 0..k) — is compared with the reference (distinct categories in order
//! of first appearance, plain scan): `get_num` / `get_cat` / `get_one_hot` / `invert_one_hot` /
//! `get_ordinal` mutually inverse, unseen categories map to nothing. On every transition: extending
//! the stream never renumbers a category that was already seen.

use mc_core::bfs::{BfsViol, Model};
use mc_core::{self as mc, json, Job, Value};
use smartcore::preprocessing::series_encoder::CategoryMapper;
use std::collections::HashMap;
use std::fmt::Debug;
use std::hash::Hash;

use crate::enc::nth_perm;

/// u16 codes (the encoder's category type): numeric order differs from letter order, both ends of
/// the range present.
pub const U16_LETTERS: [u16; 4] = [3, 0, 65535, 7];
pub const STR_LETTERS: [&str; 4] = ["b", "a", "", "dog"];

fn distinct_in_order<C: Eq + Clone>(stream: &[C]) -> Vec<C> {
    let mut out: Vec<C> = Vec::new();
    for c in stream {
        if !out.contains(c) {
            out.push(c.clone());
        }
    }
    out
}

fn stream_class<C: Eq + Clone>(stream: &[C]) -> &'static str {
    let k = distinct_in_order(stream).len();
    if stream.is_empty() {
        "empty-stream"
    } else if k >= crate::enc::MANY_K {
        // streams with many distinct categories are an input class of their own (the E2 search has at
        // most 4 letters, so its site keys are unchanged)
        if k == stream.len() {
            "many-categories-all-distinct"
        } else {
            "many-categories-with-repeats"
        }
    } else if k == stream.len() {
        "all-distinct"
    } else {
        "with-repeats"
    }
}

/// Bijections categories -> 0..k tried with `from_category_map`: every one for k <= 4 (k! maps),
/// otherwise identity, reversal, stride-coprime and rotation by one.
fn bijections(k: usize) -> Vec<Vec<usize>> {
    if k <= 4 {
        (0..crate::enc::factorial(k)).map(|pi| nth_perm(k, pi)).collect()
    } else {
        let s = crate::enc::stride(k);
        vec![(0..k).collect(), (0..k).rev().collect(), (0..k).map(|i| (i * s) % k).collect(), (0..k).map(|i| (i + 1) % k).collect()]
    }
}

/// All clauses for one mapper whose categories must be `cats` (position = index).
fn check_clauses<C: Hash + Eq + Clone + Debug>(ctor: &str, class: &str, input: &str, mp: &CategoryMapper<C>, cats: &[C], alphabet: &[C], out: &mut Vec<BfsViol>) {
    let k = cats.len();
    let mut fail = |clause: &str, what: String| {
        out.push(BfsViol { site: format!("mapper.{}.{}:{}", ctor, clause, class), what: format!("{} {}: {}", ctor, input, what) });
    };
    let r = mc::guard(|| {
        let mut v: Vec<(&'static str, String)> = Vec::new();
        if mp.num_categories() != k {
            v.push(("num_categories", format!("num_categories() = {}, {} distinct categories", mp.num_categories(), k)));
        }
        if mp.get_categories() != cats {
            v.push(("get_categories", format!("get_categories() = {:?}, expected (first appearance / given positions) {:?}", mp.get_categories(), cats)));
        }
        for (i, c) in cats.iter().enumerate() {
            if mp.get_num(c) != Some(&i) {
                v.push(("get_num", format!("get_num({:?}) = {:?}, expected Some({})", c, mp.get_num(c), i)));
            }
            if i < mp.get_categories().len() && mp.get_cat(i) != c {
                v.push(("get_cat", format!("get_cat({}) = {:?}, expected {:?}", i, mp.get_cat(i), c)));
            }
            let mut e64 = vec![0.0f64; k];
            e64[i] = 1.0;
            let mut e32 = vec![0.0f32; k];
            e32[i] = 1.0;
            let oh64: Option<Vec<f64>> = mp.get_one_hot::<f64, Vec<f64>>(c);
            if oh64.as_ref() != Some(&e64) {
                v.push(("get_one_hot", format!("get_one_hot::<f64>({:?}) = {:?}, expected {:?}", c, oh64, e64)));
            }
            let oh32: Option<Vec<f32>> = mp.get_one_hot::<f32, Vec<f32>>(c);
            if oh32.as_ref() != Some(&e32) {
                v.push(("get_one_hot", format!("get_one_hot::<f32>({:?}) = {:?}, expected {:?}", c, oh32, e32)));
            }
            if k == mp.get_categories().len() {
                match mp.invert_one_hot::<f64, Vec<f64>>(e64.clone()) {
                    Ok(back) if back == *c => {}
                    other => v.push(("invert_one_hot", format!("invert_one_hot({:?}) = {:?}, expected Ok({:?})", e64, other.map_err(|e| e.to_string()), c))),
                }
                match mp.invert_one_hot::<f32, Vec<f32>>(e32.clone()) {
                    Ok(back) if back == *c => {}
                    other => v.push(("invert_one_hot", format!("invert_one_hot::<f32>({:?}) = {:?}, expected Ok({:?})", e32, other.map_err(|e| e.to_string()), c))),
                }
                // round trip through the library's own one-hot vector
                if let Some(oh) = oh64 {
                    if oh.iter().filter(|x| **x == 1.0).count() == 1 {
                        match mp.invert_one_hot::<f64, Vec<f64>>(oh) {
                            Ok(back) if back == *c => {}
                            other => v.push(("invert_one_hot", format!("invert_one_hot(get_one_hot({:?})) = {:?}", c, other.map_err(|e| e.to_string())))),
                        }
                    }
                }
            }
            if mp.get_ordinal::<f64>(c) != Some(i as f64) || mp.get_ordinal::<f32>(c) != Some(i as f32) {
                v.push(("get_ordinal", format!("get_ordinal({:?}) = {:?}, expected Some({})", c, mp.get_ordinal::<f64>(c), i)));
            }
        }
        for u in alphabet.iter().filter(|u| !cats.contains(u)) {
            if mp.get_num(u).is_some() || mp.get_one_hot::<f64, Vec<f64>>(u).is_some() || mp.get_ordinal::<f64>(u).is_some() {
                v.push(("unseen-category", format!("unseen category {:?}: get_num = {:?}, get_one_hot = {:?}, get_ordinal = {:?} (all must be None)", u, mp.get_num(u), mp.get_one_hot::<f64, Vec<f64>>(u), mp.get_ordinal::<f64>(u))));
            }
        }
        v
    });
    match r {
        Ok(v) => {
            // one report per broken clause and mapper (the first category that shows it): with many
            // categories a single defect would otherwise be reported k times per mapper
            let mut reported: Vec<&'static str> = Vec::new();
            for (clause, what) in v {
                if !reported.contains(&clause) {
                    reported.push(clause);
                    fail(clause, what);
                }
            }
        }
        Err(p) => fail("panic", p.brief()),
    }
}

/// Every check for one stream. `prev` = the stream without its last element (transition invariant).
pub fn check_stream<C: Hash + Eq + Clone + Debug>(stream: &[C], alphabet: &[C], with_prev: bool) -> Vec<BfsViol> {
    let mut out = Vec::new();
    let class = stream_class(stream);
    let cats = distinct_in_order(stream);
    let k = cats.len();
    let input = format!("stream={:?}", stream);
    // fit_to_iter
    match mc::guard(|| CategoryMapper::fit_to_iter(stream.iter().cloned())) {
        Err(p) => out.push(BfsViol { site: format!("mapper.fit_to_iter.panic:{}", class), what: format!("fit_to_iter {}: {}", input, p.brief()) }),
        Ok(mp) => {
            check_clauses("fit_to_iter", class, &input, &mp, &cats, alphabet, &mut out);
            if with_prev && !stream.is_empty() {
                let prev = &stream[..stream.len() - 1];
                if let Ok(mp_prev) = mc::guard(|| CategoryMapper::fit_to_iter(prev.iter().cloned())) {
                    for c in distinct_in_order(prev) {
                        if mp.get_num(&c) != mp_prev.get_num(&c) {
                            out.push(BfsViol {
                                site: format!("mapper.fit_to_iter.renumbered-on-extension:{}", class),
                                what: format!("fit_to_iter {}: category {:?} had index {:?} before the last element was appended, {:?} after", input, c, mp_prev.get_num(&c), mp.get_num(&c)),
                            });
                        }
                    }
                }
            }
        }
    }
    // from_positional_category_vec: position = index
    match mc::guard(|| CategoryMapper::from_positional_category_vec(cats.clone())) {
        Err(p) => out.push(BfsViol { site: format!("mapper.from_positional_category_vec.panic:{}", class), what: format!("categories {:?}: {}", cats, p.brief()) }),
        Ok(mp) => check_clauses("from_positional_category_vec", class, &format!("categories={:?}", cats), &mp, &cats, alphabet, &mut out),
    }
    // from_category_map: every bijection categories -> 0..k (k <= 4), four structured ones beyond
    {
        for perm in bijections(k) {
            let mut expected: Vec<Option<C>> = vec![None; k];
            let mut pairs: Vec<(C, usize)> = Vec::new();
            for (i, c) in cats.iter().enumerate() {
                expected[perm[i]] = Some(c.clone());
                pairs.push((c.clone(), perm[i]));
            }
            let expected: Vec<C> = expected.into_iter().map(|c| c.unwrap()).collect();
            let input = format!("map={:?}", pairs);
            let map: HashMap<C, usize> = pairs.into_iter().collect();
            match mc::guard(|| CategoryMapper::from_category_map(map)) {
                Err(p) => out.push(BfsViol { site: format!("mapper.from_category_map.panic:{}", class), what: format!("{}: {}", input, p.brief()) }),
                Ok(mp) => check_clauses("from_category_map", class, &input, &mp, &expected, alphabet, &mut out),
            }
        }
    }
    out
}

// ------------------------------------------------------------------------------------------------
// many categories (extension, round 2): streams with k = 7.. distinct categories as E1 jobs

/// u16 letters for many categories: the `wide_code` table (both ends of the range, scrambled).
pub fn many_u16(l: u8) -> u16 {
    crate::enc::wide_code(l as usize)
}

/// String letters: the empty string, short words, then "c4", "c5", .. (shared prefixes: "c4"/"c40").
pub fn many_str(l: u8) -> String {
    match l {
        0 => "b".to_string(),
        1 => "a".to_string(),
        2 => String::new(),
        3 => "dog".to_string(),
        _ => format!("c{}", l),
    }
}

pub fn many_letters_ok(upto: usize) -> bool {
    let a: Vec<u16> = (0..upto as u8).map(many_u16).collect();
    let b: Vec<String> = (0..upto as u8).map(many_str).collect();
    (0..upto).all(|i| (0..i).all(|j| a[i] != a[j] && b[i] != b[j]))
}

pub const N_MANY_ORDERS: usize = 3;

/// The stream of letter indices: the id pattern `many_ids(k, pattern)` (ids numbered by first
/// appearance) with id j standing for letter j (identity) / k-1-j (reversed) / j*stride mod k.
pub fn many_stream(k: usize, order: usize, pattern: usize) -> Vec<u8> {
    let s = crate::enc::stride(k);
    crate::enc::many_ids(k, pattern)
        .into_iter()
        .map(|j| match order {
            0 => j,
            1 => k - 1 - j,
            _ => (j * s) % k,
        } as u8)
        .collect()
}

fn nums_digest<C: Hash + Eq + Clone>(stream: &[C], alphabet: &[C]) -> u64 {
    match mc::guard(|| {
        let mp = CategoryMapper::fit_to_iter(stream.iter().cloned());
        let v: Vec<usize> = alphabet.iter().map(|c| mp.get_num(c).copied().unwrap_or(usize::MAX)).collect();
        mc::hash::mix(mc::hash::h_usizes(&v), mp.num_categories() as u64)
    }) {
        Ok(d) => d,
        Err(_) => 0xdead,
    }
}

/// Every mapper check for one many-category stream (alphabet = the k letters plus two that never
/// occur); returns the violations and a digest of the indices the real mapper assigned.
pub fn check_many(ty: Ty, k: usize, letters: &[u8]) -> (Vec<BfsViol>, u64) {
    match ty {
        Ty::U16 => {
            let s: Vec<u16> = letters.iter().map(|l| many_u16(*l)).collect();
            let alpha: Vec<u16> = (0..(k + 2) as u8).map(many_u16).collect();
            (check_stream(&s, &alpha, true), nums_digest(&s, &alpha))
        }
        Ty::Str => {
            let s: Vec<String> = letters.iter().map(|l| many_str(*l)).collect();
            let alpha: Vec<String> = (0..(k + 2) as u8).map(many_str).collect();
            (check_stream(&s, &alpha, true), nums_digest(&s, &alpha))
        }
    }
}

pub fn show_many(ty: Ty, letters: &[u8]) -> Value {
    match ty {
        Ty::U16 => json!(letters.iter().map(|l| many_u16(*l)).collect::<Vec<_>>()),
        Ty::Str => json!(letters.iter().map(|l| many_str(*l)).collect::<Vec<_>>()),
    }
}

#[derive(Clone, Copy, PartialEq, Eq, Debug)]
pub enum Ty {
    U16,
    Str,
}

impl Ty {
    pub fn name(self) -> &'static str {
        match self {
            Ty::U16 => "u16",
            Ty::Str => "string",
        }
    }
    pub fn parse(s: &str) -> Ty {
        if s == "u16" {
            Ty::U16
        } else {
            Ty::Str
        }
    }
}

pub fn check_letters(ty: Ty, letters: usize, stream: &[u8], with_prev: bool) -> Vec<BfsViol> {
    match ty {
        Ty::U16 => {
            let s: Vec<u16> = stream.iter().map(|l| U16_LETTERS[*l as usize]).collect();
            check_stream(&s, &U16_LETTERS[..letters], with_prev)
        }
        Ty::Str => {
            let s: Vec<String> = stream.iter().map(|l| STR_LETTERS[*l as usize].to_string()).collect();
            let alpha: Vec<String> = STR_LETTERS[..letters].iter().map(|x| x.to_string()).collect();
            check_stream(&s, &alpha, with_prev)
        }
    }
}

pub struct MapperModel {
    pub ty: Ty,
    pub letters: usize,
    pub max_len: usize,
}

impl Model for MapperModel {
    type State = Vec<u8>;
    type Action = u8;

    fn init(&self) -> Vec<Vec<u8>> {
        vec![Vec::new()]
    }

    fn actions(&self, s: &Vec<u8>) -> Vec<u8> {
        if s.len() < self.max_len {
            (0..self.letters as u8).collect()
        } else {
            Vec::new()
        }
    }

    fn step(&self, s: &Vec<u8>, a: &u8) -> Option<Vec<u8>> {
        let mut t = s.clone();
        t.push(*a);
        Some(t)
    }

    fn check(&self, s: &Vec<u8>, last: Option<(&Vec<u8>, &u8)>) -> Vec<BfsViol> {
        check_letters(self.ty, self.letters, s, last.is_some())
    }

    fn witnesses(&self, s: &Vec<u8>) -> Vec<&'static str> {
        let mut w = vec!["mapper_states"];
        let d = distinct_in_order(s);
        if d.len() < s.len() {
            w.push("mapper_stream_with_repeats");
        }
        if d.len() >= 2 && d.windows(2).any(|p| self.numeric(p[0]) > self.numeric(p[1])) {
            w.push("mapper_first_appearance_not_sorted");
        }
        if d.len() == self.letters {
            w.push("mapper_all_letters_seen");
        } else {
            w.push("mapper_unseen_letter_exists");
        }
        if s.len() >= 2 && s.last().map(|l| s[..s.len() - 1].contains(l)).unwrap_or(false) {
            w.push("mapper_extension_by_seen_category");
        }
        w
    }

    fn show_state(&self, s: &Vec<u8>) -> Value {
        match self.ty {
            Ty::U16 => json!({"type": "u16", "stream": s.iter().map(|l| U16_LETTERS[*l as usize]).collect::<Vec<_>>()}),
            Ty::Str => json!({"type": "string", "stream": s.iter().map(|l| STR_LETTERS[*l as usize]).collect::<Vec<_>>()}),
        }
    }

    fn replay_job(&self, init: &Vec<u8>, path: &[u8]) -> Job {
        let mut s = init.clone();
        s.extend_from_slice(path);
        Job::new(format!("mapper-replay-{}", self.ty.name()), json!({"kind": "mapper", "ty": self.ty.name(), "letters": self.letters, "stream": s}))
    }
}

impl MapperModel {
    fn numeric(&self, l: u8) -> i64 {
        match self.ty {
            Ty::U16 => U16_LETTERS[l as usize] as i64,
            // byte order of the strings "b","a","","dog": "" < "a" < "b" < "dog"
            Ty::Str => [2, 1, 0, 3][l as usize],
        }
    }
}
