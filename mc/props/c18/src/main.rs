//! C18 — one-hot encoding replaces categorical columns in place and keeps all other data; the
//! category mapper's maps are mutually inverse.
//!
//! E1 (choice-tree exploration of the real `OneHotEncoder`):
//!  * `layout`  every subset of categorical columns x every category-count vector x orderings of the
//!              index list x code / row schemes x matrix backends, judged by a reference encoder
//!              written from the statement;
//!  * `rgs`     every first-appearance pattern (restricted growth string) of the categorical
//!              columns for small n;
//!  * `unseen`  every cell of a categorical column replaced by a value not seen during fitting ->
//!              transform must return an error;
//!  * `nonint`  every cell of a categorical column replaced by a non-integer value -> fit must
//!              return an error.
//!  * `many-*` (round 2) the same clauses for columns / streams with 7..=20 (thorough 7..=40) distinct
//!              categories: `many-layout`, `many-unseen`, `many-nonint`, `many-mapper`.
//!  * `ptval`   (pass-through values) the layout space for p <= 4 (+ framed layouts with a plain column
//!              before, between and after the categorical ones) with the plain columns filled from an
//!              alphabet of extreme values (signed zeros, subnormals, values below epsilon, largest
//!              magnitudes): every cell x every letter, compared bit for bit;
//!  * `xunseen` fitted columns that hold both legal extreme codes 0 and 65535 (every arrangement) x
//!              every cell x 10 values that are invalid in different ways -> transform must return Err.
//! E2 (explicit-state search over category streams): `CategoryMapper`, see `mapper.rs`.

mod enc;
mod mapper;

use enc::*;
use mapper::{MapperModel, Ty};
use mc_core::{self as mc, json, ExtraResult, Harness, Job, Plan, Tier};

struct C18;

/// |v - nearest integer| below this is the zone around the library's documented tolerance
/// (`ERROR_MARGIN` = 0.001) in which the harness takes no position.
const MARGIN_ZONE: f64 = 0.0015;

/// What `as u16` does to a float (saturating truncation) — used ONLY to name the input class of an
/// unseen value (does it collapse onto a seen code?), never for a verdict.
fn sat_trunc_u16(v: f64) -> f64 {
    if v.is_nan() || v <= 0.0 {
        0.0
    } else if v >= 65535.0 {
        65535.0
    } else {
        v.trunc()
    }
}

fn draw_ks(m: usize, kmax: usize) -> Vec<usize> {
    (0..m).map(|_| 1 + mc::choose(kmax)).collect()
}

fn layout_counters(p: usize, cats: &[usize], ks: &[usize], rows: &Rows) {
    mc::count("layout_cases");
    let m = cats.len();
    if m >= 2 && cats[1] + 1 < p && !cats.contains(&(cats[1] + 1)) {
        mc::count("plain_column_after_two_categoricals");
    }
    if cats.windows(2).any(|w| w[1] == w[0] + 1) {
        mc::count("adjacent_categoricals");
    }
    if m == p {
        mc::count("all_columns_categorical");
    }
    if m == 0 {
        mc::count("no_categorical_column");
    }
    if ks.iter().any(|k| *k == 1) {
        mc::count("single_category_column");
    }
    if cats.iter().any(|c| {
        let f = first_appearance(rows, *c);
        f.windows(2).any(|w| w[0] > w[1])
    }) {
        mc::count("first_appearance_not_numeric_order");
    }
    if layout_class(p, cats, ks) == "column-follows-non-first-categorical" {
        mc::count("class_column_follows_non_first_categorical");
    } else if m >= 2 {
        mc::count("class_several_categoricals_other");
    }
}

fn run_layout(job: &Job) {
    let (p, mask, kmax, full, nbe, seed) = (job.u("p"), job.u("mask"), job.u("kmax"), job.u("full"), job.u("backends"), job.u("seed") as u64);
    let cats = bits(mask, p);
    let m = cats.len();
    let ks = draw_ks(m, kmax);
    let ord = order(m, full, mc::choose(n_orders(m, full)));
    let cs = mc::choose(N_CODE_SCHEMES);
    let rs = mc::choose(job.u("row_schemes"));
    let be = BACKENDS[mc::choose(nbe)];
    let rows = layout_rows(p, &cats, &ks, cs, rs, seed);
    let given: Vec<usize> = ord.iter().map(|i| cats[*i]).collect();
    layout_counters(p, &cats, &ks, &rows);
    let out = check_fit_transform(be, &rows, &cats, &given);
    if m >= 1 {
        mc::nontrivial();
    }
    if let Some(o) = &out {
        mc::outcome(digest_rows(o));
    } else {
        mc::outcome(0xdead);
    }
    mc::describe(|| describe_case(be, &rows, &cats, &given, &out));
}

fn run_rgs(job: &Job) {
    let (p, mask, n, nbe, seed) = (job.u("p"), job.u("mask"), job.u("n"), job.u("backends"), job.u("seed") as u64);
    let cats = bits(mask, p);
    let m = cats.len();
    // one restricted growth string per categorical column: a_0 = 0, a_r <= max(a_0..a_{r-1}) + 1
    let mut labels: Vec<Vec<usize>> = Vec::new();
    for _ in 0..m {
        let mut a = vec![0usize];
        let mut mx = 0;
        for _ in 1..n {
            let v = mc::choose(mx + 2);
            mx = mx.max(v);
            a.push(v);
        }
        labels.push(a);
    }
    let rev = m >= 2 && mc::choose(2) == 1;
    let cs = mc::choose(N_CODE_SCHEMES);
    let be = BACKENDS[mc::choose(nbe)];
    let rows = rgs_rows(p, &cats, &labels, n, cs, seed);
    let given: Vec<usize> = if rev { cats.iter().rev().copied().collect() } else { cats.clone() };
    let ks: Vec<usize> = labels.iter().map(|a| a.iter().max().unwrap() + 1).collect();
    mc::count("rgs_cases");
    if ks.iter().any(|k| *k >= 4) {
        mc::count("rgs_four_or_more_categories");
    }
    if labels.iter().any(|a| a.windows(2).any(|w| w[1] < w[0])) {
        mc::count("rgs_category_revisited");
    }
    let out = check_fit_transform(be, &rows, &cats, &given);
    mc::nontrivial();
    mc::outcome(out.as_ref().map(digest_rows).unwrap_or(0xdead));
    mc::describe(|| describe_case(be, &rows, &cats, &given, &out));
}

/// The 12 candidate replacement values for cell (r, col) of a categorical column whose seen codes
/// are `seen`; `other` = codes of a neighbouring categorical column.
fn unseen_candidate(which: usize, seen: &[f64], other: &[f64]) -> f64 {
    let mex = (0..).map(|x| x as f64).find(|x| !seen.contains(x)).unwrap();
    let mx = seen.iter().cloned().fold(0.0, f64::max);
    let s0 = seen[0];
    let sl = *seen.last().unwrap();
    match which {
        0 => mex,
        1 => (mx + 1.0).min(65535.0),
        2 => 65535.0,
        3 => 0.0,
        4 => other.iter().cloned().find(|x| !seen.contains(x)).unwrap_or(mex),
        5 => s0 + 0.5,
        6 => sl + 0.75,
        7 => mex + 0.5,
        8 => -1.0,
        9 => -0.5,
        10 => 70000.0,
        _ => s0 + 0.002,
    }
}
const N_UNSEEN: usize = 12;
/// Layouts (indices into `MANY_LAYOUTS`) of the many-category error-clause jobs: the categorical column
/// between two plain columns, and two categorical columns around one plain column.
const MANY_ERR_LAYOUTS: [usize; 2] = [2, 4];

fn run_unseen(job: &Job) {
    let (p, mask, kmax, nbe, seed) = (job.u("p"), job.u("mask"), job.u("kmax"), job.u("backends"), job.u("seed") as u64);
    let cats = bits(mask, p);
    let m = cats.len();
    let ks = draw_ks(m, kmax);
    let rev = m >= 2 && mc::choose(2) == 1;
    let cs = mc::choose(N_CODE_SCHEMES);
    let be = BACKENDS[mc::choose(nbe)];
    let rows = layout_rows(p, &cats, &ks, cs, 0, seed);
    let n = rows.len();
    let i = mc::choose(m);
    let r = mc::choose(n);
    let which = mc::choose(N_UNSEEN);
    let given: Vec<usize> = if rev { cats.iter().rev().copied().collect() } else { cats.clone() };
    judge_unseen(be, &rows, &cats, &given, i, r, which, false);
}

/// Replace cell (r, cats[i]) by the `which`-th candidate and require `transform` to return an error.
/// `many` = the case belongs to the many-category family (own input class and counters).
fn judge_unseen(be: &'static dyn Backend, rows: &Rows, cats: &[usize], given: &[usize], i: usize, r: usize, which: usize, many: bool) {
    let p = rows[0].len();
    let m = cats.len();
    let col = cats[i];
    let seen = first_appearance(rows, col);
    let other = if m >= 2 { first_appearance(rows, cats[(i + 1) % m]) } else { Vec::new() };
    let v = quant(be, unseen_candidate(which, &seen, &other));
    if seen.iter().any(|s| (s - v).abs() < MARGIN_ZONE) {
        // the candidate is (after rounding to the element type) a seen code or within the library's
        // tolerance of one: not an unseen value
        mc::count(if many { "many_unseen_candidate_is_seen" } else { "unseen_candidate_is_seen" });
        return;
    }
    let invalid = v < 0.0 || v > 65535.0 || v.fract() != 0.0;
    if v.fract() != 0.0 && (v - v.round()).abs() < MARGIN_ZONE {
        mc::count(if many { "many_unseen_candidate_in_margin_zone" } else { "unseen_candidate_in_margin_zone" });
        return;
    }
    let base = if !invalid {
        "unseen-integer-code"
    } else if seen.contains(&sat_trunc_u16(v)) {
        "unseen-invalid-code-collapsing-onto-seen-code"
    } else {
        "unseen-invalid-code"
    };
    let class: String = if many { format!("{}-many-categories", base) } else { base.to_string() };
    let enc = match guarded_fit(be, rows, given) {
        FitOutcome::Ok(e) => e,
        _ => {
            // reported by the layout jobs (same matrices); nothing to transform here
            mc::count(if many { "many_unseen_fit_failed" } else { "unseen_fit_failed" });
            return;
        }
    };
    let mut x2 = rows.clone();
    x2[r][col] = v;
    let head = || format!("{} p={} categorical={:?} fitted on x={}; transform of x with x[{}][{}]={} (seen codes of that column: {:?})", be.name(), p, given, fmt_rows(rows), r, col, v, seen);
    match mc::guard(|| be.transform(&enc, &x2)) {
        Err(pi) => {
            mc::violation(format!("onehot.transform:{}:panic", class), format!("{}: panicked instead of returning an error: {}", head(), pi.brief()));
            mc::outcome(2);
        }
        Ok(Ok(o)) => {
            mc::violation(
                format!("onehot.transform:{}:accepted", class),
                format!("{}: returned Ok (row {} encoded as {:?}) instead of an error", head(), r, o.get(r)),
            );
            mc::outcome(1);
        }
        Ok(Err(_)) => {
            mc::count(if many { "many_unseen_rejected" } else { "unseen_rejected" });
            mc::outcome(0);
        }
    }
    if !many {
        match base {
            "unseen-integer-code" => mc::count("unseen_integer_cases"),
            "unseen-invalid-code" => mc::count("unseen_invalid_cases"),
            _ => mc::count("unseen_collapsing_cases"),
        }
    } else {
        match base {
            "unseen-integer-code" => mc::count("many_unseen_integer_cases"),
            "unseen-invalid-code" => mc::count("many_unseen_invalid_cases"),
            _ => mc::count("many_unseen_collapsing_cases"),
        }
    }
    mc::nontrivial();
    mc::describe(|| json!({"backend": be.name(), "fitted_on": rows, "categorical_columns_as_given": given, "transformed": x2, "changed_cell": [r, col], "unseen_value": v, "class": class}));
}

const NONINT_DELTAS: [f64; 8] = [0.5, 0.25, 0.75, 0.01, 0.002, -0.5, 0.99, 0.0005];

fn run_nonint(job: &Job) {
    let (p, mask, kmax, nbe, seed) = (job.u("p"), job.u("mask"), job.u("kmax"), job.u("backends"), job.u("seed") as u64);
    let cats = bits(mask, p);
    let m = cats.len();
    let ks = draw_ks(m, kmax);
    let rev = m >= 2 && mc::choose(2) == 1;
    let cs = mc::choose(N_CODE_SCHEMES);
    let be = BACKENDS[mc::choose(nbe)];
    let rows = layout_rows(p, &cats, &ks, cs, 0, seed);
    let n = rows.len();
    let i = mc::choose(m);
    let r = mc::choose(n);
    let delta = mc::pick(&NONINT_DELTAS);
    let given: Vec<usize> = if rev { cats.iter().rev().copied().collect() } else { cats.clone() };
    judge_nonint(be, rows, &cats, &given, i, r, delta, false);
}

/// Add `delta` to cell (r, cats[i]) and require `fit` to return an error.
fn judge_nonint(be: &'static dyn Backend, mut rows: Rows, cats: &[usize], given: &[usize], i: usize, r: usize, delta: f64, many: bool) {
    let p = rows[0].len();
    let col = cats[i];
    let v = quant(be, rows[r][col] + delta);
    let dist = (v - v.round()).abs();
    if dist == 0.0 {
        mc::count(if many { "many_nonint_candidate_rounds_to_integer" } else { "nonint_candidate_rounds_to_integer" });
        return;
    }
    rows[r][col] = v;
    let res = guarded_fit(be, &rows, given);
    if dist < MARGIN_ZONE {
        // within (1.5x) the library's documented ERROR_MARGIN of an integer: observed, not judged
        match (res, many) {
            (FitOutcome::Ok(_), false) => mc::count("near_integer_within_margin_accepted_by_fit"),
            (_, false) => mc::count("near_integer_within_margin_rejected_by_fit"),
            (FitOutcome::Ok(_), true) => mc::count("many_near_integer_within_margin_accepted_by_fit"),
            (_, true) => mc::count("many_near_integer_within_margin_rejected_by_fit"),
        }
        return;
    }
    let sfx = if many { "-many-categories" } else { "" };
    let head = || format!("{} p={} categorical={:?} x={} (x[{}][{}]={} is not an integer)", be.name(), p, given, fmt_rows(&rows), r, col, v);
    match res {
        FitOutcome::Panic(pi) => {
            mc::violation(format!("onehot.fit:non-integer-value{}:panic", sfx), format!("{}: fit panicked instead of returning an error: {}", head(), pi.brief()));
            mc::outcome(2);
        }
        FitOutcome::Ok(_) => {
            mc::violation(format!("onehot.fit:non-integer-value{}:accepted", sfx), format!("{}: fit returned Ok instead of an error", head()));
            mc::outcome(1);
        }
        FitOutcome::Err(_) => {
            mc::count(if many { "many_nonint_rejected" } else { "nonint_rejected" });
            mc::outcome(0);
        }
    }
    if v < 0.0 {
        mc::count(if many { "many_nonint_negative" } else { "nonint_negative" });
    }
    mc::nontrivial();
    mc::describe(|| json!({"backend": be.name(), "x": rows, "categorical_columns_as_given": given, "non_integer_cell": [r, col], "value": v}));
}

// ------------------------------------------------------------------------------------------------
// many categories per column (extension, round 2): k = 7..=20 (quick) / 7..=40 (thorough)

/// Draws of a many-category case that are common to the layout and the error-clause jobs.
struct ManyCase {
    p: usize,
    cats: Vec<usize>,
    given: Vec<usize>,
    kb: usize,
    cs: usize,
    be: &'static dyn Backend,
}

/// Layout jobs: the second categorical column (if any) has 2 or k categories and the index list is
/// given sorted or reversed; error-clause jobs: k categories in both columns, sorted index list.
fn draw_many(job: &Job, err: bool) -> ManyCase {
    let (k, li, nbe) = (job.u("k"), job.u("layout"), job.u("backends"));
    let (p, cats) = MANY_LAYOUTS[li];
    let two = cats.len() == 2;
    let kb = match (two, err) {
        (false, _) => 0,
        (true, true) => k,
        (true, false) => [2, k][mc::choose(2)],
    };
    let rev = two && !err && mc::choose(2) == 1;
    let cs = mc::choose(N_MANY_CODE_SCHEMES);
    let be = BACKENDS[mc::choose(nbe)];
    let given: Vec<usize> = if rev { cats.iter().rev().copied().collect() } else { cats.to_vec() };
    ManyCase { p, cats: cats.to_vec(), given, kb, cs, be }
}

fn run_many_layout(job: &Job) {
    let (k, seed) = (job.u("k"), job.u("seed") as u64);
    let c = draw_many(job, false);
    let pattern = mc::choose(n_many_row_patterns(k));
    let ids = many_ids(k, pattern);
    let n = ids.len();
    let rows = many_rows(c.p, &c.cats, &ids, k, c.kb, c.cs, seed);
    // non-vacuity: the matrix really has k distinct categories in column A (and kb in column B)
    let fa = first_appearance(&rows, c.cats[0]);
    assert!(fa.len() == k && (c.cats.len() == 1 || first_appearance(&rows, c.cats[1]).len() == c.kb), "many-category generator is broken: k={} pattern={} cs={}", k, pattern, c.cs);
    mc::count("many_layout_cases");
    match n {
        _ if n == k => mc::count("many_every_category_once"),
        _ if n == k + 1 => mc::count("many_one_category_repeated"),
        _ => mc::count("many_every_category_twice"),
    }
    if fa.windows(2).any(|w| w[0] > w[1]) {
        mc::count("many_first_appearance_not_numeric_order");
    }
    if c.cats.len() == 2 {
        mc::count("many_two_categorical_columns");
    }
    if c.p > c.cats.len() {
        mc::count("many_with_pass_through_columns");
    }
    if k >= 16 {
        mc::count("many_k_at_least_16");
    }
    let out = check_fit_transform(c.be, &rows, &c.cats, &c.given);
    mc::nontrivial();
    mc::outcome(out.as_ref().map(digest_rows).unwrap_or(0xdead));
    mc::describe(|| {
        let mut d = describe_case(c.be, &rows, &c.cats, &c.given, &out);
        d["k"] = json!(k);
        d["row_pattern"] = json!(pattern);
        d["code_scheme"] = json!(c.cs);
        d
    });
}

fn run_many_unseen(job: &Job) {
    let (k, seed) = (job.u("k"), job.u("seed") as u64);
    let c = draw_many(job, true);
    let ids = many_ids(k, many_err_pattern(k, mc::choose(MANY_ERR_PATTERNS)));
    let rows = many_rows(c.p, &c.cats, &ids, k, c.kb, c.cs, seed);
    let i = mc::choose(c.cats.len());
    let r = mc::choose(rows.len());
    let which = mc::choose(N_UNSEEN);
    judge_unseen(c.be, &rows, &c.cats, &c.given, i, r, which, true);
}

fn run_many_nonint(job: &Job) {
    let (k, seed) = (job.u("k"), job.u("seed") as u64);
    let c = draw_many(job, true);
    let ids = many_ids(k, many_err_pattern(k, mc::choose(MANY_ERR_PATTERNS)));
    let rows = many_rows(c.p, &c.cats, &ids, k, c.kb, c.cs, seed);
    let i = mc::choose(c.cats.len());
    let r = mc::choose(rows.len());
    let delta = mc::pick(&NONINT_DELTAS);
    judge_nonint(c.be, rows, &c.cats, &c.given, i, r, delta, true);
}

fn run_mapper_many(job: &Job) {
    let ty = Ty::parse(job.s("ty"));
    let k = job.u("k");
    let order = mc::choose(mapper::N_MANY_ORDERS);
    let pattern = mc::choose(n_many_row_patterns(k));
    let letters = mapper::many_stream(k, order, pattern);
    let (viols, digest) = mapper::check_many(ty, k, &letters);
    for v in viols {
        mc::violation(v.site, v.what);
    }
    mc::count("many_mapper_cases");
    if letters.len() > k {
        mc::count("many_mapper_stream_with_repeats");
    }
    if order > 0 {
        mc::count("many_mapper_order_not_identity");
    }
    mc::nontrivial();
    mc::outcome(digest);
    let order_name = ["identity", "reversed", "stride-coprime"][order];
    mc::describe(|| json!({"type": ty.name(), "k": k, "order": order_name, "row_pattern": pattern, "stream_of_letter_indices": letters, "stream": mapper::show_many(ty, &letters)}));
}

// ------------------------------------------------------------------------------------------------
// extreme pass-through values / extreme category codes (extension "pass-through values")

fn run_ptval(job: &Job) {
    let (p, mask, kmax, full, nbe, seed) = (job.u("p"), job.u("mask"), job.u("kmax"), job.u("full"), job.u("backends"), job.u("seed") as u64);
    let cats = bits(mask, p);
    let m = cats.len();
    let ks = draw_ks(m, kmax);
    let ord = order(m, full, mc::choose(n_orders(m, full)));
    let cs = mc::choose(N_CODE_SCHEMES);
    let rs = mc::choose(job.u("row_schemes"));
    let be = BACKENDS[mc::choose(nbe)];
    let mode = mc::choose(job.u("modes"));
    let a = mc::choose(N_PT);
    let f32b = be.is_f32();
    let rows = ptval_rows(f32b, p, &cats, &ks, cs, rs, a, mode, seed);
    let given: Vec<usize> = ord.iter().map(|i| cats[*i]).collect();
    mc::count("ptval_cases");
    let plain_cols: Vec<usize> = (0..p).filter(|c| !cats.contains(c)).collect();
    assert!(!plain_cols.is_empty(), "pass-through jobs are planned only for layouts with a plain column");
    if has_extreme_pass_through(&rows, &cats) {
        mc::count("ptval_class_extreme_pass_through_values");
    }
    let (before, after, between) = match (cats.first(), cats.last()) {
        (Some(&lo), Some(&hi)) => (plain_cols.iter().any(|c| *c < lo), plain_cols.iter().any(|c| *c > hi), plain_cols.iter().any(|c| *c > lo && *c < hi)),
        _ => (false, false, false),
    };
    if before {
        mc::count("ptval_plain_column_before_categoricals");
    }
    if between {
        mc::count("ptval_plain_column_between_categoricals");
    }
    if after {
        mc::count("ptval_plain_column_after_categoricals");
    }
    if before && between && after {
        mc::count("ptval_plain_column_before_between_and_after");
    }
    if given != cats {
        mc::count("ptval_index_list_not_sorted");
    }
    let out = check_fit_transform(be, &rows, &cats, &given);
    // non-vacuity: count the extreme letters that were compared (and found unchanged) bit for bit
    if let Some(o) = &out {
        let exp = reference(&rows, &cats);
        if o.len() == exp.rows.len() && o.iter().zip(exp.rows.iter()).all(|(x, y)| x.len() == y.len()) {
            for (q, (_, cat)) in exp.origin.iter().enumerate() {
                if cat.is_some() {
                    continue;
                }
                for r in 0..o.len() {
                    if o[r][q].to_bits() == exp.rows[r][q].to_bits() {
                        mc::count(match pt_kind(f32b, exp.rows[r][q]) {
                            "negative-zero" => "ptval_negative_zero_unchanged",
                            "positive-zero" => "ptval_positive_zero_unchanged",
                            "subnormal" => "ptval_subnormal_unchanged",
                            "below-epsilon" => "ptval_below_epsilon_unchanged",
                            "huge" => "ptval_huge_unchanged",
                            _ => "ptval_ordinary_unchanged",
                        });
                    }
                }
            }
        }
    }
    mc::nontrivial();
    mc::outcome(out.as_ref().map(digest_rows_bits).unwrap_or(0xdead));
    mc::describe(|| {
        let mut d = describe_case(be, &rows, &cats, &given, &out);
        d["alphabet_rotation"] = json!(a);
        d["fill_mode"] = json!(mode);
        d["bits_of_x"] = json!(rows.iter().map(|r| r.iter().map(|v| format!("{:016x}", v.to_bits())).collect::<Vec<_>>()).collect::<Vec<_>>());
        d
    });
}

/// A column that holds both legal extreme codes 0 and 65535 gets invalid values in every cell; each must
/// be rejected. Row patterns n = k, k+1 (quick) and 2k (thorough only).
fn run_xunseen(job: &Job) {
    let (k, li, nbe, seed) = (job.u("k"), job.u("layout"), job.u("backends"), job.u("seed") as u64);
    let (p, cats) = EXTREME_LAYOUTS[li];
    let m = cats.len();
    let set = extreme_code_set(k, mc::choose(n_extreme_code_sets(k)));
    let pattern = mc::choose(job.u("row_patterns"));
    let rev = m >= 2 && mc::choose(2) == 1;
    let be = BACKENDS[mc::choose(nbe)];
    let rows = extreme_rows(p, cats, &set, pattern, seed);
    let given: Vec<usize> = if rev { cats.iter().rev().copied().collect() } else { cats.to_vec() };
    for c in cats {
        let fa = first_appearance(&rows, *c);
        assert!(fa.len() == k && fa.contains(&0.0) && fa.contains(&65535.0), "extreme-code generator is broken");
    }
    // control: the unchanged matrix (legal extreme codes only) must be encoded correctly
    if mc::choose(2) == 0 {
        mc::count("xunseen_control_cases");
        let before = mc::n_violations();
        let out = check_fit_transform(be, &rows, cats, &given);
        if out.is_some() && mc::n_violations() == before {
            mc::count("xunseen_control_encoded_correctly");
        }
        mc::nontrivial();
        mc::outcome(out.as_ref().map(digest_rows).unwrap_or(0xdead));
        mc::describe(|| describe_case(be, &rows, cats, &given, &out));
        return;
    }
    let i = mc::choose(m);
    let r = mc::choose(rows.len());
    let w = mc::choose(INVALID_VALUES.len());
    let pair = mc::choose(2) == 1;
    let col = cats[i];
    let n = rows.len();
    // one invalid value in cell (r, col); pair: a second, different one in the next row (cyclically)
    let mut edits = vec![(r, INVALID_VALUES[w])];
    if pair {
        assert!(n >= 2);
        edits.push(((r + 1) % n, INVALID_VALUES[(w + 1) % INVALID_VALUES.len()]));
    }
    let class = if pair { "two-invalid-values".to_string() } else { invalid_kind(edits[0].1).to_string() };
    let seen = first_appearance(&rows, col);
    let enc = match guarded_fit(be, &rows, &given) {
        FitOutcome::Ok(e) => e,
        _ => {
            // reported by the control execution of the same matrix
            mc::count("xunseen_fit_failed");
            return;
        }
    };
    let mut x2 = rows.clone();
    for (rr, v) in &edits {
        assert!(quant(be, *v) == *v && !seen.contains(v));
        x2[*rr][col] = *v;
    }
    let head = || format!("{} p={} categorical={:?} fitted on x={} (codes of column {}: {:?}); transform of x with {}", be.name(), p, given, fmt_rows(&rows), col, seen, edits.iter().map(|(rr, v)| format!("x[{}][{}]={}", rr, col, v)).collect::<Vec<_>>().join(", "));
    match mc::guard(|| be.transform(&enc, &x2)) {
        Err(pi) => {
            mc::violation(format!("onehot.transform:invalid-value-in-column-holding-codes-0-and-65535:{}:panic", class), format!("{}: panicked instead of returning an error: {}", head(), pi.brief()));
            mc::outcome(2);
        }
        Ok(Ok(o)) => {
            mc::violation(
                format!("onehot.transform:invalid-value-in-column-holding-codes-0-and-65535:{}:accepted", class),
                format!("{}: returned Ok (row {} encoded as {:?}) instead of an error", head(), edits[0].0, o.get(edits[0].0)),
            );
            mc::outcome(1);
        }
        Ok(Err(_)) => {
            mc::count("xunseen_rejected");
            mc::outcome(0);
        }
    }
    mc::count("xunseen_cases");
    if pair {
        mc::count("xunseen_two_invalid_values");
    } else {
        mc::count(match invalid_kind(edits[0].1) {
            "negative-integer" => "xunseen_negative_integer",
            "negative-fraction" => "xunseen_negative_fraction",
            "integer-above-65535" => "xunseen_integer_above_65535",
            "fraction-above-65535" => "xunseen_fraction_above_65535",
            _ => "xunseen_fraction_in_range",
        });
    }
    mc::nontrivial();
    mc::describe(|| json!({"backend": be.name(), "fitted_on": rows, "categorical_columns_as_given": given, "transformed": x2, "column": col, "fitted_codes_of_that_column": seen, "invalid_values": edits, "class": class}));
}

fn run_mapper_replay(job: &Job) {
    let ty = Ty::parse(job.s("ty"));
    let letters = job.u("letters");
    let stream: Vec<u8> = job.params["stream"].as_array().map(|a| a.iter().map(|x| x.as_u64().unwrap_or(0) as u8).collect()).unwrap_or_default();
    for v in mapper::check_letters(ty, letters, &stream, true) {
        mc::violation(v.site, v.what);
    }
    mc::nontrivial();
    mc::outcome(mc::hash::h_bytes(&stream));
    mc::describe(|| json!({"type": ty.name(), "letters": letters, "stream_of_letter_indices": stream}));
}

fn masks_simplest_first(p: usize) -> Vec<usize> {
    let mut v: Vec<usize> = (0..1usize << p).collect();
    v.sort_by_key(|m| (m.count_ones(), *m));
    v
}

impl Harness for C18 {
    fn id(&self) -> &'static str {
        "C18"
    }

    fn plan(&self, tier: Tier, seed: u64) -> Plan {
        let t = tier.is_thorough();
        let mut jobs = Vec::new();
        let nbe = BACKENDS.len();
        // ---- layout: every subset of categorical columns
        let (p_all, kmax, full) = if t { (8, 3, 4) } else { (6, 3, 3) };
        for p in 1..=p_all {
            for mask in masks_simplest_first(p) {
                jobs.push(Job::new(format!("layout-p{}-m{:0w$b}", p, mask, w = p), json!({"kind": "layout", "p": p, "mask": mask, "kmax": kmax, "full": full, "backends": nbe, "row_schemes": N_ROW_SCHEMES, "seed": seed})));
            }
        }
        // ---- first-appearance patterns
        let rgs_n = |m: usize| -> usize {
            match (t, m) {
                (false, 1) => 6,
                (false, 2) => 4,
                (false, _) => 3,
                (true, 1) => 9,
                (true, 2) => 6,
                (true, _) => 4,
            }
        };
        for p in 1..=3usize {
            for mask in masks_simplest_first(p) {
                let m = mask.count_ones() as usize;
                if m == 0 {
                    continue;
                }
                for n in 1..=rgs_n(m) {
                    jobs.push(Job::new(format!("rgs-p{}-m{:0w$b}-n{}", p, mask, n, w = p), json!({"kind": "rgs", "p": p, "mask": mask, "n": n, "backends": nbe, "seed": seed})));
                }
            }
        }
        // ---- error clauses
        let p_err = if t { 6 } else { 4 };
        for p in 1..=p_err {
            for mask in masks_simplest_first(p) {
                if mask == 0 {
                    continue;
                }
                // quick: 1..3 categories per column up to p = 3, 1..2 at p = 4; thorough: 1..3 throughout
                let kmax_err = if t || p <= 3 { 3 } else { 2 };
                jobs.push(Job::new(format!("unseen-p{}-m{:0w$b}", p, mask, w = p), json!({"kind": "unseen", "p": p, "mask": mask, "kmax": kmax_err, "backends": nbe, "seed": seed})));
                jobs.push(Job::new(format!("nonint-p{}-m{:0w$b}", p, mask, w = p), json!({"kind": "nonint", "p": p, "mask": mask, "kmax": kmax_err, "backends": nbe, "seed": seed})));
            }
        }
        if t {
            // up to 6 categories per column (the quantifier's upper end), two DenseMatrix backends
            for p in 1..=6usize {
                for mask in masks_simplest_first(p) {
                    if mask == 0 {
                        continue;
                    }
                    jobs.push(Job::new(format!("layout6-p{}-m{:0w$b}", p, mask, w = p), json!({"kind": "layout", "p": p, "mask": mask, "kmax": 6, "full": 3, "backends": 2, "row_schemes": 2, "seed": seed})));
                }
            }
            // wide matrices: every subset for p = 9, 10
            for p in 9..=10usize {
                for mask in masks_simplest_first(p) {
                    jobs.push(Job::new(format!("layout-p{}-m{:0w$b}", p, mask, w = p), json!({"kind": "layout", "p": p, "mask": mask, "kmax": 3, "full": 3, "backends": 2, "row_schemes": 1, "seed": seed})));
                }
            }
        }
        // ---- many categories per column (round 2): every k in 7..=20 (quick) / 7..=40 (thorough)
        let k_many = if t { 40 } else { 20 };
        assert!(many_tables_ok(128) && mapper::many_letters_ok(k_many + 2), "many-category code tables are not pairwise distinct");
        for k in MANY_K..=k_many {
            for li in 0..MANY_LAYOUTS.len() {
                jobs.push(Job::new(format!("many-layout-k{}-l{}", k, li), json!({"kind": "many-layout", "k": k, "layout": li, "backends": nbe, "seed": seed})));
            }
            for ty in [Ty::U16, Ty::Str] {
                jobs.push(Job::new(format!("many-mapper-{}-k{}", ty.name(), k), json!({"kind": "many-mapper", "ty": ty.name(), "k": k})));
            }
        }
        for k in MANY_K..=k_many {
            for li in MANY_ERR_LAYOUTS {
                jobs.push(Job::new(format!("many-unseen-k{}-l{}", k, li), json!({"kind": "many-unseen", "k": k, "layout": li, "backends": nbe, "seed": seed})));
                jobs.push(Job::new(format!("many-nonint-k{}-l{}", k, li), json!({"kind": "many-nonint", "k": k, "layout": li, "backends": nbe, "seed": seed})));
            }
        }
        // ---- extreme pass-through values: the layout space for p <= 4 (thorough 5), every subset that
        // leaves at least one plain column, plus framed layouts with a plain column before, between and
        // after the categorical columns
        assert!(pt_alphabet_ok(), "pass-through alphabet is not what its table says");
        let (p_pt, pt_modes, pt_row_schemes) = if t { (5, 2, N_ROW_SCHEMES) } else { (4, 1, 2) };
        let mut pt_layouts: Vec<(usize, usize)> = Vec::new();
        for p in 1..=p_pt {
            for mask in masks_simplest_first(p) {
                if mask + 1 < 1usize << p {
                    pt_layouts.push((p, mask));
                }
            }
        }
        // [P,C,P,C,P], [P,C,C,P,C,P], [P,C,P,C,P,C,P] (thorough also [P,C,P,C,P,C,P,C,P])
        let mut framed: Vec<(usize, usize)> = vec![(5, 0b01010), (6, 0b010110), (7, 0b0101010)];
        if t {
            framed.push((9, 0b010101010));
        }
        for f in framed {
            if !pt_layouts.contains(&f) {
                pt_layouts.push(f);
            }
        }
        for (p, mask) in pt_layouts {
            jobs.push(Job::new(format!("ptval-p{}-m{:0w$b}", p, mask, w = p), json!({"kind": "ptval", "p": p, "mask": mask, "kmax": 3, "full": 3, "backends": nbe, "row_schemes": pt_row_schemes, "modes": pt_modes, "seed": seed})));
        }
        // ---- invalid values in a column that holds both legal extreme codes 0 and 65535
        let (k_x, x_patterns) = if t { (5, 3) } else { (4, 2) };
        for k in 2..=k_x {
            for li in 0..EXTREME_LAYOUTS.len() {
                jobs.push(Job::new(format!("xunseen-k{}-l{}", k, li), json!({"kind": "xunseen", "k": k, "layout": li, "backends": nbe, "row_patterns": x_patterns, "seed": seed})));
            }
        }
        Plan {
            jobs,
            budget_s: if t { 2400 } else { 40 },
            case_deadline_ms: 20_000,
            floors: vec![
                ("layout_cases", 50_000),
                ("plain_column_after_two_categoricals", 5_000),
                ("adjacent_categoricals", 5_000),
                ("all_columns_categorical", 500),
                ("no_categorical_column", 100),
                ("single_category_column", 5_000),
                ("first_appearance_not_numeric_order", 5_000),
                ("index_list_not_sorted", 5_000),
                ("class_column_follows_non_first_categorical", 5_000),
                ("class_several_categoricals_other", 5_000),
                ("rgs_cases", 1_000),
                ("rgs_four_or_more_categories", 100),
                ("rgs_category_revisited", 100),
                ("unseen_rejected", 5_000),
                ("unseen_integer_cases", 5_000),
                ("unseen_invalid_cases", 1_000),
                ("unseen_collapsing_cases", 1_000),
                ("nonint_rejected", 5_000),
                ("nonint_negative", 10),
                ("mapper_states", 2_000),
                ("mapper_stream_with_repeats", 1_000),
                ("mapper_first_appearance_not_sorted", 1_000),
                ("mapper_unseen_letter_exists", 100),
                ("mapper_extension_by_seen_category", 500),
                // many categories per column (round 2); quick-tier counts are 1.02x .. 4x these
                ("many_layout_cases", 200_000),
                ("many_every_category_once", 2_000),
                ("many_one_category_repeated", 200_000),
                ("many_every_category_twice", 6_000),
                ("many_first_appearance_not_numeric_order", 150_000),
                ("many_two_categorical_columns", 150_000),
                ("many_with_pass_through_columns", 200_000),
                ("many_k_at_least_16", 100_000),
                ("many_unseen_rejected", 100_000),
                ("many_unseen_integer_cases", 100_000),
                ("many_unseen_invalid_cases", 70_000),
                ("many_unseen_collapsing_cases", 100_000),
                ("many_nonint_rejected", 100_000),
                ("many_nonint_negative", 1_000),
                ("many_mapper_cases", 9_000),
                ("many_mapper_stream_with_repeats", 9_000),
                ("many_mapper_order_not_identity", 6_000),
                // extreme pass-through values / extreme codes
                // (quick-tier counts are 1.05x .. 1.25x these; independent of VERIF_SEED)
                ("ptval_cases", 500_000),
                ("ptval_class_extreme_pass_through_values", 500_000),
                ("ptval_negative_zero_unchanged", 200_000),
                ("ptval_positive_zero_unchanged", 200_000),
                ("ptval_subnormal_unchanged", 600_000),
                ("ptval_below_epsilon_unchanged", 800_000),
                ("ptval_huge_unchanged", 500_000),
                ("ptval_plain_column_before_categoricals", 250_000),
                ("ptval_plain_column_between_categoricals", 300_000),
                ("ptval_plain_column_after_categoricals", 250_000),
                ("ptval_plain_column_before_between_and_after", 150_000),
                ("ptval_index_list_not_sorted", 400_000),
                ("xunseen_cases", 350_000),
                ("xunseen_rejected", 350_000),
                ("xunseen_control_encoded_correctly", 2_500),
                ("xunseen_fraction_in_range", 35_000),
                ("xunseen_negative_integer", 35_000),
                ("xunseen_negative_fraction", 17_000),
                ("xunseen_integer_above_65535", 70_000),
                ("xunseen_fraction_above_65535", 17_000),
                ("xunseen_two_invalid_values", 180_000),
            ],
            bounds: json!({
                "layout": format!("every p<={}, every subset of categorical columns, every category-count vector in {{1..{}}}^|S|, index list in every order for |S|<={} (else sorted, reversed, rotated, evens-then-odds, first-two-swapped), 3 code schemes x 3 row schemes (n = kk+1, kk, 2kk rows where kk = largest category count), {} backends", p_all, kmax, full, nbe),
                "layout_extensions_thorough": if t { "p<=6 with 1..6 categories per column (row schemes 0,1); p=9,10 every subset with 1..3 categories (row scheme 0); both on DenseMatrix f64/f32, orderings: all for |S|<=3 else the 5 structured ones" } else { "-" },
                "first_appearance": format!("p<=3, every non-empty subset, every restricted growth string per categorical column: n<={} (1 col), n<={} (2 cols), n<={} (3 cols)", rgs_n(1), rgs_n(2), rgs_n(3)),
                "unseen": format!("p<={} (quick: k<=2 at p=4): every non-empty subset x k in {{1,2,3}}^|S| x every cell of every categorical column x 12 replacement values (unseen integer codes, codes of the neighbouring column, non-integers, negatives, >65535)", p_err),
                "non_integer_fit": format!("p<={}: every non-empty subset x k x every cell of every categorical column x 8 fractional offsets", p_err),
                "mapper_e2": format!("CategoryMapper over every stream of length <={} on {} letters (u16 and String categories), from_category_map for every bijection", if t { 7 } else { 6 }, if t { 4 } else { 3 }),
                "many_categories_onehot": format!("every k in 7..={}: layouts [C], [C,P,P], [P,C,P], [P,P,C], [C,P,C], [P,C,P,C,P] (C categorical with k categories; in the two-categorical layouts the second one has 2 or k categories in a reversed sweep and the index list is given sorted or reversed) x row patterns: n=k every category once, n=k+1 one extra copy of category c at row q for EVERY (c,q) with c<q<=k, n=2k pairs / sweep+reversed sweep / sweep+stride-coprime sweep x 4 code schemes (identity 0..k-1, numerically descending, contiguous codes in stride-coprime order, scrambled codes over the whole u16 range incl. 0 and 65535) x {} backends; judged by the same reference encoder (shape, first-appearance order, exactly one 1 per row, pass-through columns bit for bit, index-order independence)", k_many, nbe),
                "many_categories_error_clauses": format!("every k in 7..={}: layouts [P,C,P] and [C,P,C] (k categories each) x row patterns n=k, n=k+1 (category 0 repeated in the last row), n=2k pairs x 4 code schemes x {} backends x every cell of every categorical column x (12 replacement values -> transform must return Err | 8 fractional offsets -> fit must return Err)", k_many, nbe),
                "many_categories_mapper": format!("CategoryMapper, u16 and String categories, every k in 7..={}: streams whose first-appearance order is the identity / reversed / stride-coprime order of the k letters x the same row patterns (all distinct; one extra copy of category c at position q for every c<q<=k; every category twice in 3 arrangements); fit_to_iter, from_positional_category_vec and from_category_map (bijections identity, reversed, stride-coprime, rotated by one) all checked for get_num/get_cat/get_one_hot/invert_one_hot/get_ordinal mutually inverse, indices = first appearance / given positions, two never-seen letters -> None", k_many),
                "pass_through_values": format!("every p<={}, every subset of categorical columns that leaves a plain column, plus the framed layouts [P,C,P,C,P], [P,C,C,P,C,P], [P,C,P,C,P,C,P]{} (a plain column before, between and after the categorical ones) x every category-count vector in {{1..3}}^|S| x index list in every order (|S|<=3) x 3 code schemes x {} row schemes (n = kk+1, kk{}) x {} backends x {} fill mode(s) x EVERY rotation a of the {}-letter pass-through alphabet of the element type (f64: +0.0, -0.0, 7.3e-17, -2.2e-16, 5e-324, 1e-300, 6e-8, 1e-40, 1e300, 3e38, 0.1+0.2, -5e-324, -1e300, 2.5; f32: +0.0, -0.0, 7.3e-17, -2.2e-16, 1.4e-45, 1e-40, 6e-8, -1e-40, 3e38, -3e38, 0.1f32+0.2f32, -1.4e-45, f32::MIN_POSITIVE, 2.5): cell (r, j-th plain column) holds letter (a + s1 r + s2 j) mod {} (mode 1: whole column one letter), so every plain cell holds every letter; output compared with the reference encoder, pass-through cells bit for bit (sign of zero included)", p_pt, if t { ", [P,C,P,C,P,C,P,C,P]" } else { "" }, pt_row_schemes, if t { ", 2kk" } else { "" }, nbe, pt_modes, N_PT, N_PT),
                "invalid_values_with_extreme_codes": format!("every k in 2..={}: layouts [C], [P,C,P], [C,P,C], [P,C,P,C,P] whose categorical columns ALL hold both legal extreme codes 0 and 65535: every first-appearance arrangement of {{0,65535}}, {{0,65535,1}}, {{0,65535,65534}}, {{0,65535,1,65534}}{} x row patterns n=k, k+1{} x index list sorted/reversed x {} backends x (control: the unchanged matrix must be encoded exactly as the reference encoder says | every categorical column x every cell x 10 invalid values [12.5, -4, 65536, 1e9, -0.5, 65535.5, 2^32, -65535, 131071, 0.5] x (alone | together with the next invalid value in the next row) -> transform must return Err, never Ok)", k_x, if t { ", {0,65535,1,65534,300}" } else { "" }, if t { ", 2k" } else { "" }, nbe),
                "seed": format!("VERIF_SEED={} selects the code offset / table rotation / plain-value shift of the alphabets and the strides of the pass-through letter assignment", seed),
            }),
        }
    }

    fn run(&self, job: &Job) {
        match job.kind() {
            "layout" => run_layout(job),
            "rgs" => run_rgs(job),
            "unseen" => run_unseen(job),
            "nonint" => run_nonint(job),
            "mapper" => run_mapper_replay(job),
            "many-layout" => run_many_layout(job),
            "many-unseen" => run_many_unseen(job),
            "many-nonint" => run_many_nonint(job),
            "many-mapper" => run_mapper_many(job),
            "ptval" => run_ptval(job),
            "xunseen" => run_xunseen(job),
            other => panic!("unknown job kind {}", other),
        }
    }

    fn extra(&self, tier: Tier, _seed: u64) -> Vec<ExtraResult> {
        let (letters, max_len) = if tier.is_thorough() { (4, 7) } else { (3, 6) };
        let mut out = Vec::new();
        for ty in [Ty::U16, Ty::Str] {
            let model = MapperModel { ty, letters, max_len };
            let name = format!("category-mapper-{}", ty.name());
            let a = mc::bfs::search(&name, &model, max_len, 5_000_000);
            let b = mc::bfs::search(&name, &model, max_len, 5_000_000);
            assert!(a.states == b.states && a.transitions == b.transitions, "E2 search {} is not deterministic: {} vs {} states", name, a.states, b.states);
            out.push(a);
        }
        out
    }

    fn rule(&self) -> String {
        "one E1 execution = one (matrix, categorical index list, backend) run through the real fit (+ transform); non-trivial = at least one categorical column (layout / first-appearance cases) or an error clause exercised; distinct = distinct digest of the returned matrix / error verdict. E2 states = category streams, each judged on the real CategoryMapper built three ways; the many-category mapper jobs are E1 executions (one stream each) judged by the same clauses".into()
    }

    fn assumptions(&self) -> Vec<String> {
        vec![
            "category codes are integers in 0..=65535 (the encoder's category type is u16); larger codes are outside the explored domain".into(),
            "values within 0.0015 of an integer (the neighbourhood of the library's documented 0.001 tolerance) are neither required to be accepted nor to be rejected".into(),
            "the statement's Ok clause is only checked for transforming the very matrix the encoder was fitted on".into(),
            "no RNG on the explored paths; HashMap is used by the library for look-ups only (from_category_map sorts by index)".into(),
        ]
    }

    fn engine(&self) -> &'static str {
        "E1 stateless choice-tree exploration of the real OneHotEncoder + E2 explicit-state BFS over category streams on the real CategoryMapper"
    }
}

fn main() {
    if let Err(e) = mc_sc::check_rng_sites() {
        eprintln!("MACHINERY-ERROR: {}", e);
        std::process::exit(2);
    }
    mc::main(C18)
}
