//! The oracle clauses of C14, applied to one (data matrix, estimator/mode, k).

use crate::refs::{self, EPS};
use mc_core::oracle::{self as orc, Mat};
use mc_core::{self as mc, json};
use mc_sc::dm;
use smartcore::decomposition::pca::{PCAParameters, PCA};
use smartcore::decomposition::svd::{SVDParameters, SVD};
use smartcore::error::Failed;
use smartcore::linalg::naive::dense_matrix::DenseMatrix;
use smartcore::linalg::BaseMatrix;

// ------------------------------------------------------------------------------------------------
// tolerances (DESIGN §4 C14): orthonormality 64·p·eps; statistics 1e-9·trace plus the rounding
// floor that evaluating the affine map x·P − μ·P has by itself (terms of size (|x|+|μ|)·|P| cancel)

pub const ORTH_C: f64 = 64.0;
pub const AFFINE_C: f64 = 64.0;
pub const REL: f64 = 1e-9;

const CL_ORTH_COV: usize = 0;
const CL_ORTH_CORR: usize = 1;
const CL_AFFINE: usize = 2;
const CL_MEAN: usize = 3;
const CL_UNCORR: usize = 4;
const CL_ORDER: usize = 5;
const CL_VARSUM: usize = 6;
const CL_T_ORTH: usize = 7;
const CL_T_PROD: usize = 8;
const CL_T_ENERGY: usize = 9;

/// calibration buckets: how close to its tolerance a clause came (ratio = observed / tolerance)
fn calib(clause: usize, ratio: f64) {
    const HI: [&str; 10] = [
        "calib_orth_cov_above_0.1",
        "calib_orth_corr_above_0.1",
        "calib_affine_above_0.1",
        "calib_mean_above_0.1",
        "calib_uncorrelated_above_0.1",
        "calib_order_above_0.1",
        "calib_varsum_above_0.1",
        "calib_tsvd_orth_above_0.1",
        "calib_tsvd_product_above_0.1",
        "calib_tsvd_energy_above_0.1",
    ];
    const MID: [&str; 10] = [
        "calib_orth_cov_above_0.01",
        "calib_orth_corr_above_0.01",
        "calib_affine_above_0.01",
        "calib_mean_above_0.01",
        "calib_uncorrelated_above_0.01",
        "calib_order_above_0.01",
        "calib_varsum_above_0.01",
        "calib_tsvd_orth_above_0.01",
        "calib_tsvd_product_above_0.01",
        "calib_tsvd_energy_above_0.01",
    ];
    if ratio > 0.01 {
        mc::count(MID[clause]);
        if ratio > 0.1 {
            mc::count(HI[clause]);
        }
    }
}

fn ratio(obs: f64, tol: f64) -> f64 {
    if obs == 0.0 {
        0.0
    } else if tol > 0.0 {
        obs / tol
    } else {
        f64::INFINITY
    }
}

/// Flat row-major copy of a library matrix (read through the public `get`).
pub struct FM {
    pub r: usize,
    pub c: usize,
    pub v: Vec<f64>,
}

impl FM {
    pub fn of(m: &DenseMatrix<f64>) -> FM {
        let (r, c) = m.shape();
        let mut v = Vec::with_capacity(r * c);
        for i in 0..r {
            for j in 0..c {
                v.push(m.get(i, j));
            }
        }
        FM { r, c, v }
    }
    #[inline]
    pub fn at(&self, i: usize, j: usize) -> f64 {
        self.v[i * self.c + j]
    }
    pub fn row(&self, i: usize) -> &[f64] {
        &self.v[i * self.c..(i + 1) * self.c]
    }
    pub fn finite(&self) -> bool {
        self.v.iter().all(|x| x.is_finite())
    }
    pub fn to_mat(&self) -> Mat {
        (0..self.r).map(|i| self.row(i).to_vec()).collect()
    }
    pub fn fmt(&self) -> String {
        fmt_mat(&self.to_mat())
    }
}

pub fn fmt_mat(m: &Mat) -> String {
    let rows: Vec<String> = m.iter().map(|r| format!("[{}]", r.iter().map(|v| format!("{}", v)).collect::<Vec<_>>().join(","))).collect();
    format!("[{}]", rows.join(","))
}

/// Short rendering of the input for the one-line `what` (full matrix when small).
fn fmt_input(x: &Mat) -> String {
    let (n, p) = orc::shape(x);
    if n * p <= 24 {
        format!("X={}", fmt_mat(x))
    } else {
        format!("X={}x{} (first rows {}; full matrix in the replay file)", n, p, fmt_mat(&x[..2].to_vec()))
    }
}

/// max |(AᵀA − I)_{ab}| where column c of A is column c of `pm` with row i scaled by w[i]
fn orth_defect_scaled(pm: &FM, w: Option<&[f64]>) -> f64 {
    let mut worst = 0.0f64;
    for a in 0..pm.c {
        for b in 0..=a {
            let mut s = 0.0;
            for i in 0..pm.r {
                let wi = w.map(|w| w[i]).unwrap_or(1.0);
                s += (pm.at(i, a) * wi) * (pm.at(i, b) * wi);
            }
            let d = (s - if a == b { 1.0 } else { 0.0 }).abs();
            if d.is_nan() {
                return f64::INFINITY;
            }
            worst = worst.max(d);
        }
    }
    worst
}

/// Σ_c (|s_c| + |μ_c|)·|P_cj|: the magnitude whose rounding limits how exactly any implementation
/// of x -> (x − μ)·P can evaluate the map.
fn mag_row(s: &[f64], mu: &[f64], pm: &FM, j: usize) -> f64 {
    let mut m = 0.0;
    for c in 0..s.len() {
        m += (s[c].abs() + mu[c].abs()) * pm.at(c, j).abs();
    }
    m
}

fn affine_row(s: &[f64], mu: &[f64], pm: &FM, j: usize) -> f64 {
    let mut m = 0.0;
    for c in 0..s.len() {
        m += (s[c] - mu[c]) * pm.at(c, j);
    }
    m
}

fn rank_class(vals: &[f64], full: usize) -> &'static str {
    let r = refs::num_rank(vals);
    if r == 0 {
        "zero-variance"
    } else if r < full {
        "rank-deficient"
    } else {
        "full-rank"
    }
}

/// Magnitude class of the input for site keys: empty for ordinary data (every member of the plain
/// lattices and of the structured family has 2^-20 <= max|x| <= 2^20 or is the zero matrix), otherwise
/// a suffix, so that a failure that needs tiny / huge data gets its own key.
fn mag_class(x: &Mat) -> &'static str {
    let top = x.iter().flat_map(|r| r.iter()).fold(0.0f64, |m, v| m.max(v.abs()));
    if top > 0.0 && top < TINY_BELOW {
        ":tiny-magnitude"
    } else if top > HUGE_ABOVE {
        ":huge-magnitude"
    } else {
        ""
    }
}

pub const TINY_BELOW: f64 = 9.5367431640625e-7; // 2^-20
pub const HUGE_ABOVE: f64 = 1048576.0; // 2^20

/// Input-independent name of a panic for site keys (no line numbers, no values).
fn panic_kind(pi: &mc::PanicInfo) -> &'static str {
    if pi.is_overflow_check() {
        "panic-overflow-check"
    } else if pi.msg.contains("no convergence") {
        "panic-svd-no-convergence"
    } else if pi.msg.contains("Too many iterations") {
        "panic-evd-too-many-iterations"
    } else if pi.msg.contains("index") || pi.msg.contains("Index") {
        "panic-index"
    } else {
        "panic"
    }
}

type Transform<'a> = &'a dyn Fn(&DenseMatrix<f64>) -> Result<DenseMatrix<f64>, Failed>;

/// The clauses about the transform as a row-wise map x -> (x − μ)·P (μ = 0 for truncated SVD):
/// transform(X) has shape (n,k), is finite, equals the formula row by row; transforming a stack of
/// rows (the training rows in reverse order plus one new row) equals stacking the transforms of the
/// single rows. Returns the transformed training data and the entry-wise rounding floor.
#[allow(clippy::too_many_arguments)]
fn check_map(site: &dyn Fn(&str, &str) -> String, head: &dyn Fn() -> String, x: &Mat, xm: &DenseMatrix<f64>, mu: &[f64], pm: &FM, transform: Transform, map_clause: &str, formula: &str, cl: usize) -> Option<(FM, f64)> {
    let (n, p) = orc::shape(x);
    let k = pm.c;
    let t = match mc::guard(|| transform(xm)) {
        Err(pi) => {
            mc::violation(site("transform", "panic"), format!("{}: transform(training data) {}", head(), pi.brief()));
            return None;
        }
        Ok(Err(e)) => {
            mc::violation(site("transform", "error"), format!("{}: transform(training data) returned Err({})", head(), e));
            return None;
        }
        Ok(Ok(m)) => FM::of(&m),
    };
    if (t.r, t.c) != (n, k) {
        mc::violation(site("transform", "shape"), format!("{}: transform gives {:?}, expected (n,k)=({},{})", head(), (t.r, t.c), n, k));
        return None;
    }
    if !t.finite() {
        mc::violation(site("transform", "non-finite"), format!("{}: transform(training data) = {}", head(), t.fmt()));
        return None;
    }
    mc::describe(|| json!({"components": pm.to_mat(), "transformed": t.to_mat()}));
    let mut err_t = 0.0f64;
    let mut worst = (0.0f64, 0usize, 0usize, 0.0f64, 0.0f64);
    for i in 0..n {
        for j in 0..k {
            let tol = AFFINE_C * EPS * mag_row(&x[i], mu, pm, j);
            err_t = err_t.max(tol);
            let want = affine_row(&x[i], mu, pm, j);
            let r = ratio((t.at(i, j) - want).abs(), tol);
            if r > worst.0 {
                worst = (r, i, j, want, tol);
            }
        }
    }
    calib(cl, worst.0);
    if worst.0 > 1.0 {
        mc::violation(
            site("transform", map_clause),
            format!("{}: transform(X)[{}][{}] = {} but {} = {} (tolerance {:.3e}); components={}", head(), worst.1, worst.2, t.at(worst.1, worst.2), formula, worst.3, worst.4, pm.fmt()),
        );
    }

    // ---- stack clause
    let mut stack: Mat = Vec::with_capacity(n + 1);
    for i in (0..n).rev() {
        stack.push(x[i].clone());
    }
    stack.push(x[0].iter().zip(&x[n - 1]).map(|(a, b)| a + b).collect());
    let sm: DenseMatrix<f64> = dm(&stack);
    let ts = match mc::guard(|| transform(&sm)) {
        Err(pi) => {
            mc::violation(site("transform", "panic"), format!("{}: transform(stack of {} rows) {}", head(), n + 1, pi.brief()));
            return Some((t, err_t));
        }
        Ok(Err(e)) => {
            mc::violation(site("transform", "error"), format!("{}: transform(stack) returned Err({})", head(), e));
            return Some((t, err_t));
        }
        Ok(Ok(m)) => FM::of(&m),
    };
    if (ts.r, ts.c) != (n + 1, k) {
        mc::violation(site("transform", "shape"), format!("{}: transform(stack of {} rows) gives {:?}", head(), n + 1, (ts.r, ts.c)));
        return Some((t, err_t));
    }
    let mut one = DenseMatrix::<f64>::zeros(1, p);
    'rows: for (i, s) in stack.iter().enumerate() {
        for (c, v) in s.iter().enumerate() {
            one.set(0, c, *v);
        }
        let single = match mc::guard(|| transform(&one)) {
            Ok(Ok(m)) => m,
            Ok(Err(e)) => {
                mc::violation(site("transform", "error"), format!("{}: transform(single row {:?}) returned Err({})", head(), s, e));
                break 'rows;
            }
            Err(pi) => {
                mc::violation(site("transform", "panic"), format!("{}: transform(single row {:?}) {}", head(), s, pi.brief()));
                break 'rows;
            }
        };
        if single.shape() != (1, k) {
            mc::violation(site("transform", "shape"), format!("{}: transform(single row) gives {:?}", head(), single.shape()));
            break 'rows;
        }
        for j in 0..k {
            let tol = AFFINE_C * EPS * mag_row(s, mu, pm, j);
            let mut bad = !((ts.at(i, j) - single.get(0, j)).abs() <= tol);
            if i < n {
                bad |= !((ts.at(i, j) - t.at(n - 1 - i, j)).abs() <= tol);
            }
            if bad {
                mc::violation(
                    site("transform", "stack-vs-rows"),
                    format!("{}: row {} of transform(stack) = {:?}, the same row transformed alone = {:?}{} (tolerance {:.3e})", head(), i, ts.row(i), FM::of(&single).v, if i < n { format!(", as training row = {:?}", t.row(n - 1 - i)) } else { String::new() }, tol),
                );
                break 'rows;
            }
            let want = affine_row(s, mu, pm, j);
            if !((ts.at(i, j) - want).abs() <= tol) {
                mc::violation(site("transform", map_clause), format!("{}: transform of row {:?} component {} = {} but {} = {} (tolerance {:.3e})", head(), s, j, ts.at(i, j), formula, want, tol));
                break 'rows;
            }
        }
    }
    Some((t, err_t))
}

fn digest(pm: &FM, t: &FM) -> u64 {
    mc::hash::mix(mc::hash::h_f64s(&pm.v), mc::hash::h_f64s(&t.v))
}

// ------------------------------------------------------------------------------------------------
// PCA

/// Returns true when `fit` returned a model, every clause was evaluated and the case is non-trivial
/// (used by the caller for the non-vacuity counters of the rescaled families).
pub fn check_pca(x: &Mat, corr: bool, k: usize, family: &str) -> bool {
    let (n, p) = orc::shape(x);
    let rf = refs::pca_ref_cached(x);
    let comp = if corr { "pca-corr" } else { "pca-cov" };
    if corr && rf.constant_col.iter().any(|c| *c) {
        // the standardised data do not exist: outside the statement
        mc::count("corr_constant_column_outside_statement");
        return false;
    }
    let svd_path = n > p && !corr;
    let path = if svd_path { "svd-path" } else { "evd-path" };
    let lam_base: &Vec<f64> = if corr { &rf.lam_cor } else { &rf.lam_cov };
    let rank = rank_class(lam_base, p);
    let mag = mag_class(x);
    let site = |op: &str, clause: &str| format!("{}.{}:{}:{}:{}{}", comp, op, clause, path, rank, mag);
    let head = || format!("{} n={} p={} k={} {} [{}]", comp, n, p, k, fmt_input(x), family);

    let xm: DenseMatrix<f64> = dm(x);
    let params = PCAParameters::default().with_n_components(k).with_use_correlation_matrix(corr);
    let fit = mc::guard(|| PCA::fit(&xm, params));
    mc::describe(|| {
        json!({"estimator": comp, "family": family, "n": n, "p": p, "k": k, "x": x, "oracle_column_means": rf.mu,
        "oracle_eigenvalues_of_sample_covariance_or_correlation": lam_base, "path": path, "rank_class": rank})
    });
    let pca = match fit {
        Err(pi) => {
            mc::violation(site("fit", panic_kind(&pi)), format!("{}: fit must succeed but {}", head(), pi.brief()));
            return false;
        }
        Ok(Err(e)) => {
            mc::violation(site("fit", "error"), format!("{}: fit must succeed but returned Err({})", head(), e));
            return false;
        }
        Ok(Ok(m)) => m,
    };
    let pm = FM::of(pca.components());
    if (pm.r, pm.c) != (p, k) {
        mc::violation(site("components", "shape"), format!("{}: components() is {:?}, expected (p,k)=({},{})", head(), (pm.r, pm.c), p, k));
        return false;
    }
    if !pm.finite() {
        mc::violation(site("components", "non-finite"), format!("{}: components() = {}", head(), pm.fmt()));
        return false;
    }

    // ---- orthonormal columns (of the projection acting on the standardised data in correlation mode)
    let d_eff = n as f64 - 1.0;
    let mut pop_convention = true;
    if !corr {
        let defect = orth_defect_scaled(&pm, None);
        let tol = ORTH_C * p as f64 * EPS;
        calib(CL_ORTH_COV, ratio(defect, tol));
        if !(defect <= tol) {
            mc::violation(site("components", "not-orthonormal"), format!("{}: max|PᵀP−I| = {:.3e} > {:.3e}; P={}", head(), defect, tol, pm.fmt()));
        }
    } else {
        // P = D⁻¹·V with V orthonormal, D = diag(sd). The statement does not say whether the data
        // are standardised with the population (÷n) or the sample (÷(n−1)) standard deviation:
        // either is accepted.
        let mut best = f64::INFINITY;
        let mut w = vec![0.0; p];
        for (conv, div) in [(true, n as f64), (false, d_eff)] {
            for c in 0..p {
                w[c] = (rf.ss[c] / div).sqrt();
            }
            let defect = orth_defect_scaled(&pm, Some(&w));
            if defect < best {
                best = defect;
                pop_convention = conv;
            }
        }
        let tol = ORTH_C * (p + n.min(16)) as f64 * EPS;
        calib(CL_ORTH_CORR, ratio(best, tol));
        if !(best <= tol) {
            mc::violation(
                site("components", "not-orthonormal"),
                format!("{}: D·P is not orthonormal for D = diag(sd) with either the ÷n or the ÷(n−1) standard deviation: max|(DP)ᵀ(DP)−I| = {:.3e} > {:.3e}; P={}", head(), best, tol, pm.fmt()),
            );
        }
        mc::describe(|| json!({"standardisation_accepted": if pop_convention { "population sd" } else { "sample sd" }}));
    }

    // ---- the transform as a row-wise affine map, stack clause
    let tf = |m: &DenseMatrix<f64>| pca.transform(m);
    let Some((t, err_t)) = check_map(&site, &head, x, &xm, &rf.mu, &pm, &tf, "affine-map", "(x−μ)·P", CL_AFFINE) else { return false };

    // ---- first and second moments of the transformed training data
    let conv_factor = if corr && pop_convention { n as f64 / d_eff } else { 1.0 };
    let lam = |j: usize| lam_base[j] * conv_factor;
    let trace_ref: f64 = (0..p).map(lam).sum();
    let mut mt = vec![0.0; k];
    for i in 0..n {
        for j in 0..k {
            mt[j] += t.at(i, j);
        }
    }
    mt.iter_mut().for_each(|m| *m /= n as f64);
    let mut ct = vec![0.0; k * k];
    for i in 0..n {
        for a in 0..k {
            for b in 0..=a {
                ct[a * k + b] += (t.at(i, a) - mt[a]) * (t.at(i, b) - mt[b]);
            }
        }
    }
    ct.iter_mut().for_each(|c| *c /= d_eff.max(1.0));
    let var = |j: usize| ct[j * k + j];
    let tr_t: f64 = (0..k).map(var).sum();
    let tol_stat = REL * trace_ref + 4.0 * err_t * trace_ref.max(tr_t).sqrt() + err_t * err_t;
    let tol_mean = REL * trace_ref.sqrt() + err_t;

    let worst_mean = mt.iter().fold(0.0f64, |m, v| m.max(v.abs()));
    calib(CL_MEAN, ratio(worst_mean, tol_mean));
    if !(worst_mean <= tol_mean) {
        mc::violation(site("transform", "column-mean"), format!("{}: column means of the transformed training data {:?} exceed {:.3e}; P={}", head(), mt, tol_mean, pm.fmt()));
    }
    let mut worst_off = (0.0f64, 0usize, 0usize);
    for a in 0..k {
        for b in 0..a {
            let v = ct[a * k + b].abs();
            if v > worst_off.0 || v.is_nan() {
                worst_off = (v, a, b);
            }
        }
    }
    calib(CL_UNCORR, ratio(worst_off.0, tol_stat));
    if !(worst_off.0 <= tol_stat) {
        mc::violation(
            site("transform", "correlated-columns"),
            format!("{}: covariance of transformed columns {} and {} is {:.6e} (tolerance {:.3e}, total variance {:.6e}); P={}", head(), worst_off.2, worst_off.1, ct[worst_off.1 * k + worst_off.2], tol_stat, trace_ref, pm.fmt()),
        );
    }
    for j in 0..k.saturating_sub(1) {
        let inc = var(j + 1) - var(j);
        calib(CL_ORDER, ratio(inc.max(0.0), tol_stat));
        if !(inc <= tol_stat) {
            let vars: Vec<f64> = (0..k).map(var).collect();
            mc::violation(site("transform", "variance-order"), format!("{}: variances of the transformed columns {:?} are not non-increasing (tolerance {:.3e}); P={}", head(), vars, tol_stat, pm.fmt()));
            break;
        }
    }
    let want_sum: f64 = (0..k).map(lam).sum();
    let d_sum = (tr_t - want_sum).abs();
    calib(CL_VARSUM, ratio(d_sum, tol_stat));
    if !(d_sum <= tol_stat) {
        let lams: Vec<f64> = (0..p).map(lam).collect();
        mc::violation(
            site("transform", "captured-variance"),
            format!("{}: variance captured by the {} component(s) = {:.12e}, sum of the {} largest eigenvalues of the sample covariance = {:.12e} (eigenvalues {:?}, tolerance {:.3e}); P={}", head(), k, tr_t, k, want_sum, lams, tol_stat, pm.fmt()),
        );
    }

    // ---- coverage bookkeeping
    mc::count(if svd_path { "pca_svd_path" } else { "pca_evd_path" });
    if corr {
        mc::count("pca_corr_mode");
    }
    if n <= p {
        mc::count("pca_n_le_p");
    }
    match rank {
        "rank-deficient" => mc::count("pca_rank_deficient"),
        "zero-variance" => mc::count("pca_zero_variance"),
        _ => {}
    }
    if k < p && lam(k - 1) > 0.0 && (lam(k - 1) - lam(k)).abs() <= 1e-12 * trace_ref {
        mc::count("pca_eigenvalue_tie_at_cut");
    }
    if rf.trace_cov > 0.0 && rf.mu.iter().fold(0.0f64, |m, v| m.max(v.abs())) >= 100.0 * rf.trace_cov.sqrt() {
        mc::count("pca_large_mean");
    }
    if trace_ref > 0.0 {
        mc::nontrivial();
    }
    mc::outcome(digest(&pm, &t));
    trace_ref > 0.0
}

// ------------------------------------------------------------------------------------------------
// truncated SVD

/// Returns true when `fit` returned a model, every clause was evaluated and the case is non-trivial.
pub fn check_tsvd(x: &Mat, k: usize, family: &str) -> bool {
    let (n, p) = orc::shape(x);
    let rf = refs::svd_ref_cached(x);
    let shape_cls = if n >= p { "n>=p" } else { "n<p" };
    let s2 = |j: usize| rf.sigma[j] * rf.sigma[j];
    let s2v: Vec<f64> = (0..rf.sigma.len()).map(s2).collect();
    let rank = match rank_class(&s2v, n.min(p)) {
        "zero-variance" => "zero-matrix",
        r => r,
    };
    let mag = mag_class(x);
    let site = |op: &str, clause: &str| format!("tsvd.{}:{}:{}:{}{}", op, clause, shape_cls, rank, mag);
    let head = || format!("tsvd n={} p={} k={} {} [{}]", n, p, k, fmt_input(x), family);
    let xm: DenseMatrix<f64> = dm(x);
    let fit = mc::guard(|| SVD::fit(&xm, SVDParameters::default().with_n_components(k)));
    mc::describe(|| json!({"estimator": "truncated SVD", "family": family, "n": n, "p": p, "k": k, "x": x, "oracle_singular_values": rf.sigma, "rank_class": rank}));
    if k >= p {
        // the estimator documents k < p: k = p must be rejected with an error, not a panic
        match fit {
            Err(pi) => mc::violation(site("fit", "k=p-panic"), format!("{}: k = p must be rejected with Err but {}", head(), pi.brief())),
            Ok(Ok(_)) => mc::violation(site("fit", "k=p-accepted"), format!("{}: k = p accepted although the estimator requires k < p", head())),
            Ok(Err(_)) => mc::count("tsvd_k_eq_p_rejected"),
        }
        return false;
    }
    let svd = match fit {
        Err(pi) => {
            mc::violation(site("fit", panic_kind(&pi)), format!("{}: fit must succeed but {}", head(), pi.brief()));
            return false;
        }
        Ok(Err(e)) => {
            mc::violation(site("fit", "error"), format!("{}: fit must succeed but returned Err({})", head(), e));
            return false;
        }
        Ok(Ok(m)) => m,
    };
    let c = FM::of(svd.components());
    if (c.r, c.c) != (p, k) {
        mc::violation(site("components", "shape"), format!("{}: components() is {:?}, expected (p,k)=({},{})", head(), (c.r, c.c), p, k));
        return false;
    }
    if !c.finite() {
        mc::violation(site("components", "non-finite"), format!("{}: components() = {}", head(), c.fmt()));
        return false;
    }
    let defect = orth_defect_scaled(&c, None);
    let tol_o = ORTH_C * p as f64 * EPS;
    calib(CL_T_ORTH, ratio(defect, tol_o));
    if !(defect <= tol_o) {
        mc::violation(site("components", "not-orthonormal"), format!("{}: max|CᵀC−I| = {:.3e} > {:.3e}; C={}", head(), defect, tol_o, c.fmt()));
    }
    let zero = vec![0.0; p];
    let tf = |m: &DenseMatrix<f64>| svd.transform(m);
    let Some((t, err_t)) = check_map(&site, &head, x, &xm, &zero, &c, &tf, "not-x-times-c", "x·C", CL_T_PROD) else { return false };

    // ‖X·C‖_F² = Σ_{j<=k} σ_j²
    let energy: f64 = t.v.iter().map(|v| v * v).sum();
    let want: f64 = (0..k).map(s2).sum();
    let tol_e = REL * rf.fro2 + 4.0 * err_t * rf.fro2.sqrt() + err_t * err_t;
    let d = (energy - want).abs();
    calib(CL_T_ENERGY, ratio(d, tol_e));
    if !(d <= tol_e) {
        mc::violation(
            site("transform", "captured-energy"),
            format!("{}: ‖X·C‖_F² = {:.12e}, sum of the {} largest squared singular values = {:.12e} (singular values {:?}, tolerance {:.3e}); C={}", head(), energy, k, want, rf.sigma, tol_e, c.fmt()),
        );
    }
    mc::count("tsvd_fits");
    if n < p {
        mc::count("tsvd_n_lt_p");
    }
    if rank == "rank-deficient" {
        mc::count("tsvd_rank_deficient");
    }
    if s2(k - 1) > 0.0 && (s2(k - 1) - s2(k)).abs() <= 1e-12 * rf.fro2 {
        mc::count("tsvd_singular_value_tie_at_cut");
    }
    if rf.fro2 > 0.0 {
        mc::nontrivial();
    }
    mc::outcome(digest(&c, &t));
    rf.fro2 > 0.0
}
