//! Reference computations for C14 (independent of the library under test): two-pass column means,
//! centring, sample covariance, correlation matrix, the classes used in site keys. The eigenvalues
//! and singular values come from the Jacobi routines of `mc_core::oracle`.

use mc_core::oracle::{self as orc, Mat};
use std::cell::RefCell;

pub const EPS: f64 = f64::EPSILON;

pub fn col_means(x: &Mat) -> Vec<f64> {
    let (n, p) = orc::shape(x);
    (0..p).map(|j| x.iter().map(|r| r[j]).sum::<f64>() / n as f64).collect()
}

/// Reference data of one input matrix, shared by the executions that differ only in k.
pub struct PcaRef {
    pub mu: Vec<f64>,
    /// sum of squares of every centred column
    pub ss: Vec<f64>,
    /// a column is constant (decided on the raw entries, not on a rounded variance)
    pub constant_col: Vec<bool>,
    /// eigenvalues (non-increasing) of the sample covariance matrix XcᵀXc/(n−1)
    pub lam_cov: Vec<f64>,
    /// eigenvalues (non-increasing) of the correlation matrix (empty when a column is constant)
    pub lam_cor: Vec<f64>,
    pub trace_cov: f64,
}

fn eig_sorted(s: &Mat) -> Vec<f64> {
    let (mut d, _) = orc::jacobi_eig(s);
    // a positive semi-definite matrix: clamp rounding-level negatives
    for v in d.iter_mut() {
        if *v < 0.0 {
            *v = 0.0;
        }
    }
    d
}

pub fn pca_ref(x: &Mat) -> PcaRef {
    let (n, p) = orc::shape(x);
    let mu = col_means(x);
    let xc: Mat = x.iter().map(|r| r.iter().zip(&mu).map(|(v, m)| v - m).collect()).collect();
    let constant_col: Vec<bool> = (0..p).map(|j| x.iter().all(|r| r[j] == x[0][j])).collect();
    // an exactly constant column has exactly zero centred entries by definition (the computed
    // mean of n equal numbers may be off by an ulp)
    let xc: Mat = xc.iter().map(|r| r.iter().enumerate().map(|(j, v)| if constant_col[j] { 0.0 } else { *v }).collect()).collect();
    let mut g = orc::zeros(p, p);
    for r in &xc {
        for i in 0..p {
            for j in 0..=i {
                g[i][j] += r[i] * r[j];
            }
        }
    }
    for i in 0..p {
        for j in 0..i {
            g[j][i] = g[i][j];
        }
    }
    let ss: Vec<f64> = (0..p).map(|j| g[j][j]).collect();
    let d = (n as f64 - 1.0).max(1.0);
    let cov = orc::scale(&g, 1.0 / d);
    let trace_cov = (0..p).map(|j| cov[j][j]).sum();
    let lam_cov = eig_sorted(&cov);
    let lam_cor = if constant_col.iter().any(|c| *c) {
        Vec::new()
    } else {
        let mut r = orc::zeros(p, p);
        for i in 0..p {
            for j in 0..p {
                r[i][j] = if i == j { 1.0 } else { g[i][j] / (ss[i].sqrt() * ss[j].sqrt()) };
            }
        }
        eig_sorted(&r)
    };
    PcaRef { mu, ss, constant_col, lam_cov, lam_cor, trace_cov }
}

pub struct SvdRef {
    /// singular values of X, non-increasing, min(n,p) of them padded with zeros to p
    pub sigma: Vec<f64>,
    pub fro2: f64,
}

pub fn svd_ref(x: &Mat) -> SvdRef {
    let (_, p) = orc::shape(x);
    let mut sigma = orc::singular_values(x);
    sigma.resize(p.max(sigma.len()), 0.0);
    let fro2 = x.iter().flat_map(|r| r.iter()).map(|v| v * v).sum();
    SvdRef { sigma, fro2 }
}

fn key_of(x: &Mat) -> Vec<u64> {
    let mut k = Vec::with_capacity(x.len() * x.first().map(|r| r.len()).unwrap_or(0) + 1);
    k.push(x.len() as u64);
    for r in x {
        for v in r {
            k.push(v.to_bits());
        }
    }
    k
}

thread_local! {
    static PCA_CACHE: RefCell<Option<(Vec<u64>, std::rc::Rc<PcaRef>)>> = RefCell::new(None);
    static SVD_CACHE: RefCell<Option<(Vec<u64>, std::rc::Rc<SvdRef>)>> = RefCell::new(None);
}

/// One-entry memo (the explorer varies k fastest, so consecutive executions share the matrix).
/// Purely an optimisation: the value is a function of the key alone.
pub fn pca_ref_cached(x: &Mat) -> std::rc::Rc<PcaRef> {
    let key = key_of(x);
    PCA_CACHE.with(|c| {
        let mut c = c.borrow_mut();
        if let Some((k, v)) = c.as_ref() {
            if *k == key {
                return v.clone();
            }
        }
        let v = std::rc::Rc::new(pca_ref(x));
        *c = Some((key, v.clone()));
        v
    })
}

pub fn svd_ref_cached(x: &Mat) -> std::rc::Rc<SvdRef> {
    let key = key_of(x);
    SVD_CACHE.with(|c| {
        let mut c = c.borrow_mut();
        if let Some((k, v)) = c.as_ref() {
            if *k == key {
                return v.clone();
            }
        }
        let v = std::rc::Rc::new(svd_ref(x));
        *c = Some((key, v.clone()));
        v
    })
}

/// Number of eigenvalues / squared singular values that are numerically non-zero relative to the
/// largest (used only to name the input class in site keys and for counters).
pub fn num_rank(vals: &[f64]) -> usize {
    let top = vals.iter().cloned().fold(0.0f64, f64::max);
    if top <= 0.0 {
        return 0;
    }
    vals.iter().filter(|v| **v > 1e-10 * top).count()
}
