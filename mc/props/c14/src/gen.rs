//! Deterministic structured data families for sizes beyond the lattice (DESIGN §3 "structured
//! families"): integer latent factors mixed by small integer weights (exact rank r), column scales
//! from 1e-2 to 1e3, column means up to 1e4, exact duplicate / constant columns. Every member of the
//! family is enumerated; nothing is random. `rot` (from VERIF_SEED) rotates the generator parameters.

use mc_core::oracle::Mat;

pub const MODULI: [usize; 8] = [7, 11, 5, 13, 3, 17, 19, 23];

fn latent(l: usize, i: usize, rot: usize) -> f64 {
    let m = MODULI[l % 8];
    let v = ((i + 1) * (2 * l + 3) + (i * i) * (l % 3) + rot * (l + 1)) % m;
    v as f64 - (m / 2) as f64
}

fn weight(j: usize, l: usize, rot: usize) -> f64 {
    (((j + 1) * (l + 2) + j * j + rot) % 5) as f64 - 2.0
}

/// Rank variants: how many latent factors drive the p columns, and special columns.
#[derive(Clone, Copy, Debug, PartialEq)]
pub enum Structure {
    /// r latent factors (rank of the raw, uncentred, unshifted data <= r)
    Latent(usize),
    /// full set of p factors, last column an exact copy of column 0 (needs p >= 2)
    DuplicateColumn,
    /// full set of p factors, column 1 (column 0 when p = 1) constant 5.0 — covariance mode / truncated SVD only
    ConstantColumn,
}

pub fn structures(p: usize) -> Vec<Structure> {
    let mut v = Vec::new();
    for r in [1usize, 2, p.saturating_sub(1), p] {
        if r >= 1 && r <= p && !v.contains(&Structure::Latent(r)) {
            v.push(Structure::Latent(r));
        }
    }
    if p >= 2 {
        v.push(Structure::DuplicateColumn);
    }
    v.push(Structure::ConstantColumn);
    v
}

pub const N_SCALES: usize = 5;
pub const N_MEANS: usize = 3;

pub fn scale_name(sv: usize) -> &'static str {
    ["unit", "graded 2^-7..2^10", "graded 1e-2..1e3", "alternating 1e3/1e-2", "alternating 2^37/2^-20"][sv]
}

pub fn mean_name(mv: usize) -> &'static str {
    ["none", "all +1e4", "mixed 0/100/-1e4/1"][mv]
}

fn col_scale(sv: usize, j: usize, p: usize) -> f64 {
    let t = if p > 1 { j as f64 / (p - 1) as f64 } else { 0.0 };
    match sv {
        0 => 1.0,
        1 => 2f64.powi((-7.0 + 17.0 * t).round() as i32),
        2 => 10f64.powf(-2.0 + 5.0 * t),
        3 => {
            if j % 2 == 0 {
                1e3
            } else {
                1e-2
            }
        }
        // standard deviations further apart than 1/eps (exact powers of two): used with the
        // correlation option only, whose statement is invariant under per-column scaling
        _ => {
            if j % 2 == 0 {
                137438953472.0
            } else {
                0.00000095367431640625
            }
        }
    }
}

fn col_mean(mv: usize, j: usize) -> f64 {
    match mv {
        0 => 0.0,
        1 => 1e4,
        _ => [0.0, 100.0, -1e4, 1.0][j % 4],
    }
}

pub fn structured(n: usize, p: usize, st: Structure, sv: usize, mv: usize, rot: usize) -> Mat {
    let r = match st {
        Structure::Latent(r) => r,
        _ => p,
    };
    let mut x = vec![vec![0.0; p]; n];
    for j in 0..p {
        let mut w: Vec<f64> = (0..r).map(|l| weight(j, l, rot)).collect();
        if w.iter().all(|v| *v == 0.0) {
            w[j % r] = 1.0;
        }
        let (s, m) = (col_scale(sv, j, p), col_mean(mv, j));
        for i in 0..n {
            let raw: f64 = (0..r).map(|l| w[l] * latent(l, i, rot)).sum();
            x[i][j] = raw * s + m;
        }
    }
    match st {
        Structure::DuplicateColumn => {
            for row in x.iter_mut() {
                row[p - 1] = row[0];
            }
        }
        Structure::ConstantColumn => {
            let c = if p >= 2 { 1 } else { 0 };
            for row in x.iter_mut() {
                row[c] = 5.0;
            }
        }
        Structure::Latent(_) => {}
    }
    x
}
