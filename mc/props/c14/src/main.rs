//! C14 — PCA and truncated SVD yield orthonormal, variance-ordered, optimal projections.
//!
//! E1 over (data matrix, estimator / mode, k): every matrix of small lattices (both n > p, the SVD
//! path of PCA, and n <= p, the covariance / EVD path) and every member of a deterministic structured
//! family up to 80 x 8 (correlated columns, scales 1e-2..1e3, means up to 1e4, exact rank
//! deficiency). The oracle is definition-level: Jacobi eigenvalues / singular values computed by
//! `mc_core::oracle` from the raw data, orthonormality of the returned projection, first and second
//! moments of the transformed training data, the affine-map formula evaluated by the harness.
//! No RNG is involved in these estimators, so no `verif-hooks` seam is used.

mod checks;
mod gen;
mod refs;

use checks::{check_pca, check_tsvd};
use mc_core::oracle::Mat;
use mc_core::{self as mc, json, Harness, Job, Plan, Tier, Value};
use std::cell::RefCell;

struct C14;

fn check(est: &str, x: &Mat, k: usize, family: &str) -> bool {
    match est {
        "cov" => check_pca(x, false, k, family),
        "corr" => check_pca(x, true, k, family),
        "tsvd" => check_tsvd(x, k, family),
        other => panic!("unknown estimator {}", other),
    }
}

/// Non-vacuity counters of the rescaled lattices: counted only when `fit` returned a model, every
/// clause was evaluated and the case is non-trivial (non-zero trace / Frobenius norm).
fn count_scaled(est: &str, n: usize, p: usize, tiny: bool) {
    let name = match (est, n > p, p, tiny) {
        ("cov", true, _, true) => "scaled_tiny_pca_svd_path",
        ("cov", true, _, false) => "scaled_huge_pca_svd_path",
        ("cov", false, 3, true) => "scaled_tiny_pca_cov_evd_3x3",
        ("cov", false, 3, false) => "scaled_huge_pca_cov_evd_3x3",
        ("cov", false, 4, true) => "scaled_tiny_pca_cov_evd_4x4",
        ("cov", false, 4, false) => "scaled_huge_pca_cov_evd_4x4",
        ("cov", false, _, true) => "scaled_tiny_pca_cov_evd_other",
        ("cov", false, _, false) => "scaled_huge_pca_cov_evd_other",
        ("corr", _, _, true) => "scaled_tiny_pca_corr",
        ("corr", _, _, false) => "scaled_huge_pca_corr",
        (_, _, _, true) => "scaled_tiny_tsvd",
        (_, _, _, false) => "scaled_huge_tsvd",
    };
    mc::count(name);
    if est == "corr" && p >= 3 {
        mc::count(if tiny { "scaled_tiny_pca_corr_p_ge_3" } else { "scaled_huge_pca_corr_p_ge_3" });
    }
}

// ------------------------------------------------------------------------------------------------
// plan

const ESTS: [&str; 3] = ["cov", "corr", "tsvd"];

struct LatJob {
    name: String,
    alpha: Vec<f64>,
    fixed: Vec<usize>,
    est: String,
    /// power-of-two rescaling of the whole data matrix (0 for the plain lattices); `alpha` is the scaled alphabet
    exp: i64,
    /// number of row codes |alphabet|^p (sorted families)
    row_codes: usize,
    /// enumerate one representative per row-permutation class (rows in non-decreasing code order)
    sorted: bool,
}

thread_local! {
    static LAT: RefCell<Option<LatJob>> = RefCell::new(None);
}

/// VERIF_SEED selects one of 8 affine perturbations a·v + b of the lattice alphabet; the perturbed
/// space is enumerated completely as well. Seed 0 is the plain alphabet.
const PERTURB: [(f64, f64); 8] = [(1.0, 0.0), (1.0, 0.25), (3.0, 0.0), (1.0, -0.5), (0.1, 0.0), (7.0, 0.125), (1.0, 100.0), (1.0 / 3.0, 0.0)];

fn alphabet(name: &str, seed: u64) -> Vec<f64> {
    let base: &[f64] = match name {
        "S4" => &[0.0, 1.0, -1.0, 3.0],
        "S3" => &[0.0, 1.0, -1.0],
        "B2" => &[0.0, 1.0],
        // decimal binary: inexact entries of magnitude 0.1 (rounding residues of exactly singular data fall below eps)
        "D2" => &[0.0, 0.1],
        // thirds: inexact entries of magnitude 1/3
        "T2" => &[0.0, 1.0 / 3.0],
        _ => panic!("alphabet {}", name),
    };
    let (a, b) = PERTURB[(seed % 8) as usize];
    base.iter().map(|v| a * v + b).collect()
}

fn lat_jobs(jobs: &mut Vec<(usize, Job)>, n: usize, p: usize, aname: &str, ests: &[&str], seed: u64, cap: u64) {
    lat_jobs_scaled(jobs, n, p, aname, ests, seed, cap, 0, false)
}

/// 2^e as an exact f64 (|e| <= 1000).
fn pow2(e: i64) -> f64 {
    2f64.powi(e as i32)
}

/// Number of non-decreasing sequences of n row codes out of r = |alphabet|^p: C(r+n-1, n).
fn sorted_count(r: u64, n: usize) -> u64 {
    let mut c: u128 = 1;
    for i in 0..n as u128 {
        c = c * (r as u128 + i) / (i + 1);
    }
    c as u64
}

/// Lattice jobs over the alphabet multiplied by 2^exp (exp = 0: the plain lattice, same jobs as ever).
/// `sorted`: only the matrices whose rows are in non-decreasing order of their row code (one
/// representative of every class of matrices equal up to the order of the rows).
#[allow(clippy::too_many_arguments)]
fn lat_jobs_scaled(jobs: &mut Vec<(usize, Job)>, n: usize, p: usize, aname: &str, ests: &[&str], seed: u64, cap: u64, exp: i64, sorted: bool) {
    // the job carries the plain alphabet; `run` multiplies by 2^exp (exact), so the rescaled matrices
    // are exactly 2^exp times the matrices of the plain lattice
    let alpha: Vec<f64> = alphabet(aname, seed);
    let a = alpha.len() as u64;
    let cells = n * p;
    if sorted {
        // no prefix splitting: the family is small by construction
        let per_job = sorted_count(a.pow(p as u32), n) * p as u64;
        assert!(per_job <= cap, "sorted lattice {}x{} {} has {} executions per job (cap {})", n, p, aname, per_job, cap);
    }
    // fix the first d cells in the job so that a job has at most `cap` executions
    let mut d = 0usize;
    while !sorted && a.pow((cells - d) as u32) * p as u64 > cap && d < cells {
        d += 1;
    }
    let prefixes = a.pow(d as u32);
    for est in ests {
        for code in 0..prefixes {
            // digits of `code` in base |alphabet|, first cell most significant
            let mut fixed = vec![0usize; d];
            let mut c = code;
            for i in (0..d).rev() {
                fixed[i] = (c % a) as usize;
                c /= a;
            }
            let tag: String = fixed.iter().map(|i| i.to_string()).collect();
            if exp == 0 && !sorted {
                jobs.push((
                    cells * 16 + alpha.len(),
                    Job::new(
                        format!("lat-{}-n{}p{}-{}{}{}", aname, n, p, est, if d > 0 { "-" } else { "" }, tag),
                        json!({"kind": "lat", "n": n, "p": p, "est": est, "aname": aname, "alpha": alpha, "fixed": fixed}),
                    ),
                ));
            } else {
                jobs.push((
                    cells * 16 + alpha.len() + 8,
                    Job::new(
                        format!("scaled-{}-n{}p{}{}-x2^{}-{}{}{}", aname, n, p, if sorted { "-sorted" } else { "" }, exp, est, if d > 0 { "-" } else { "" }, tag),
                        json!({"kind": "lat", "n": n, "p": p, "est": est, "aname": aname, "alpha": alpha, "fixed": fixed, "exp": exp, "sorted": sorted}),
                    ),
                ));
            }
        }
    }
}

/// (n, p, alphabet) lattice configurations per tier.
fn lattice_space(t: bool) -> Vec<(usize, usize, &'static str, &'static [&'static str])> {
    let mut v: Vec<(usize, usize, &'static str, &'static [&'static str])> = Vec::new();
    if !t {
        for n in 2..=6 {
            v.push((n, 1, "S4", &ESTS));
        }
        for n in 2..=4 {
            v.push((n, 2, "S4", &ESTS));
        }
        v.push((5, 2, "S3", &ESTS));
        v.push((2, 3, "S4", &ESTS));
        v.push((3, 3, "S4", &ESTS));
        v.push((4, 3, "S3", &ESTS));
        v.push((2, 4, "S4", &ESTS));
        // the correlation-mode half of this lattice is left to the thorough tier
        v.push((5, 4, "T2", &["cov", "tsvd"]));
    } else {
        for n in 2..=8 {
            v.push((n, 1, "S4", &ESTS));
        }
        for n in 2..=5 {
            v.push((n, 2, "S4", &ESTS));
        }
        v.push((6, 2, "S3", &ESTS));
        v.push((7, 2, "S3", &ESTS));
        v.push((2, 3, "S4", &ESTS));
        v.push((3, 3, "S4", &ESTS));
        v.push((4, 3, "S4", &ESTS));
        v.push((5, 3, "S3", &ESTS));
        v.push((2, 4, "S4", &ESTS));
        v.push((3, 4, "S3", &ESTS));
        v.push((3, 4, "S4", &ESTS));
        v.push((4, 4, "B2", &ESTS));
        v.push((5, 4, "B2", &ESTS));
        v.push((5, 4, "D2", &ESTS));
        v.push((5, 4, "T2", &ESTS));
        v.push((6, 4, "T2", &ESTS));
        v.push((2, 5, "S3", &ESTS));
        v.push((3, 5, "B2", &ESTS));
        v.push((4, 5, "B2", &ESTS));
        v.push((2, 6, "S3", &ESTS));
        v.push((3, 6, "B2", &ESTS));
    }
    v
}

/// Power-of-two rescaling (round 2): (n, p, alphabet, sorted rows only, estimators) of the lattices
/// that are enumerated again with every entry multiplied by 2^e, for every e of `scaled_exps`.
/// Multiplying by a power of two is exact, so the scaled matrix is exactly s·X: projections must be
/// unchanged and variances scale by s²; every tolerance of the oracle is relative to the trace.
fn scaled_space(t: bool) -> Vec<(usize, usize, &'static str, bool, &'static [&'static str])> {
    let mut v: Vec<(usize, usize, &'static str, bool, &'static [&'static str])> = vec![
        // n > p: SVD path of PCA in covariance mode (correlation mode: EVD of a p x p matrix), tsvd n >= p
        (3, 1, "S4", false, &ESTS),
        (4, 1, "S4", false, &ESTS),
        (3, 2, "S4", false, &ESTS),
        (4, 2, "S3", false, &ESTS),
        (4, 3, "B2", false, &ESTS),
        (5, 3, "B2", false, &ESTS),
        // the 5 x 4 lattice of thirds of the quick tier, one matrix per row-permutation class
        (5, 4, "T2", true, &ESTS),
        // n <= p: covariance / EVD path with a 2x2, 3x3 and 4x4 covariance matrix, tsvd n < p and n = p
        (2, 2, "S4", false, &ESTS),
        (2, 3, "S4", false, &ESTS),
        (3, 3, "S3", false, &ESTS),
        (2, 4, "S3", false, &ESTS),
        (3, 4, "B2", false, &ESTS),
        (4, 4, "B2", false, &ESTS),
    ];
    if t {
        v.push((3, 3, "S4", false, &ESTS));
        v.push((4, 3, "S3", false, &ESTS));
        v.push((2, 4, "S4", false, &ESTS));
        v.push((3, 4, "S3", false, &ESTS));
        v.push((5, 4, "T2", false, &ESTS));
        v.push((6, 4, "T2", true, &ESTS));
    }
    v
}

fn scaled_exps(t: bool) -> &'static [i64] {
    if t {
        &[-30, 30, -40, 40]
    } else {
        &[-30, 30]
    }
}

fn structured_sizes(t: bool) -> Vec<(usize, usize)> {
    let mut v = Vec::new();
    let ns: Vec<usize> = if t { (2..=80).collect() } else { vec![2, 3, 5, 8, 9, 17, 40, 80] };
    for p in 1..=8usize {
        for &n in &ns {
            v.push((n, p));
        }
    }
    v
}

impl Harness for C14 {
    fn id(&self) -> &'static str {
        "C14"
    }

    fn plan(&self, tier: Tier, seed: u64) -> Plan {
        let t = tier.is_thorough();
        let cap: u64 = if t { 2_500_000 } else { 300_000 };
        let mut jobs: Vec<(usize, Job)> = Vec::new();
        let space = lattice_space(t);
        for (n, p, a, ests) in &space {
            lat_jobs(&mut jobs, *n, *p, a, ests, seed, cap);
        }
        let sspace = scaled_space(t);
        for e in scaled_exps(t) {
            for (n, p, a, sorted, ests) in &sspace {
                lat_jobs_scaled(&mut jobs, *n, *p, a, ests, seed, cap, *e, *sorted);
            }
        }
        for (n, p) in structured_sizes(t) {
            // interleave the structured jobs early (they are small) but after the tiniest lattices
            jobs.push((100 + n * p / 8, Job::new(format!("str-n{}p{}", n, p), json!({"kind": "str", "n": n, "p": p, "rot": seed, "rots": if t { 4 } else { 1 }}))));
        }
        jobs.sort_by_key(|(w, _)| *w);
        let jobs: Vec<Job> = jobs.into_iter().map(|(_, j)| j).collect();
        let scaled_desc: Vec<String> = sspace.iter().map(|(n, p, a, sorted, _)| format!("{}x{} over {:?}{}", n, p, alphabet(a, seed), if *sorted { " (rows in non-decreasing code order: one matrix per row-permutation class)" } else { "" })).collect();
        let lattice_desc: Vec<String> = space.iter().map(|(n, p, a, e)| format!("{}x{} over {:?}{}", n, p, alphabet(a, seed), if e.len() < 3 { format!(" ({} only)", e.join("+")) } else { String::new() })).collect();
        let jobs = {
            let mut j: Vec<Job> = jobs;
            j.insert(0, Job::new("builders", json!({"kind": "builders"})));
            for i in 0..mc_sc::entry::n_parts("C14") {
                j.insert(1 + i, Job::new(format!("entry-{}", i), json!({"kind": "entry", "part": i})));
            }
            j
        };
        Plan {
            jobs,
            budget_s: if t { 2700 } else { 40 },
            case_deadline_ms: 20_000,
            floors: vec![
                ("builder_chains", 5),
                ("entry_cases", 1000),
                ("pca_svd_path", 10_000),
                ("pca_evd_path", 10_000),
                ("pca_corr_mode", 10_000),
                ("pca_n_le_p", 5_000),
                ("pca_rank_deficient", 5_000),
                ("pca_zero_variance", 10),
                ("pca_eigenvalue_tie_at_cut", 100),
                ("pca_large_mean", 500),
                ("tsvd_fits", 10_000),
                ("tsvd_n_lt_p", 1_000),
                ("tsvd_rank_deficient", 1_000),
                ("tsvd_singular_value_tie_at_cut", 100),
                ("tsvd_k_eq_p_rejected", 1_000),
                ("structured_cases", 1_000),
                // rescaled lattices (round 2): fit returned a model, every clause evaluated, non-trivial case
                ("scaled_tiny_pca_svd_path", 100_000),
                ("scaled_huge_pca_svd_path", 100_000),
                ("scaled_tiny_pca_cov_evd_3x3", 50_000),
                ("scaled_huge_pca_cov_evd_3x3", 50_000),
                ("scaled_tiny_pca_cov_evd_4x4", 200_000),
                ("scaled_huge_pca_cov_evd_4x4", 200_000),
                ("scaled_tiny_pca_corr", 200_000),
                ("scaled_huge_pca_corr", 200_000),
                ("scaled_tiny_pca_corr_p_ge_3", 200_000),
                ("scaled_huge_pca_corr_p_ge_3", 200_000),
                ("scaled_tiny_tsvd", 200_000),
                ("scaled_huge_tsvd", 200_000),
            ],
            bounds: json!({
                "builders": mc_sc::builders::BOUNDS,
                "entry_paths": mc_sc::entry::BOUNDS,
                "lattices": format!("every n x p matrix over the alphabet, for: {}; x {{PCA covariance, PCA correlation: every k in 1..=p; truncated SVD: every k in 1..p and k = p (must be Err)}}; constant columns are outside the statement in correlation mode (skipped, counted)", lattice_desc.join("; ")),
                "rescaled_lattices": format!("power-of-two rescaling: every matrix of the following lattices with every entry multiplied by 2^e (exact), for every e in {:?}: {}; x the same 3 estimators x every k; same oracle, every tolerance relative to the (scaled) trace; site keys of these inputs end in :tiny-magnitude (0 < max|x| < 2^-20) / :huge-magnitude (max|x| > 2^20)", scaled_exps(t), scaled_desc.join("; ")),
                "structured": format!("n in {}, p in 1..=8: every (rank structure in {{1,2,p-1,p latent integer factors, exact duplicate column, constant column}}) x (4 column-scale profiles: unit, 2^-7..2^10, 1e-2..1e3, alternating 1e3/1e-2; for the correlation option with zero means also alternating 2^37/2^-20, standard deviations further apart than 1/eps) x (3 mean profiles: 0, +1e4, mixed up to 1e4) x {} generator rotation(s) x 3 estimators x every k", if t { "2..=80 (every n)" } else { "{2,3,5,8,9,17,40,80}" }, if t { 4 } else { 1 }),
                "seed": format!("VERIF_SEED mod 8 selects the affine perturbation a*v+b of the lattice alphabets (here a={}, b={}) and rotates the structured generator's weights", PERTURB[(seed % 8) as usize].0, PERTURB[(seed % 8) as usize].1),
                "element_type": "f64, DenseMatrix",
            }),
        }
    }

    fn run(&self, job: &Job) {
        if job.kind() == "entry" {
            return mc_sc::entry::run_part("C14", job.u("part"));
        }
        if job.kind() == "builders" {
            return mc_sc::builders::run("C14");
        }
        let (n, p) = (job.u("n"), job.u("p"));
        match job.kind() {
            "lat" => {
                // decoded job parameters are memoised per job (pure function of the job)
                LAT.with(|l| {
                    let mut l = l.borrow_mut();
                    if l.as_ref().map(|d| d.name != job.name).unwrap_or(true) {
                        // "exp" / "sorted" are absent in the plain lattice jobs
                        let exp = job.params["exp"].as_i64().unwrap_or(0);
                        let alpha: Vec<f64> = job.params["alpha"].as_array().expect("alpha").iter().map(|v| v.as_f64().unwrap() * pow2(exp)).collect();
                        let row_codes = alpha.len().pow(p as u32);
                        *l = Some(LatJob {
                            name: job.name.clone(),
                            alpha,
                            fixed: job.params["fixed"].as_array().expect("fixed").iter().map(|v| v.as_u64().unwrap() as usize).collect(),
                            est: job.s("est").to_string(),
                            exp,
                            row_codes,
                            sorted: job.b("sorted"),
                        });
                    }
                });
                let (x, est, exp) = LAT.with(|l| {
                    let l = l.borrow();
                    let d = l.as_ref().unwrap();
                    let mut x = vec![vec![0.0; p]; n];
                    if d.sorted {
                        // row codes in non-decreasing order: row i draws from prev..row_codes
                        let a = d.alpha.len();
                        let mut prev = 0usize;
                        for row in x.iter_mut() {
                            let code = prev + mc::choose(d.row_codes - prev);
                            prev = code;
                            // digits of the code in base |alphabet|, first cell most significant
                            let mut c = code;
                            for j in (0..p).rev() {
                                row[j] = d.alpha[c % a];
                                c /= a;
                            }
                        }
                    } else {
                        for e in 0..n * p {
                            let idx = if e < d.fixed.len() { d.fixed[e] } else { mc::choose(d.alpha.len()) };
                            x[e / p][e % p] = d.alpha[idx];
                        }
                    }
                    let est: &'static str = ESTS.iter().find(|e| **e == d.est).expect("estimator");
                    (x, est, d.exp)
                });
                let k = 1 + mc::choose(p);
                if exp == 0 {
                    check(est, &x, k, "lattice");
                } else {
                    let fam = format!("lattice x 2^{}", exp);
                    if check(est, &x, k, &fam) {
                        count_scaled(est, n, p, exp < 0);
                    }
                }
            }
            "str" => {
                // generator rotation: VERIF_SEED picks the base, the thorough tier enumerates 4 consecutive rotations
                let rot = job.u("rot") * 4 + mc::choose(job.u("rots"));
                let sts = gen::structures(p);
                let st = sts[mc::choose(sts.len())];
                let sv = mc::choose(gen::N_SCALES);
                let mv = mc::choose(gen::N_MEANS);
                let est = mc::pick(&ESTS);
                let k = 1 + mc::choose(p);
                // profile 4 (scales 2^57 apart) is meaningful for the correlation option only, and
                // with means that do not swamp the small columns
                if sv == 4 && (est != "corr" || mv != 0) {
                    return;
                }
                let x = gen::structured(n, p, st, sv, mv, rot);
                mc::count("structured_cases");
                let fam = format!("structured {:?}, scales {}, means {}, rot {}", st, gen::scale_name(sv), gen::mean_name(mv), rot);
                check(est, &x, k, &fam);
            }
            "builders" => mc_sc::builders::run("C14"),
            other => panic!("unknown job kind {}", other),
        }
    }

    fn rule(&self) -> String {
        "one execution = one (data matrix, estimator/mode, k); non-trivial when the fit returned a model and the data have non-zero total variance (PCA) / non-zero Frobenius norm (truncated SVD); distinct = distinct bit-exact digest of the returned components and transformed training data".into()
    }

    fn assumptions(&self) -> Vec<String> {
        vec![
            "PCA and truncated SVD draw no random numbers (no RNG seam on this path); the RNG call sites of /repo/src equal /verif/rng_sites.allow (checked at start-up)".into(),
            "in correlation mode the statement's 'standardised data' may use either the population or the sample standard deviation; whichever makes D*P orthonormal is accepted".into(),
            "f64 and DenseMatrix only; other backends are C20's subject".into(),
            "rescaled lattices: multiplying by 2^e (|e| <= 40) is exact in f64 and no product of two entries leaves the normal range, so the input is exactly s*X and the statement (projections unchanged, variances x s^2) applies with the same relative tolerances".into(),
            "tolerances: orthonormality 64*p*eps; moments 1e-9*trace plus the rounding floor 64*eps*sum(|x|+|mu|)|P| of evaluating the affine map itself".into(),
        ]
    }
}

fn main() {
    if let Err(e) = mc_sc::check_rng_sites() {
        eprintln!("MACHINERY-ERROR: {}", e);
        std::process::exit(2);
    }
    mc::main(C14)
}

#[allow(dead_code)]
fn _v(_: Value) {}
