//! Input alphabets and structured families for C04 (all finite and deterministic; every member of
//! a family is enumerated, nothing is sampled).

use smartcore::math::num::RealNumber;

/// Floating-point helpers the search checks need for both widths.
pub trait Fl: RealNumber {
    const NAME: &'static str;
    fn bits(self) -> u64;
    fn up(self) -> Self;
    fn down(self) -> Self;
    fn f(self) -> f64 {
        self.to_f64().unwrap()
    }
    fn of(x: f64) -> Self {
        Self::from_f64(x).unwrap()
    }
}

fn up64(x: f64) -> f64 {
    if x.is_nan() || x == f64::INFINITY {
        return x;
    }
    if x == 0.0 {
        return f64::from_bits(1);
    }
    let b = x.to_bits();
    f64::from_bits(if x > 0.0 { b + 1 } else { b - 1 })
}

fn up32(x: f32) -> f32 {
    if x.is_nan() || x == f32::INFINITY {
        return x;
    }
    if x == 0.0 {
        return f32::from_bits(1);
    }
    let b = x.to_bits();
    f32::from_bits(if x > 0.0 { b + 1 } else { b - 1 })
}

impl Fl for f64 {
    const NAME: &'static str = "f64";
    fn bits(self) -> u64 {
        if self == 0.0 {
            0
        } else {
            self.to_bits()
        }
    }
    fn up(self) -> f64 {
        up64(self)
    }
    fn down(self) -> f64 {
        -up64(-self)
    }
}

impl Fl for f32 {
    const NAME: &'static str = "f32";
    fn bits(self) -> u64 {
        if self == 0.0 {
            0
        } else {
            self.to_bits() as u64
        }
    }
    fn up(self) -> f32 {
        up32(self)
    }
    fn down(self) -> f32 {
        -up32(-self)
    }
}

/// `VERIF_SEED` selects which finite space is enumerated completely: an affine map `c -> a*c + b`
/// applied to every coordinate (data and queries alike). Seed 0 is the plain alphabet.
pub fn seed_map(seed: u64) -> (f64, f64) {
    const T: [(f64, f64); 8] = [(1.0, 0.0), (1.0, 0.25), (3.0, 0.0), (0.5, 0.0), (1.0, -1.0), (1048576.0, 0.0), (0.00000095367431640625, 0.0), (7.0, 0.125)];
    T[(seed % 8) as usize]
}

pub fn xf(c: f64, m: (f64, f64)) -> f64 {
    m.0 * c + m.1
}

/// 3x3 lattice point `p` in 0..9.
pub fn lat2(p: usize, m: (f64, f64)) -> Vec<f64> {
    vec![xf((p / 3) as f64, m), xf((p % 3) as f64, m)]
}

/// Half-step 5x5 query grid, `q` in 0..25 (contains the 9 lattice points).
pub fn qgrid2(q: usize, m: (f64, f64)) -> Vec<f64> {
    vec![xf((q / 5) as f64 * 0.5, m), xf((q % 5) as f64 * 0.5, m)]
}
pub const NQ2: usize = 25;

/// 1-D lattice {0..4}.
pub fn lat1(p: usize, m: (f64, f64)) -> Vec<f64> {
    vec![xf(p as f64, m)]
}

/// 1-D half-step queries -0.5, 0, ..., 4.5.
pub fn qgrid1(q: usize, m: (f64, f64)) -> Vec<f64> {
    vec![xf(q as f64 * 0.5 - 0.5, m)]
}
pub const NQ1: usize = 11;

/// The scale-boundary alphabet: 1-D positions at which `ceil(log_1.3 d)` changes, with their
/// floating-point neighbours. 0 is the usual root; the other letters are 1.3^s (as computed by
/// powi), one ulp below, one ulp above, for s in -2..=3, plus 1 +- ulp.
pub fn scale_alphabet() -> Vec<f64> {
    let mut v = vec![0.0];
    for s in -2i32..=3 {
        let b = 1.3f64.powi(s);
        v.push(b);
        v.push(b.down());
        v.push(b.up());
    }
    v
}

/// Structured families of larger point sets. Returns the points in construction order.
pub const FAMILIES: &[&str] = &["lattice", "lattice-rev", "lattice-stride", "lattice-bitrev", "collinear", "identical", "two-clusters", "weyl", "dup-pairs", "wide-extent", "weyl-wide"];

fn bitrev(mut i: usize, bits: u32) -> usize {
    let mut r = 0;
    for _ in 0..bits {
        r = (r << 1) | (i & 1);
        i >>= 1;
    }
    r
}

fn gcd(a: usize, b: usize) -> usize {
    if b == 0 {
        a
    } else {
        gcd(b, a % b)
    }
}

/// Side length of the full lattice with at most `n` points in `dim` dimensions (at least 2).
fn side(n: usize, dim: usize) -> usize {
    let mut s = 2usize;
    while (s + 1).pow(dim as u32) <= n {
        s += 1;
    }
    s
}

const ALPHAS: [f64; 6] = [1.4142135623730951, 1.7320508075688772, 2.23606797749979, 2.6457513110645907, 3.3166247903554, 3.605551275463989];

pub fn family(name: &str, n: usize, dim: usize, seed: u64) -> Vec<Vec<f64>> {
    let m = seed_map(seed);
    let lattice = |n: usize| -> Vec<Vec<f64>> {
        let s = side(n, dim);
        let total = s.pow(dim as u32).min(n.max(1));
        (0..total)
            .map(|mut i| {
                let mut p = vec![0.0; dim];
                for c in p.iter_mut().rev() {
                    *c = xf((i % s) as f64, m);
                    i /= s;
                }
                p
            })
            .collect()
    };
    match name {
        "lattice" => lattice(n),
        "lattice-rev" => {
            let mut v = lattice(n);
            v.reverse();
            v
        }
        "lattice-stride" => {
            let v = lattice(n);
            let len = v.len();
            let mut st = (len * 5) / 8 + 1;
            while gcd(st, len) != 1 {
                st += 1;
            }
            (0..len).map(|i| v[(i * st + 3) % len].clone()).collect()
        }
        "lattice-bitrev" => {
            let v = lattice(n);
            let len = v.len();
            let bits = usize::BITS - (len.max(2) - 1).leading_zeros();
            let mut order: Vec<usize> = (0..(1usize << bits)).map(|i| bitrev(i, bits)).filter(|&j| j < len).collect();
            order.dedup();
            order.iter().map(|&j| v[j].clone()).collect()
        }
        // points on a line through the space, in an order that starts in the middle
        "collinear" => (0..n)
            .map(|i| {
                let t = ((i * 7 + n / 2) % n) as f64;
                (0..dim).map(|j| xf(t * (j + 1) as f64, m)).collect()
            })
            .collect(),
        "identical" => (0..n).map(|_| (0..dim).map(|j| xf(1.0 + j as f64, m)).collect()).collect(),
        // two tight clusters far apart, interleaved in the construction order
        "two-clusters" => (0..n)
            .map(|i| {
                let base = if i % 2 == 0 { 0.0 } else { 1000.0 };
                let k = i / 2;
                (0..dim).map(|j| xf(base + ((k >> j) & 3) as f64 * 0.25 + if j == 0 { (k / 64) as f64 * 0.125 } else { 0.0 }, m)).collect()
            })
            .collect(),
        // quasi-random continuous data: Weyl sequences frac((i+1+seed)*sqrt(prime_j)) scaled to [0,10)
        "weyl" => (0..n)
            .map(|i| {
                (0..dim)
                    .map(|j| {
                        let t = (i as f64 + 1.0 + (seed % 8) as f64 * 1000.0) * ALPHAS[j];
                        (t - t.floor()) * 10.0
                    })
                    .collect()
            })
            .collect(),
        // continuous data in which every point occurs twice (non-adjacent in the order)
        "dup-pairs" => {
            let h = (n + 1) / 2;
            (0..n)
                .map(|i| {
                    let i = i % h;
                    (0..dim)
                        .map(|j| {
                            let t = (i as f64 + 1.0 + (seed % 8) as f64 * 1000.0) * ALPHAS[(j + 2) % 6];
                            (t - t.floor()) * 4.0
                        })
                        .collect()
                })
                .collect()
        }
        // round 8: data whose extent is far beyond the root scale a cover tree usually needs
        // (1.3^100 ~ 2.5e11): a line 0, 1e11, 2e11, ... in construction order "middle first", and
        // quasi-random points in [-1e12, 1e12)
        "wide-extent" => (0..n)
            .map(|i| {
                let t = ((i * 7 + n / 2) % n) as f64;
                (0..dim).map(|j| if j == 0 { t * 1e11 } else { xf(((i >> j) & 3) as f64, m) }).collect()
            })
            .collect(),
        "weyl-wide" => (0..n)
            .map(|i| {
                (0..dim)
                    .map(|j| {
                        let t = (i as f64 + 1.0 + (seed % 8) as f64 * 1000.0) * ALPHAS[j];
                        ((t - t.floor()) * 2.0 - 1.0) * 1e12
                    })
                    .collect()
            })
            .collect(),
        other => panic!("unknown family {}", other),
    }
}

/// Queries for a structured set: every data point, the midpoints of consecutive points (in
/// construction order), and two points outside the bounding box.
pub fn family_queries(data: &[Vec<f64>]) -> Vec<Vec<f64>> {
    let n = data.len();
    let dim = data[0].len();
    let mut q: Vec<Vec<f64>> = data.to_vec();
    for i in 0..n.saturating_sub(1) {
        q.push((0..dim).map(|j| 0.5 * (data[i][j] + data[i + 1][j])).collect());
    }
    let lo: Vec<f64> = (0..dim).map(|j| data.iter().map(|p| p[j]).fold(f64::INFINITY, f64::min)).collect();
    let hi: Vec<f64> = (0..dim).map(|j| data.iter().map(|p| p[j]).fold(f64::NEG_INFINITY, f64::max)).collect();
    q.push((0..dim).map(|j| lo[j] - 1.5 - (hi[j] - lo[j])).collect());
    q.push((0..dim).map(|j| if j % 2 == 0 { hi[j] + 0.75 } else { lo[j] - 0.25 }).collect());
    q
}
