//! Oracle for the two neighbour-search structures: brute force with the *same* `Distance` object,
//! so that distances compare bit-exactly.

use crate::data::Fl;
use mc_core::{self as mc, json};
use smartcore::algorithm::neighbour::cover_tree::CoverTree;
use smartcore::algorithm::neighbour::linear_search::LinearKNNSearch;
use smartcore::error::Failed;
use smartcore::math::distance::{Distance, Distances};

#[derive(Clone, Copy, PartialEq, Eq, Debug)]
pub enum Metric {
    Euclid,
    Manhattan,
    Mink3,
    Hamming,
}

impl Metric {
    pub fn name(self) -> &'static str {
        match self {
            Metric::Euclid => "euclidean",
            Metric::Manhattan => "manhattan",
            Metric::Mink3 => "minkowski3",
            Metric::Hamming => "hamming",
        }
    }
    pub fn parse(s: &str) -> Metric {
        match s {
            "euclidean" => Metric::Euclid,
            "manhattan" => Metric::Manhattan,
            "minkowski3" => Metric::Mink3,
            "hamming" => Metric::Hamming,
            o => panic!("unknown metric {}", o),
        }
    }
    pub const ALL: [Metric; 4] = [Metric::Euclid, Metric::Manhattan, Metric::Mink3, Metric::Hamming];
}

/// Input class of a data set (part of every site key): decided from the data alone.
pub fn data_class(data: &[Vec<f64>]) -> &'static str {
    let n = data.len();
    if n == 1 {
        return "single-point";
    }
    if data.iter().all(|p| *p == data[0]) {
        return "all-identical";
    }
    for i in 0..n {
        for j in 0..i {
            if data[i] == data[j] {
                return "with-duplicates";
            }
        }
    }
    "distinct-points"
}

pub fn conv<T: Fl>(rows: &[Vec<f64>]) -> Vec<Vec<T>> {
    rows.iter().map(|r| r.iter().map(|x| T::of(*x)).collect()).collect()
}

type Hits<'a, T> = Vec<(usize, T, &'a Vec<T>)>;

/// The common face of the two structures.
trait Nn<T: Fl> {
    const NAME: &'static str;
    /// true when the structure evaluates `distance(data[i], query)` rather than `distance(query, data[i])`
    const DATA_FIRST: bool;
    /// the structure prunes with triangle-inequality bounds (only then can a miss be a rounding effect)
    const PRUNES: bool;
    fn knn(&self, q: &Vec<T>, k: usize) -> Result<Hits<'_, T>, Failed>;
    fn within(&self, q: &Vec<T>, r: T) -> Result<Hits<'_, T>, Failed>;
}

impl<T: Fl, D: Distance<Vec<T>, T>> Nn<T> for CoverTree<Vec<T>, T, D> {
    const NAME: &'static str = "covertree";
    const DATA_FIRST: bool = true;
    const PRUNES: bool = true;
    fn knn(&self, q: &Vec<T>, k: usize) -> Result<Hits<'_, T>, Failed> {
        self.find(q, k)
    }
    fn within(&self, q: &Vec<T>, r: T) -> Result<Hits<'_, T>, Failed> {
        self.find_radius(q, r)
    }
}

impl<T: Fl, D: Distance<Vec<T>, T>> Nn<T> for LinearKNNSearch<Vec<T>, T, D> {
    const NAME: &'static str = "linearsearch";
    const DATA_FIRST: bool = false;
    const PRUNES: bool = false;
    fn knn(&self, q: &Vec<T>, k: usize) -> Result<Hits<'_, T>, Failed> {
        self.find(q, k)
    }
    fn within(&self, q: &Vec<T>, r: T) -> Result<Hits<'_, T>, Failed> {
        self.find_radius(q, r)
    }
}

pub struct Opts {
    /// probe every realised distance (and its two floating-point neighbours) as a radius; otherwise
    /// a fixed set of ranks
    pub all_radii: bool,
    /// probe every k in 0..=n+1; otherwise a fixed set of k values (always including 0, 1, n, n+1)
    pub all_k: bool,
}

struct Ctx<'a, T: Fl> {
    metric: Metric,
    class: &'static str,
    data: &'a [Vec<f64>],
    pts: &'a [Vec<T>],
    query: &'a [f64],
    /// distance(query, data[i]) and distance(data[i], query) (bit-identical for the four metrics)
    d_qx: Vec<T>,
    d_xq: Vec<T>,
    /// distance(data[i], data[j]) with the same Distance object (evaluated only when a violation is classified)
    pair: &'a dyn Fn(usize, usize) -> T,
}

impl<'a, T: Fl> Ctx<'a, T> {
    fn show(&self) -> String {
        format!("{} {} data={:?} query={:?}", T::NAME, self.metric.name(), self.data, self.query)
    }
}

fn fmt_hits<T: Fl>(h: &Hits<'_, T>) -> String {
    let v: Vec<String> = h.iter().map(|e| format!("(#{} d={:?})", e.0, e.1.f())).collect();
    format!("[{}]", v.join(" "))
}

/// Clauses every returned entry must satisfy: true index (in range, not repeated), the distance of
/// that very point, and the point itself.
fn check_entries<T: Fl>(cx: &Ctx<T>, hits: &Hits<'_, T>) -> Option<(&'static str, String)> {
    let n = cx.pts.len();
    let mut seen = [false; 256];
    for e in hits {
        if e.0 >= n {
            return Some(("index-out-of-range", format!("entry index {} >= n={}", e.0, n)));
        }
        if seen[e.0] {
            return Some(("index-repeated", format!("index {} returned twice", e.0)));
        }
        seen[e.0] = true;
        if e.1.bits() != cx.d_qx[e.0].bits() && e.1.bits() != cx.d_xq[e.0].bits() {
            return Some(("wrong-distance", format!("entry #{} carries distance {:?}, the metric gives {:?}", e.0, e.1.f(), cx.d_qx[e.0].f())));
        }
        if *e.2 != cx.pts[e.0] {
            return Some(("wrong-point", format!("entry #{} carries point {:?}, data[{}]={:?}", e.0, e.2, e.0, cx.pts[e.0])));
        }
    }
    None
}

/// Number of significant mantissa bits of `x` (0 for 0).
fn sig_bits(x: f64) -> (u32, i32) {
    if x == 0.0 || !x.is_finite() {
        return (0, 0);
    }
    let b = x.abs().to_bits();
    let e = ((b >> 52) & 0x7ff) as i32;
    let m = if e == 0 { b & ((1 << 52) - 1) } else { (b & ((1 << 52) - 1)) | (1 << 52) };
    (64 - m.leading_zeros() - m.trailing_zeros(), e.max(1) - 1075 + (64 - m.leading_zeros()) as i32)
}

/// True when every distance the cover tree can combine for this (data, query, bound) — query-to-data,
/// data-to-data, the bound itself — is a short dyadic number, so that `bound + max_dist` and every
/// comparison are exact: floating-point rounding cannot explain a miss on such an input.
fn arithmetic_is_exact<T: Fl>(cx: &Ctx<T>, bound: T) -> bool {
    let (max_sig, max_spread) = if T::NAME == "f32" { (8u32, 14i32) } else { (20u32, 30i32) };
    let n = cx.pts.len();
    let (mut lo, mut hi) = (i32::MAX, i32::MIN);
    let mut ok = true;
    let mut see = |v: T| {
        let (s, e) = sig_bits(v.f());
        if s > max_sig {
            ok = false;
        }
        if s > 0 {
            lo = lo.min(e);
            hi = hi.max(e);
        }
    };
    see(bound);
    for i in 0..n {
        see(cx.d_xq[i]);
        see(cx.d_qx[i]);
        for j in 0..i {
            see((cx.pair)(i, j));
            see((cx.pair)(j, i));
        }
    }
    ok && (lo == i32::MAX || hi - lo <= max_spread)
}

/// The input class "boundary-rounding": every expected-but-missing distance lies within a
/// rounding-level margin below the pruning bound (the k-th smallest distance, resp. the radius) —
/// 32 eps x (bound + 2 x largest query-to-data distance), an upper bound of a few roundings of
/// `bound + max_dist` — AND the distances involved are not exactly representable short dyadic
/// numbers. Such misses (floating-point triangle inequality) are a different defect from a wrong
/// pruning bound, which also loses points on exactly representable inputs or by a wide margin.
fn only_boundary_rounding<T: Fl>(cx: &Ctx<T>, missing: &[T], bound: T, dmax: T) -> bool {
    let tol = T::of(32.0) * T::epsilon() * (bound + T::two() * dmax);
    !missing.is_empty() && missing.iter().all(|m| bound - *m <= tol) && !arithmetic_is_exact(cx, bound)
}

fn run_structure<T: Fl, S: Nn<T>>(cx: &Ctx<T>, s: &S, q: &Vec<T>, opts: &Opts, digest: &mut u64) {
    let n = cx.pts.len();
    let d = if S::DATA_FIRST { &cx.d_xq } else { &cx.d_qx };
    let mut sorted: Vec<T> = d.clone();
    sorted.sort_by(|a, b| a.partial_cmp(b).unwrap());
    let viol = |op: &str, clause: &str, what: String| {
        mc::violation(format!("{}.{}:{}:{}", S::NAME, op, cx.class, clause), format!("{}: {}", cx.show(), what));
    };
    // a miss of the class "boundary-rounding" is keyed by that class instead of the data class
    let viol_r = |rounding: bool, op: &str, clause: &str, what: String| {
        let class = if rounding && S::PRUNES { "boundary-rounding" } else { cx.class };
        mc::violation(format!("{}.{}:{}:{}", S::NAME, op, class, clause), format!("{}: {}", cx.show(), what));
    };

    // ---- k nearest
    let ks: Vec<usize> = if opts.all_k || n <= 12 {
        (0..=n + 1).collect()
    } else {
        let mut v = vec![0, 1, 2, 3, 5, 8, n / 4, n / 2, n - 2, n - 1, n, n + 1, n + 7];
        v.sort_unstable();
        v.dedup();
        v
    };
    for &k in &ks {
        let r = mc::guard(|| s.knn(q, k));
        let valid = k >= 1 && k <= n;
        match r {
            Err(p) => {
                let suffix = if p.is_overflow_check() { ":overflow-check" } else { "" };
                viol("find", &format!("panic{}", suffix), format!("k={}: {}", k, p.brief()));
                *digest = mc::hash::mix(*digest, 0xdead);
            }
            Ok(Err(e)) => {
                if valid {
                    viol("find", "error-for-valid-k", format!("k={} (1<=k<=n={}) rejected: {}", k, n, e));
                } else if k == 0 {
                    mc::count("err_k_zero");
                } else {
                    mc::count("err_k_gt_n");
                }
                *digest = mc::hash::mix(*digest, 0xe44);
            }
            Ok(Ok(hits)) => {
                for e in &hits {
                    *digest = mc::hash::mix(mc::hash::mix(*digest, e.0 as u64), e.1.bits());
                }
                if !valid {
                    viol("find", if k == 0 { "k-zero-accepted" } else { "k-gt-n-accepted" }, format!("k={} with n={} must be reported as an error, returned {}", k, n, fmt_hits(&hits)));
                    continue;
                }
                if let Some((clause, what)) = check_entries(cx, &hits) {
                    viol("find", clause, format!("k={}: {}; returned {}", k, what, fmt_hits(&hits)));
                    continue;
                }
                let mut got: Vec<T> = hits.iter().map(|e| e.1).collect();
                got.sort_by(|a, b| a.partial_cmp(b).unwrap());
                if hits.len() != k || got.iter().zip(sorted.iter()).any(|(a, b)| a.bits() != b.bits()) {
                    // the expected distances that are missing from the answer (multiset difference)
                    let mut missing: Vec<T> = Vec::new();
                    let mut j = 0;
                    for w in &sorted[..k] {
                        while j < got.len() && got[j] < *w {
                            j += 1;
                        }
                        if j < got.len() && got[j].bits() == w.bits() {
                            j += 1;
                        } else {
                            missing.push(*w);
                        }
                    }
                    // rounding-level: k entries whose distances exceed the optimal ones by no more than the
                    // rounding margin, or fewer entries with only points at the k-th distance missing
                    let rounding = if hits.len() == k {
                        let tol = T::of(32.0) * T::epsilon() * (sorted[k - 1] + T::two() * sorted[n - 1]);
                        got.iter().zip(sorted.iter()).all(|(g, w)| *g - *w <= tol) && !arithmetic_is_exact(cx, sorted[k - 1])
                    } else {
                        only_boundary_rounding(cx, &missing, sorted[k - 1], sorted[n - 1])
                    };
                    let clause = if hits.len() != k { "wrong-count" } else { "not-k-smallest" };
                    viol_r(
                        rounding,
                        "find",
                        clause,
                        format!(
                            "k={}: {} entries with distances {:?}, the k smallest are {:?} (missing {:?}); returned {}",
                            k,
                            hits.len(),
                            got.iter().map(|x| x.f()).collect::<Vec<_>>(),
                            sorted[..k].iter().map(|x| x.f()).collect::<Vec<_>>(),
                            missing.iter().map(|x| x.f()).collect::<Vec<_>>(),
                            fmt_hits(&hits)
                        ),
                    );
                }
            }
        }
    }

    // ---- radius
    let mut radii: Vec<T> = Vec::new();
    let mut distinct: Vec<T> = sorted.clone();
    distinct.dedup_by(|a, b| a.bits() == b.bits());
    let ranks: Vec<usize> = if opts.all_radii || distinct.len() <= 12 {
        (0..distinct.len()).collect()
    } else {
        let m = distinct.len();
        let mut v = vec![0, 1, 2, 3, m / 4, m / 2, m - 2, m - 1];
        v.sort_unstable();
        v.dedup();
        v
    };
    for &i in &ranks {
        let x = distinct[i];
        radii.push(x.down());
        radii.push(x);
        radii.push(x.up());
        if i + 1 < distinct.len() {
            radii.push((x + distinct[i + 1]) / T::two());
        }
    }
    let far = sorted[n - 1] * T::two() + T::one();
    radii.push(far);
    radii.push(T::zero());
    radii.push(-T::zero());
    radii.push(-T::one());
    for &r in &radii {
        let res = mc::guard(|| s.within(q, r));
        let valid = r > T::zero();
        match res {
            Err(p) => {
                let suffix = if p.is_overflow_check() { ":overflow-check" } else { "" };
                viol("find_radius", &format!("panic{}", suffix), format!("r={:?}: {}", r.f(), p.brief()));
            }
            Ok(Err(e)) => {
                if valid {
                    viol("find_radius", "error-for-positive-radius", format!("r={:?} rejected: {}", r.f(), e));
                } else {
                    mc::count("err_radius_nonpositive");
                }
            }
            Ok(Ok(hits)) => {
                for e in &hits {
                    *digest = mc::hash::mix(mc::hash::mix(*digest, e.0 as u64 + 1000), e.1.bits());
                }
                if !valid {
                    viol("find_radius", "nonpositive-radius-accepted", format!("r={:?} must be reported as an error, returned {}", r.f(), fmt_hits(&hits)));
                    continue;
                }
                if let Some((clause, what)) = check_entries(cx, &hits) {
                    viol("find_radius", clause, format!("r={:?}: {}; returned {}", r.f(), what, fmt_hits(&hits)));
                    continue;
                }
                let mut got: Vec<usize> = hits.iter().map(|e| e.0).collect();
                got.sort_unstable();
                let want: Vec<usize> = (0..n).filter(|&i| d[i] <= r).collect();
                if got != want {
                    let missing: Vec<T> = want.iter().filter(|i| !got.contains(i)).map(|&i| d[i]).collect();
                    let clause = if missing.is_empty() { "point-beyond-radius-returned" } else { "point-within-radius-missing" };
                    viol_r(
                        only_boundary_rounding(cx, &missing, r, sorted[n - 1]),
                        "find_radius",
                        clause,
                        format!("r={:?}: returned indices {:?}, the points at distance <= r are {:?} (distances {:?})", r.f(), got, want, d.iter().map(|x| x.f()).collect::<Vec<_>>()),
                    );
                }
                if d.iter().any(|x| x.bits() == r.bits()) {
                    mc::count("radius_equals_a_distance");
                }
            }
        }
    }
}

fn with_metric<T: Fl, D: Distance<Vec<T>, T>>(dist: D, metric: Metric, data: &[Vec<f64>], query: &[f64], opts: &Opts) {
    let n = data.len();
    assert!(n >= 1 && n < 256);
    let pts: Vec<Vec<T>> = conv(data);
    let q: Vec<T> = query.iter().map(|x| T::of(*x)).collect();
    let class = data_class(data);
    let d_qx: Vec<T> = pts.iter().map(|x| dist.distance(&q, x)).collect();
    let d_xq: Vec<T> = pts.iter().map(|x| dist.distance(x, &q)).collect();
    let pair = |i: usize, j: usize| dist.distance(&pts[i], &pts[j]);
    let cx = Ctx { metric, class, data, pts: &pts, query, d_qx, d_xq, pair: &pair };

    // ---- counters (decided by the oracle from the input)
    {
        let d = &cx.d_qx;
        let mut sorted = d.clone();
        sorted.sort_by(|a, b| a.partial_cmp(b).unwrap());
        if sorted.windows(2).any(|w| w[0] == w[1]) {
            mc::count("tie_between_neighbours");
        }
        if sorted[0] == T::zero() {
            mc::count("query_coincides_with_a_point");
        }
        if d.windows(2).any(|w| w[1] < w[0]) {
            mc::count("knn_not_a_prefix_of_data_order");
        }
        match class {
            "with-duplicates" => mc::count("data_with_duplicates"),
            "all-identical" => mc::count("data_all_identical"),
            "single-point" => mc::count("data_single_point"),
            _ => {}
        }
    }

    let mut digest = 7u64;
    let mut built = 0;
    // ---- cover tree
    match mc::guard(|| CoverTree::new(pts.clone(), dist.clone())) {
        Err(p) => {
            let suffix = if p.is_overflow_check() { ":overflow-check" } else { "" };
            mc::violation(
                format!("covertree.new:{}:panic{}", class, suffix),
                format!(
                    "{} {} data={:?}: CoverTree::new panics: {}{}",
                    T::NAME,
                    metric.name(),
                    data,
                    p.brief(),
                    if p.is_overflow_check() { " (only in builds with arithmetic overflow checks, e.g. the dev/test profile; plain release wraps)" } else { "" }
                ),
            );
            mc::count("covertree_construction_failed");
        }
        Ok(Err(e)) => mc::violation(format!("covertree.new:{}:error", class), format!("{} {} data={:?}: CoverTree::new fails: {}", T::NAME, metric.name(), data, e)),
        Ok(Ok(t)) => {
            built += 1;
            run_structure(&cx, &t, &q, opts, &mut digest);
        }
    }
    // ---- exhaustive scan
    match mc::guard(|| LinearKNNSearch::new(pts.clone(), dist.clone())) {
        Err(p) => mc::violation(format!("linearsearch.new:{}:panic", class), format!("{} {} data={:?}: LinearKNNSearch::new panics: {}", T::NAME, metric.name(), data, p.brief())),
        Ok(Err(e)) => mc::violation(format!("linearsearch.new:{}:error", class), format!("{} {} data={:?}: LinearKNNSearch::new fails: {}", T::NAME, metric.name(), data, e)),
        Ok(Ok(t)) => {
            built += 1;
            run_structure(&cx, &t, &q, opts, &mut digest);
        }
    }
    if n >= 2 && built > 0 {
        mc::nontrivial();
    }
    mc::outcome(digest);
    mc::describe(|| {
        json!({
            "op": "CoverTree/LinearKNNSearch::{new,find,find_radius}", "type": T::NAME, "metric": metric.name(), "data": data, "query": query,
            "input_class": class, "distances_query_to_data": cx.d_qx.iter().map(|x| x.f()).collect::<Vec<_>>(),
            "structures_built": built, "k_values": if opts.all_k || n <= 12 { "0..=n+1" } else { "subset" },
            "radii": "each distinct realised distance d, its two floating-point neighbours, midpoints, beyond all, 0, -0, -1",
        })
    });
}

/// One execution of the search check: both structures on (data, query) under `metric`.
pub fn search_case<T: Fl>(metric: Metric, data: &[Vec<f64>], query: &[f64], opts: &Opts) {
    match metric {
        Metric::Euclid => with_metric::<T, _>(Distances::euclidian(), metric, data, query, opts),
        Metric::Manhattan => with_metric::<T, _>(Distances::manhattan(), metric, data, query, opts),
        Metric::Mink3 => with_metric::<T, _>(Distances::minkowski(3), metric, data, query, opts),
        Metric::Hamming => with_metric::<T, _>(Distances::hamming(), metric, data, query, opts),
    }
}
