//! Oracle for the k-NN classifier and regressor: the prediction must be the weighted plurality
//! class (resp. weighted mean) of SOME valid k-nearest set; ties at the k-th distance and plurality
//! ties are resolved in the library's favour.

use crate::data::Fl;
use crate::search::{data_class, Metric};
use mc_core::{self as mc, json};
use mc_sc::dm;
use smartcore::algorithm::neighbour::KNNAlgorithmName;
use smartcore::linalg::naive::dense_matrix::DenseMatrix;
use smartcore::math::distance::{Distance, Distances};
use smartcore::neighbors::knn_classifier::{KNNClassifier, KNNClassifierParameters};
use smartcore::neighbors::knn_regressor::{KNNRegressor, KNNRegressorParameters};
use smartcore::neighbors::KNNWeightFunction;

#[derive(Clone, Copy, PartialEq, Eq, Debug)]
pub enum Kind {
    Classifier,
    Regressor,
}

#[derive(Clone, Copy, Debug)]
pub struct Cfg {
    pub kind: Kind,
    pub metric: Metric,
    pub k: usize,
    pub distance_weighted: bool,
    pub cover_tree: bool,
    /// round 3 (label tables): count the rows all of whose nearest neighbours carry one inner label
    pub label_probe: bool,
}

/// Class of the label / target values, part of the site key of a wrong prediction: "" for small
/// integers (the round-1 tables), otherwise a suffix naming what is special about the values.
fn label_class(y: &[f64]) -> &'static str {
    if y.iter().any(|v| v.fract() != 0.0) {
        ":non-integer-labels"
    } else if y.iter().any(|v| v.abs() >= 10000.0) {
        ":large-labels"
    } else {
        ""
    }
}

impl Cfg {
    fn alg(&self) -> KNNAlgorithmName {
        if self.cover_tree {
            KNNAlgorithmName::CoverTree
        } else {
            KNNAlgorithmName::LinearSearch
        }
    }
    fn weight(&self) -> KNNWeightFunction {
        if self.distance_weighted {
            KNNWeightFunction::Distance
        } else {
            KNNWeightFunction::Uniform
        }
    }
    fn show(&self) -> String {
        format!(
            "{} k={} weight={} algorithm={}",
            self.metric.name(),
            self.k,
            if self.distance_weighted { "distance" } else { "uniform" },
            if self.cover_tree { "CoverTree" } else { "LinearSearch" }
        )
    }
}

/// All valid k-nearest index sets for the distances `d` (every point strictly closer than the k-th
/// distance, completed by any choice among the points exactly at the k-th distance), enumerated
/// lazily in increasing order of the tie mask.
struct ValidSets {
    below: Vec<usize>,
    tie: Vec<usize>,
    /// number of tied points every set takes
    m: usize,
    mask: u32,
}

fn valid_sets(d: &[f64], k: usize) -> ValidSets {
    let n = d.len();
    let mut s = d.to_vec();
    s.sort_by(|a, b| a.partial_cmp(b).unwrap());
    let dk = s[k - 1];
    let below: Vec<usize> = (0..n).filter(|&i| d[i] < dk).collect();
    let tie: Vec<usize> = (0..n).filter(|&i| d[i] == dk).collect();
    let m = k - below.len();
    assert!(tie.len() <= 20);
    ValidSets { below, tie, m, mask: 0 }
}

impl ValidSets {
    /// more than one valid set exists
    fn many(&self) -> bool {
        self.m > 0 && self.m < self.tie.len()
    }
}

impl Iterator for ValidSets {
    type Item = Vec<usize>;
    fn next(&mut self) -> Option<Vec<usize>> {
        let t = self.tie.len();
        while self.mask < (1u32 << t) {
            let mask = self.mask;
            self.mask += 1;
            if mask.count_ones() as usize != self.m {
                continue;
            }
            let mut set = self.below.clone();
            for (b, &i) in self.tie.iter().enumerate() {
                if mask >> b & 1 == 1 {
                    set.push(i);
                }
            }
            return Some(set);
        }
        None
    }
}

/// Reference weights of a neighbour set (an exact-match neighbour takes all the weight under
/// distance weighting).
fn weights(d: &[f64], set: &[usize], distance_weighted: bool) -> Vec<f64> {
    if !distance_weighted {
        return vec![1.0; set.len()];
    }
    if set.iter().any(|&i| d[i] == 0.0) {
        set.iter().map(|&i| if d[i] == 0.0 { 1.0 } else { 0.0 }).collect()
    } else {
        set.iter().map(|&i| 1.0 / d[i]).collect()
    }
}

struct RowVerdict {
    ok: bool,
    expected: String,
    many_sets: bool,
    plurality_tie: bool,
    exact_match: bool,
}

fn judge_row(kind: Kind, d: &[f64], y: &[f64], classes: &[f64], cfg: &Cfg, pred: f64, tol: f64) -> RowVerdict {
    let sets = valid_sets(d, cfg.k);
    let mut v = RowVerdict { ok: false, expected: String::new(), many_sets: sets.many(), plurality_tie: false, exact_match: false };
    // the first valid set that explains the prediction ends the search (flags then describe the
    // sets looked at so far); all sets are rendered only for a violation
    let mut votes: Vec<f64> = vec![0.0; classes.len()];
    for set in sets {
        let set = &set;
        let w = weights(d, set, cfg.distance_weighted);
        if cfg.distance_weighted && set.iter().any(|&i| d[i] == 0.0) {
            v.exact_match = true;
        }
        let wsum: f64 = w.iter().sum();
        match kind {
            Kind::Regressor => {
                let mean: f64 = set.iter().zip(&w).map(|(&i, wi)| y[i] * wi).sum::<f64>() / wsum;
                if (pred - mean).abs() <= tol {
                    v.ok = true;
                }
            }
            Kind::Classifier => {
                votes.iter_mut().for_each(|x| *x = 0.0);
                for (&i, wi) in set.iter().zip(&w) {
                    let c = classes.iter().position(|c| *c == y[i]).unwrap();
                    votes[c] += *wi / wsum;
                }
                let max = votes.iter().cloned().fold(0.0, f64::max);
                let mut winners = 0;
                for (c, &vt) in classes.iter().zip(&votes) {
                    if vt > 0.0 && vt >= max - tol {
                        winners += 1;
                        if *c == pred {
                            v.ok = true;
                        }
                    }
                }
                if winners > 1 {
                    v.plurality_tie = true;
                }
            }
        }
        if v.ok {
            return v;
        }
    }
    // violation: render what would have been acceptable
    let mut exp: Vec<String> = Vec::new();
    for set in valid_sets(d, cfg.k) {
        let set = &set;
        let w = weights(d, set, cfg.distance_weighted);
        let wsum: f64 = w.iter().sum();
        match kind {
            Kind::Regressor => exp.push(format!("{:?}", set.iter().zip(&w).map(|(&i, wi)| y[i] * wi).sum::<f64>() / wsum)),
            Kind::Classifier => {
                let votes: Vec<f64> = classes.iter().map(|c| set.iter().zip(&w).filter(|(&i, _)| y[i] == *c).map(|(_, wi)| *wi).sum::<f64>() / wsum).collect();
                let max = votes.iter().cloned().fold(0.0, f64::max);
                let winners: Vec<f64> = classes.iter().zip(&votes).filter(|(_, &vt)| vt > 0.0 && vt >= max - tol).map(|(c, _)| *c).collect();
                exp.push(format!("{:?}", winners));
            }
        }
    }
    exp.sort();
    exp.dedup();
    v.expected = exp.join(" | ");
    v
}

fn with_metric<T: Fl, D: Distance<Vec<T>, T>>(dist: D, data: &[Vec<f64>], y: &[f64], queries: &[Vec<f64>], cfg: &Cfg) {
    let n = data.len();
    let class = data_class(data);
    let x: DenseMatrix<T> = dm(data);
    let xq: DenseMatrix<T> = dm(queries);
    let yt: Vec<T> = y.iter().map(|v| T::of(*v)).collect();
    let (comp, what_kind) = match cfg.kind {
        Kind::Classifier => ("knnclassifier", "KNNClassifier"),
        Kind::Regressor => ("knnregressor", "KNNRegressor"),
    };
    let show = || format!("{} {} {} x={:?} y={:?}", T::NAME, what_kind, cfg.show(), data, y);
    let k = cfg.k;
    // what the statement says about this k
    let must_fail = k == 0 || k > n;
    let unspecified = cfg.kind == Kind::Classifier && k == 1; // neither required to work nor to fail
    let panic_site = |op: &str, p: &mc::PanicInfo| {
        let suffix = if p.is_overflow_check() { ":overflow-check" } else { "" };
        let note = if p.is_overflow_check() { " (only in builds with arithmetic overflow checks, e.g. the dev/test profile; plain release wraps)" } else { "" };
        mc::violation(format!("{}.{}:{}:panic{}", comp, op, class, suffix), format!("{}: {} panics: {}{}", show(), op, p.brief(), note));
    };

    // the reference distances use the same Distance object on the same converted values
    let pts: Vec<Vec<T>> = crate::search::conv(data);
    let qs: Vec<Vec<T>> = crate::search::conv(queries);

    // fit + predict (one call each), observations as plain data
    enum Obs {
        FitErr(String),
        PredictErr(String),
        Pred(Vec<f64>),
    }
    let obs = match cfg.kind {
        Kind::Classifier => {
            let params = KNNClassifierParameters::default().with_k(k).with_algorithm(cfg.alg()).with_weight(cfg.weight()).with_distance(dist.clone());
            match mc::guard(|| KNNClassifier::fit(&x, &yt, params)) {
                Err(p) => {
                    panic_site("fit", &p);
                    mc::count("estimator_fit_panicked");
                    return;
                }
                Ok(Err(e)) => Obs::FitErr(e.to_string()),
                Ok(Ok(m)) => match mc::guard(|| m.predict(&xq)) {
                    Err(p) => {
                        panic_site("predict", &p);
                        return;
                    }
                    Ok(Err(e)) => Obs::PredictErr(e.to_string()),
                    Ok(Ok(v)) => Obs::Pred(v.iter().map(|t| t.f()).collect()),
                },
            }
        }
        Kind::Regressor => {
            let params = KNNRegressorParameters::default().with_k(k).with_algorithm(cfg.alg()).with_weight(cfg.weight()).with_distance(dist.clone());
            match mc::guard(|| KNNRegressor::fit(&x, &yt, params)) {
                Err(p) => {
                    panic_site("fit", &p);
                    mc::count("estimator_fit_panicked");
                    return;
                }
                Ok(Err(e)) => Obs::FitErr(e.to_string()),
                Ok(Ok(m)) => match mc::guard(|| m.predict(&xq)) {
                    Err(p) => {
                        panic_site("predict", &p);
                        return;
                    }
                    Ok(Err(e)) => Obs::PredictErr(e.to_string()),
                    Ok(Ok(v)) => Obs::Pred(v.iter().map(|t| t.f()).collect()),
                },
            }
        }
    };

    let mut digest = 11u64;
    match &obs {
        Obs::FitErr(e) | Obs::PredictErr(e) => {
            digest = mc::hash::mix(digest, if matches!(obs, Obs::FitErr(_)) { 1 } else { 2 });
            if must_fail {
                mc::count(if k == 0 { "estimator_k_zero_rejected" } else { "estimator_k_gt_n_rejected" });
            } else if unspecified {
                mc::count("classifier_k_one_rejected");
            } else {
                let op = if matches!(obs, Obs::FitErr(_)) { "fit" } else { "predict" };
                mc::violation(format!("{}.{}:{}:error-for-valid-k", comp, op, class), format!("{}: {} fails for 1<=k<=n={}: {}", show(), op, n, e));
            }
        }
        Obs::Pred(pred) => {
            digest = mc::hash::mix(digest, mc::hash::h_f64s_rounded(pred, 12));
            if must_fail {
                mc::violation(
                    format!("{}.predict:{}:{}", comp, class, if k == 0 { "k-zero-accepted" } else { "k-gt-n-accepted" }),
                    format!("{}: k={} with n={} must be reported as an error, predictions {:?}", show(), k, n, pred),
                );
            } else if pred.len() != queries.len() {
                mc::violation(format!("{}.predict:{}:wrong-length", comp, class), format!("{}: {} predictions for {} query rows", show(), pred.len(), queries.len()));
            } else {
                let ymax = y.iter().fold(1.0f64, |m, v| m.max(v.abs()));
                let tol = if T::NAME == "f32" { 1e-5 } else { 1e-12 } * ymax;
                let mut classes: Vec<f64> = y.to_vec();
                classes.sort_by(|a, b| a.partial_cmp(b).unwrap());
                classes.dedup();
                for (r, q) in qs.iter().enumerate() {
                    let d: Vec<f64> = pts.iter().map(|p| dist.distance(q, p).f()).collect();
                    let v = judge_row(cfg.kind, &d, y, &classes, cfg, pred[r], if cfg.kind == Kind::Classifier { if T::NAME == "f32" { 1e-5 } else { 1e-12 } } else { tol });
                    if cfg.label_probe && cfg.kind == Kind::Classifier {
                        // every point at most as far as the k-th neighbour carries the same label, and
                        // that label is neither the smallest nor the largest one: whatever valid
                        // neighbour set is used, the only acceptable prediction is that inner label
                        let mut s = d.clone();
                        s.sort_by(|a, b| a.partial_cmp(b).unwrap());
                        let dk = s[k - 1];
                        let mut near = (0..n).filter(|&i| d[i] <= dk).map(|i| y[i]);
                        let first = near.next().unwrap();
                        if near.all(|l| l == first) && first > classes[0] && first < classes[classes.len() - 1] {
                            mc::count("lbl_rows_all_neighbours_one_inner_label");
                        }
                    }
                    if v.many_sets {
                        mc::count("est_rows_with_several_valid_neighbour_sets");
                    }
                    if v.plurality_tie {
                        mc::count("cls_rows_with_plurality_tie");
                    }
                    if v.exact_match {
                        mc::count("est_rows_exact_match_takes_all_weight");
                    }
                    if !v.ok {
                        let clause = match cfg.kind {
                            // "reported as an original label value": not even one of the labels of y
                            Kind::Classifier if !classes.iter().any(|c| *c == pred[r]) => "not-an-original-label",
                            Kind::Classifier => "not-a-plurality-class",
                            Kind::Regressor => "not-the-weighted-mean",
                        };
                        let wname = if cfg.distance_weighted { "distance-weighted" } else { "uniform" };
                        mc::violation(
                            format!("{}.predict:{}:{}:{}{}", comp, class, wname, clause, label_class(y)),
                            format!("{}: query {:?} (distances {:?}) predicted {:?}, acceptable over all valid {}-nearest sets: {}", show(), queries[r], d, pred[r], k, v.expected),
                        );
                    }
                }
                mc::nontrivial();
            }
        }
    }
    match class {
        "with-duplicates" => mc::count("est_data_with_duplicates"),
        "all-identical" => mc::count("est_data_all_identical"),
        "single-point" => mc::count("est_data_single_point"),
        _ => {}
    }
    mc::outcome(digest);
    mc::describe(|| {
        json!({
            "op": format!("{}::fit + predict", what_kind), "type": T::NAME, "x": data, "y": y, "queries": queries, "metric": cfg.metric.name(), "k": k,
            "weight": if cfg.distance_weighted { "distance" } else { "uniform" }, "algorithm": if cfg.cover_tree { "CoverTree" } else { "LinearSearch" },
            "input_class": class,
            "observed": match &obs { Obs::FitErr(e) => json!({"fit_error": e}), Obs::PredictErr(e) => json!({"predict_error": e}), Obs::Pred(p) => json!({"predictions": p}) },
        })
    });
}

/// One execution: fit one estimator on (data, y) and predict every query row.
pub fn est_case<T: Fl>(data: &[Vec<f64>], y: &[f64], queries: &[Vec<f64>], cfg: &Cfg) {
    match cfg.metric {
        Metric::Euclid => with_metric::<T, _>(Distances::euclidian(), data, y, queries, cfg),
        Metric::Manhattan => with_metric::<T, _>(Distances::manhattan(), data, y, queries, cfg),
        Metric::Mink3 => with_metric::<T, _>(Distances::minkowski(3), data, y, queries, cfg),
        Metric::Hamming => with_metric::<T, _>(Distances::hamming(), data, y, queries, cfg),
    }
}
