//! Round-3 extension ("label tables"): class-label tables with arbitrary real values for the k-NN
//! classifier, target tables with a large common offset for the regressor, and the class
//! assignment patterns used with them.
//!
//! The statement says a prediction is "a plurality class, reported as an original label value" for
//! arbitrary label values. A fit-time shortcut that maps a label to its class index arithmetically
//! (index = (y - min) as usize when max - min == #classes - 1) is wrong exactly for labels whose span
//! equals #classes - 1 but which are not unit-spaced; comparisons of labels with an absolute or
//! relative tolerance, or through a narrower type, are wrong for tiny / large adjacent labels.
//! Every member of the family below is enumerated (no sampling).

/// Classifier label tables (sorted ascending). "inner" labels = neither the smallest nor the largest.
pub const CLS_TABLES: [&[f64]; 7] = [
    // span = #classes - 1, not unit-spaced
    &[1.0, 1.5, 3.0],
    &[0.25, 0.75, 2.25],
    &[-1.5, -0.5, 0.25, 1.5],
    // unit-spaced with a fractional offset (the arithmetic shortcut is right here: control)
    &[0.5, 1.5, 2.5],
    // large adjacent integers (not representable in f32; 29 significant bits)
    &[300000001.0, 300000002.0, 300000005.0],
    // two classes far apart, negative
    &[-7.0, 2.0],
    // tiny labels (an absolute comparison tolerance merges them)
    &[0.001, 0.002, 0.004],
];

/// Regressor target tables with a large common offset.
pub const REG_TABLES: [&[f64]; 2] = [&[20000.0, 20001.0, 20003.0], &[20000.5, 20001.5, 20003.25]];

pub fn table(est: &str, t: usize) -> &'static [f64] {
    if est == "cls" {
        CLS_TABLES[t]
    } else {
        REG_TABLES[t]
    }
}

/// Indices of the tables of `est` usable with `n` points (every value must occur) in the float
/// type (`f32_`: only tables whose values are exactly representable in f32, so that the "original
/// label value" is the same number in the oracle and in the library; the offset target tables are
/// left to f64 because the f32 tolerance 1e-5*|y|max would exceed the effect of a wrong neighbour).
pub fn eligible(est: &str, n: usize, f32_: bool) -> Vec<usize> {
    let count = if est == "cls" { CLS_TABLES.len() } else { REG_TABLES.len() };
    (0..count)
        .filter(|&t| {
            let tb = table(est, t);
            tb.len() <= n && (!f32_ || (est == "cls" && tb.iter().all(|v| (*v as f32) as f64 == *v)))
        })
        .collect()
}

/// Every labelling of `n` points with `c` classes in which every class occurs (surjective maps
/// 0..n -> 0..c), in lexicographic order.
pub fn surjective(n: usize, c: usize) -> Vec<Vec<usize>> {
    let mut out = Vec::new();
    let total = c.pow(n as u32);
    for code in 0..total {
        let mut l = vec![0usize; n];
        let mut x = code;
        for slot in l.iter_mut().rev() {
            *slot = x % c;
            x /= c;
        }
        if (0..c).all(|k| l.contains(&k)) {
            out.push(l);
        }
    }
    out
}

/// Labelling of a structured point set by position in space: class of a point = floor(rank * c / n),
/// rank = position of the point in the lexicographic order of the coordinates (ties by index). The
/// points of one class are contiguous along the first coordinate, the inner classes lie in the
/// middle. Every class occurs when n >= c.
pub fn by_lexicographic_rank(data: &[Vec<f64>], c: usize) -> Vec<usize> {
    let n = data.len();
    let mut idx: Vec<usize> = (0..n).collect();
    idx.sort_by(|&a, &b| data[a].partial_cmp(&data[b]).unwrap().then(a.cmp(&b)));
    let mut cls = vec![0usize; n];
    for (rank, &i) in idx.iter().enumerate() {
        cls[i] = rank * c / n;
    }
    cls
}

/// The labels span exactly #classes - 1 but are not unit-spaced: the precondition under which an
/// arithmetic label -> index shortcut goes wrong.
pub fn span_trap(y: &[f64]) -> bool {
    let mut c: Vec<f64> = y.to_vec();
    c.sort_by(|a, b| a.partial_cmp(b).unwrap());
    c.dedup();
    let k = c.len();
    k >= 2 && c[k - 1] - c[0] == (k - 1) as f64 && c.windows(2).any(|w| w[1] - w[0] != 1.0)
}
