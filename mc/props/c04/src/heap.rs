//! E2: explicit-state search over the real `HeapSelection` (crate-private, re-exported by the
//! `verif-hooks` feature). The object cannot be rebuilt from a snapshot (its fields are private and
//! it has no such constructor), so a state carries a representative operation history from which
//! the real object is rebuilt; states are merged on the `Debug` rendering of the real object (which
//! shows every field: k, n, sorted, heap layout) together with the reference model's contents.

use mc_core::bfs::{BfsViol, Model};
use mc_core::{self as mc, json, Job, Value};
use smartcore::verif_hooks::HeapSelection;
use std::hash::{Hash, Hasher};

#[derive(Clone, Debug, PartialEq, Eq, Hash)]
pub enum Act {
    /// `add(v)`
    Add(u8),
    /// `heapify()` on whatever the heap holds
    Heapify,
    /// the pattern of `LinearKNNSearch::find`: `*peek_mut() = v` for a v smaller than the current
    /// root, followed by `heapify()` (enabled once k elements have been added)
    ReplaceRoot(u8),
}

#[derive(Clone, Debug)]
pub struct St {
    pub k: usize,
    pub hist: Vec<Act>,
    /// Debug rendering of the real object + reference contents + flags (the merge key)
    pub key: String,
}

impl PartialEq for St {
    fn eq(&self, o: &St) -> bool {
        self.key == o.key
    }
}
impl Eq for St {}
impl Hash for St {
    fn hash<H: Hasher>(&self, h: &mut H) {
        self.key.hash(h)
    }
}

/// What one replay of a history on the real object and on the reference model shows.
pub struct Run {
    pub debug: String,
    /// contents of the real heap in its internal order
    pub real: Vec<f64>,
    pub peek: Option<f64>,
    /// reference: the multiset the structure must hold, ascending
    pub model: Vec<f64>,
    /// number of `add` calls
    pub n_added: usize,
    pub last_replaced_root: bool,
    pub last_equal_to_root: bool,
    /// the last action was enabled in the state it was applied to
    pub last_enabled: bool,
    pub panic: Option<(String, mc::PanicInfo)>,
}

fn model_max(m: &[f64]) -> Option<f64> {
    m.iter().cloned().fold(None, |a, x| Some(a.map_or(x, |y: f64| y.max(x))))
}

pub fn replay(k: usize, hist: &[Act]) -> Run {
    let mut run = Run { debug: String::new(), real: Vec::new(), peek: None, model: Vec::new(), n_added: 0, last_replaced_root: false, last_equal_to_root: false, last_enabled: true, panic: None };
    let mut model: Vec<f64> = Vec::new();
    let mut n_added = 0usize;
    let mut flags = (false, false, true);
    let step = std::cell::Cell::new(0usize);
    let r = mc::guard(|| {
        let mut h: HeapSelection<f64> = HeapSelection::with_capacity(k);
        for a in hist {
            flags = (false, false, true);
            match a {
                Act::Add(v) => {
                    let v = *v as f64;
                    if model.len() < k {
                        model.push(v);
                    } else {
                        let mx = model_max(&model).unwrap();
                        if v < mx {
                            let i = model.iter().position(|x| *x == mx).unwrap();
                            model[i] = v;
                            flags.0 = true;
                        } else if v == mx {
                            flags.1 = true;
                        }
                    }
                    n_added += 1;
                    h.add(v);
                }
                Act::Heapify => h.heapify(),
                Act::ReplaceRoot(v) => {
                    let v = *v as f64;
                    let mx = model_max(&model);
                    if n_added >= k && mx.map_or(false, |m| v < m) {
                        let mx = mx.unwrap();
                        let i = model.iter().position(|x| *x == mx).unwrap();
                        model[i] = v;
                        flags.0 = true;
                        *h.peek_mut() = v;
                        h.heapify();
                    } else {
                        flags.2 = false;
                    }
                }
            }
            step.set(step.get() + 1);
        }
        let debug = format!("{:?}", h);
        let peek = if model.is_empty() { None } else { Some(*h.peek()) };
        (debug, peek, h.get())
    });
    model.sort_by(|a, b| a.partial_cmp(b).unwrap());
    run.model = model;
    run.n_added = n_added;
    run.last_replaced_root = flags.0;
    run.last_equal_to_root = flags.1;
    run.last_enabled = flags.2;
    match r {
        Ok((debug, peek, real)) => {
            run.debug = debug;
            run.peek = peek;
            run.real = real;
        }
        Err(p) => {
            let step = step.get();
            let op = match hist.get(step) {
                Some(Act::Add(_)) => "add",
                Some(Act::Heapify) => "heapify",
                Some(Act::ReplaceRoot(_)) => "peek_mut+heapify",
                None => "peek",
            };
            run.panic = Some((op.to_string(), p));
        }
    }
    run
}

/// The invariants of the state reached by `hist` (shared by the search and by the E1 replay).
pub fn check_hist(k: usize, hist: &[Act]) -> Vec<BfsViol> {
    let run = replay(k, hist);
    let mut out = Vec::new();
    let phase = if run.n_added < k { "filling" } else { "full" };
    let show = || format!("HeapSelection::with_capacity({}) after {:?}", k, hist);
    if let Some((op, p)) = &run.panic {
        let suffix = if p.is_overflow_check() { ":overflow-check" } else { "" };
        out.push(BfsViol { site: format!("heapselection.{}:{}:panic{}", op, phase, suffix), what: format!("{}: {}", show(), p.brief()) });
        return out;
    }
    let last = match hist.last() {
        Some(Act::Add(_)) => "add",
        Some(Act::Heapify) => "heapify",
        Some(Act::ReplaceRoot(_)) => "peek_mut+heapify",
        None => "with_capacity",
    };
    let mut real_sorted = run.real.clone();
    real_sorted.sort_by(|a, b| a.partial_cmp(b).unwrap());
    if real_sorted != run.model {
        out.push(BfsViol {
            site: format!("heapselection.{}:{}:contents-not-the-k-smallest", last, phase),
            what: format!("{}: holds {:?}, must hold {:?} ({})", show(), run.real, run.model, run.debug),
        });
    }
    if let (Some(p), Some(m)) = (run.peek, model_max(&run.model)) {
        if p != m {
            out.push(BfsViol { site: format!("heapselection.peek:{}:after-{}:not-the-maximum", phase, last), what: format!("{}: peek()={} but the largest element held must be {} ({})", show(), p, m, run.debug) });
        }
        // once k elements were added, slot 0 (what peek_mut hands out) must be the maximum
        if run.n_added >= k && !run.real.is_empty() && run.real[0] != m && real_sorted == run.model {
            out.push(BfsViol { site: format!("heapselection.peek_mut:{}:after-{}:root-not-the-maximum", phase, last), what: format!("{}: slot 0 holds {} but the maximum is {} ({})", show(), run.real[0], m, run.debug) });
        }
    }
    out
}

pub struct HeapModel {
    pub ks: Vec<usize>,
    pub values: Vec<u8>,
}

fn mk_state(k: usize, hist: Vec<Act>) -> St {
    let run = replay(k, &hist);
    let key = match &run.panic {
        None => format!("{} | model {:?} | {}{}", run.debug, run.model, run.last_replaced_root as u8, run.last_equal_to_root as u8),
        Some((op, p)) => format!("k={} PANIC in {} after {:?}: {}", k, op, hist, p.brief()),
    };
    St { k, hist, key }
}

impl Model for HeapModel {
    type State = St;
    type Action = Act;

    fn init(&self) -> Vec<St> {
        self.ks.iter().map(|&k| mk_state(k, Vec::new())).collect()
    }

    fn actions(&self, s: &St) -> Vec<Act> {
        if s.key.contains("PANIC") {
            return Vec::new();
        }
        let mut v: Vec<Act> = self.values.iter().map(|&x| Act::Add(x)).collect();
        v.push(Act::Heapify);
        v.extend(self.values.iter().map(|&x| Act::ReplaceRoot(x)));
        v
    }

    fn step(&self, s: &St, a: &Act) -> Option<St> {
        let mut h = s.hist.clone();
        h.push(a.clone());
        // not enabled: ReplaceRoot before the heap is full or with a value not below the root
        if let Act::ReplaceRoot(_) = a {
            if !replay(s.k, &h).last_enabled {
                return None;
            }
        }
        Some(mk_state(s.k, h))
    }

    fn check(&self, s: &St, _last: Option<(&St, &Act)>) -> Vec<BfsViol> {
        check_hist(s.k, &s.hist)
    }

    fn witnesses(&self, s: &St) -> Vec<&'static str> {
        let mut w = Vec::new();
        if s.key.ends_with("10") || s.key.ends_with("11") {
            w.push("heap_root_replaced");
        }
        if s.key.ends_with("01") {
            w.push("heap_element_equal_to_root_arrived");
        }
        if matches!(s.hist.last(), Some(Act::ReplaceRoot(_))) {
            w.push("heap_peek_mut_then_heapify");
        }
        if matches!(s.hist.last(), Some(Act::Heapify)) {
            w.push("heap_plain_heapify");
        }
        w
    }

    fn show_state(&self, s: &St) -> Value {
        json!({"k": s.k, "history": s.hist.iter().map(|a| format!("{:?}", a)).collect::<Vec<_>>(), "real_object_and_model": s.key})
    }

    fn replay_job(&self, init: &St, path: &[Act]) -> Job {
        Job::new("heap-replay", json!({"kind": "heap-replay", "k": init.k, "actions": path.iter().map(act_to_json).collect::<Vec<_>>()}))
    }
}

fn act_to_json(a: &Act) -> Value {
    match a {
        Act::Add(v) => json!({"add": v}),
        Act::Heapify => json!("heapify"),
        Act::ReplaceRoot(v) => json!({"replace_root": v}),
    }
}

pub fn acts_from_json(v: &Value) -> Vec<Act> {
    v.as_array()
        .expect("actions")
        .iter()
        .map(|a| {
            if let Some(x) = a.get("add") {
                Act::Add(x.as_u64().unwrap() as u8)
            } else if let Some(x) = a.get("replace_root") {
                Act::ReplaceRoot(x.as_u64().unwrap() as u8)
            } else {
                Act::Heapify
            }
        })
        .collect()
}

/// E1 entry point used by replay files of E2 violations: re-executes the path, checking the
/// invariants after every step.
pub fn replay_case(k: usize, acts: &[Act]) {
    for i in 0..=acts.len() {
        for v in check_hist(k, &acts[..i]) {
            mc::violation(v.site, v.what);
        }
    }
    let run = replay(k, acts);
    mc::nontrivial();
    mc::outcome(mc::hash::h_str(&run.debug));
    mc::describe(|| json!({"op": "HeapSelection history", "k": k, "actions": acts.iter().map(|a| format!("{:?}", a)).collect::<Vec<_>>(), "real_object": run.debug, "reference_contents": run.model, "peek": run.peek}));
}
