//! Round-2 extension: ring / annulus layouts around one centre point.
//!
//! The cover tree is built with element 0 as its root. The covering radius (`max_dist`) of a child
//! node can exceed that of its parent only for particular layouts: a centre with the other points on
//! a circle of radius r around it has root radius r, while a ring point adopts its ring neighbours
//! within the cover radius 1.3^ceil(log_1.3 r) >= r, so its own radius (a chord) can be larger than
//! r. The lattice / collinear / cluster families do not contain such layouts; this finite family
//! does, and every member of it is enumerated.

use crate::data::xf;
use crate::search::Metric;
use mc_core as mc;
use serde::Serialize;
use serde_json::Value;
use smartcore::algorithm::neighbour::cover_tree::CoverTree;
use smartcore::math::distance::{Distance, Distances};

/// The ring radii: 1, 1.1, 1.3, 1.3^2, 2 (the cover-tree base is 1.3, so 1.3 and 1.3^2 sit on
/// scale boundaries, 1.1 and 2 strictly inside a scale, 1 on the boundary 1.3^0).
pub fn radii() -> [f64; 5] {
    [1.0, 1.1, 1.3, 1.3 * 1.3, 2.0]
}

/// Second-ring options: (radius factor, angular offset in steps of 2 pi / m). Index 0 = no second
/// ring. The quick tier enumerates the first 5, the thorough tier all 7.
pub const RING2: [(f64, f64); 7] = [(0.0, 0.0), (2.0, 0.0), (2.0, 0.5), (0.5, 0.0), (0.5, 0.5), (2.0, 0.25), (0.5, 0.25)];
pub const NRING2_QUICK: usize = 5;
pub const NRING2_THOROUGH: usize = 7;

pub const ORDERS: [&str; 3] = ["ring order", "every second point first", "reversed"];

/// Distance of the near-ring queries from the first ring.
pub const DELTA: f64 = 0.0625;

/// Round to a multiple of 2^-20 (an exact binary fraction with at most 22 significant bits here).
fn rnd(x: f64) -> f64 {
    let y = (x * 1048576.0).round() / 1048576.0;
    if y == 0.0 {
        0.0
    } else {
        y
    }
}

#[derive(Clone, Copy, Debug)]
pub struct Layout {
    pub m: usize,
    pub r: f64,
    /// index into `RING2`
    pub ring2: usize,
    /// index into `ORDERS`
    pub order: usize,
    pub centre_last: bool,
    /// 2 or 3
    pub dim: usize,
}

/// Identity of a data point: (ring, position on the ring); ring 0 is the centre.
pub type Who = (usize, usize);

impl Layout {
    fn at(&self, radius: f64, pos: f64, z: f64) -> Vec<f64> {
        let a = 2.0 * std::f64::consts::PI * pos / self.m as f64;
        let mut p = vec![rnd(radius * a.cos()), rnd(radius * a.sin())];
        if self.dim == 3 {
            p.push(rnd(z));
        }
        p
    }

    /// 3-D: the first ring is a "crown" (odd positions lifted by r/2), the second ring lies in the
    /// plane z = -r/2; the centre is the origin.
    fn z1(&self, i: usize) -> f64 {
        if i % 2 == 1 {
            self.r / 2.0
        } else {
            0.0
        }
    }
    fn z2(&self) -> f64 {
        -self.r / 2.0
    }
    fn second(&self) -> Option<(f64, f64)> {
        if self.ring2 == 0 {
            None
        } else {
            Some((self.r * RING2[self.ring2].0, RING2[self.ring2].1))
        }
    }

    /// The data in construction order (before the seed map), with the identity of every point.
    pub fn points(&self) -> Vec<(Who, Vec<f64>)> {
        let mut ring: Vec<(Who, Vec<f64>)> = (0..self.m).map(|i| ((1, i), self.at(self.r, i as f64, self.z1(i)))).collect();
        if let Some((r2, off)) = self.second() {
            ring.extend((0..self.m).map(|i| ((2, i), self.at(r2, i as f64 + off, self.z2()))));
        }
        let len = ring.len();
        let perm: Vec<usize> = match self.order {
            0 => (0..len).collect(),
            1 => (0..len).step_by(2).chain((1..len).step_by(2)).collect(),
            _ => (0..len).rev().collect(),
        };
        let centre = ((0, 0), vec![0.0; self.dim]);
        let mut out = Vec::with_capacity(len + 1);
        if !self.centre_last {
            out.push(centre.clone());
        }
        out.extend(perm.iter().map(|&j| ring[j].clone()));
        if self.centre_last {
            out.push(centre);
        }
        out
    }

    pub fn data(&self, m: (f64, f64)) -> Vec<Vec<f64>> {
        self.points().into_iter().map(|(_, p)| p.iter().map(|c| xf(*c, m)).collect()).collect()
    }

    /// Queries: every data point (hence the centre), the arc midpoints of every ring, and points at
    /// radius r - DELTA and r + DELTA in 8 directions.
    pub fn queries(&self, m: (f64, f64)) -> Vec<Vec<f64>> {
        let mut q: Vec<Vec<f64>> = self.points().into_iter().map(|(_, p)| p).collect();
        for i in 0..self.m {
            q.push(self.at(self.r, i as f64 + 0.5, 0.0));
        }
        if let Some((r2, off)) = self.second() {
            for i in 0..self.m {
                q.push(self.at(r2, i as f64 + off + 0.5, self.z2()));
            }
        }
        for s in [-1.0, 1.0] {
            for dir in 0..8 {
                let a = std::f64::consts::PI * dir as f64 / 4.0;
                let rr = self.r + s * DELTA;
                let mut p = vec![rnd(rr * a.cos()), rnd(rr * a.sin())];
                if self.dim == 3 {
                    p.push(0.0);
                }
                q.push(p);
            }
        }
        q.iter().map(|p| p.iter().map(|c| xf(*c, m)).collect()).collect()
    }

    /// Labellings of the points (index into the class / target alphabet).
    /// 0: position on the ring modulo 3 (second ring shifted by one, centre = class 2);
    /// 1: half-planes (second coordinate >= 0 -> class 0, else class 1; centre = class 2).
    pub fn labels(&self, labelling: usize, nvalues: usize) -> Vec<usize> {
        self.points()
            .iter()
            .map(|((ring, i), p)| {
                let c = match (labelling, *ring) {
                    (_, 0) => 2,
                    (0, 1) => i % 3,
                    (0, _) => (i + 1) % 3,
                    _ => {
                        if p[1] >= 0.0 {
                            0
                        } else {
                            1
                        }
                    }
                };
                c % nvalues
            })
            .collect()
    }

    /// Round 3 (label tables): labelling by angular sector with `c` classes. A ring point at position
    /// i gets class floor(i * c / m) (both rings; a ring offset by a fraction of a step keeps the
    /// sector of its position), the centre gets the largest class. The points of an inner class are
    /// neighbours on the ring(s); every class occurs for every m >= 3 and c <= 4.
    pub fn sector_labels(&self, c: usize) -> Vec<usize> {
        self.points().iter().map(|((ring, i), _)| if *ring == 0 { c - 1 } else { (i * c / self.m).min(c - 1) }).collect()
    }
}

struct Inverted {
    /// index of the child's point
    child: usize,
    parent_radius: f64,
    /// indices of the points (leaves) below the child
    below: Vec<usize>,
}

fn leaves(node: &Value, out: &mut Vec<usize>) {
    let ch = node["children"].as_array().unwrap();
    if ch.is_empty() {
        out.push(node["idx"].as_u64().unwrap() as usize);
    }
    for c in ch {
        leaves(c, out);
    }
}

fn walk(node: &Value, out: &mut Vec<Inverted>) {
    let md = node["max_dist"].as_f64().unwrap();
    for c in node["children"].as_array().unwrap() {
        if c["max_dist"].as_f64().unwrap() > md {
            let mut below = Vec::new();
            leaves(c, &mut below);
            out.push(Inverted { child: c["idx"].as_u64().unwrap() as usize, parent_radius: md, below });
        }
        walk(c, out);
    }
}

thread_local! {
    /// (metric, data) of the last inspected tree and its inverted nodes: consecutive executions share
    /// the data set (the query is the last choice), the tree depends on (metric, data) only
    static LAST: std::cell::RefCell<Option<(Metric, Vec<Vec<f64>>, std::rc::Rc<Vec<Inverted>>)>> = std::cell::RefCell::new(None);
}

fn inverted_nodes<D: Distance<Vec<f64>, f64> + Serialize + Clone>(metric: Metric, dist: &D, data: &[Vec<f64>]) -> Option<std::rc::Rc<Vec<Inverted>>> {
    if let Some(hit) = LAST.with(|l| l.borrow().as_ref().filter(|(m, d, _)| *m == metric && d.as_slice() == data).map(|(_, _, inv)| inv.clone())) {
        return Some(hit);
    }
    let tree = match mc::guard(|| CoverTree::new(data.to_vec(), dist.clone())) {
        Ok(Ok(t)) => t,
        _ => return None, // judged by the search check itself
    };
    let v = serde_json::to_value(&tree).expect("CoverTree serialises");
    let mut inv = Vec::new();
    walk(&v["root"], &mut inv);
    let inv = std::rc::Rc::new(inv);
    LAST.with(|l| *l.borrow_mut() = Some((metric, data.to_vec(), inv.clone())));
    Some(inv)
}

fn inspect_with<D: Distance<Vec<f64>, f64> + Serialize + Clone>(metric: Metric, dist: D, data: &[Vec<f64>], query: &[f64]) {
    let inv = match inverted_nodes(metric, &dist, data) {
        Some(inv) => inv,
        None => return,
    };
    if inv.is_empty() {
        return;
    }
    mc::count("ring_tree_child_radius_exceeds_parent");
    // the query needs the child's own radius: some point x below such a child lies (strictly) closer
    // to the query than d(query, child) - radius(parent), so that for the radius d(query, x) of the
    // radius alphabet (and for the k with that k-th distance) a descent that pruned the child with
    // its parent's covering radius would lose x
    let q = query.to_vec();
    let needs = inv.iter().any(|n| {
        let dc = dist.distance(&data[n.child], &q);
        n.below.iter().any(|&x| {
            let dx = dist.distance(&data[x], &q);
            dx > 0.0 && dc > dx + n.parent_radius
        })
    });
    if needs {
        mc::count("ring_query_needs_child_radius");
    }
}

/// Non-vacuity probe (f64): look at the tree the library builds for `data` (through its serde
/// rendering; nothing is judged here) and count whether a child's radius exceeds its parent's.
pub fn inspect(metric: Metric, data: &[Vec<f64>], query: &[f64]) {
    match metric {
        Metric::Euclid => inspect_with(metric, Distances::euclidian(), data, query),
        Metric::Manhattan => inspect_with(metric, Distances::manhattan(), data, query),
        Metric::Mink3 => inspect_with(metric, Distances::minkowski(3), data, query),
        Metric::Hamming => inspect_with(metric, Distances::hamming(), data, query),
    }
}
