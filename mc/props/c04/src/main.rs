//! C04 — nearest-neighbour search is exact; k-NN estimators predict from exact neighbours.
//!
//! E1: every *sequence* (construction order matters) of points of small lattices x every query of
//! the half-step grid x every k x every realised radius (and its floating-point neighbours) x four
//! metrics x both search structures, judged against brute force with the same `Distance` object;
//! structured larger sets (n <= 200, 1..6 dimensions); the scale-boundary alphabet of the cover
//! tree; every labelling / k / weight / structure for the two estimators; ring layouts around a
//! centre point (round 2, `ring.rs`); real-valued class-label tables / offset target tables on
//! lattice multisets, ring layouts and structured sets (round 3, `labels.rs`).
//! E2: explicit-state search over the real `HeapSelection`.

mod data;
mod est;
mod heap;
mod labels;
mod ring;
mod search;

use data::*;
use mc_core::{self as mc, json, ExtraResult, Harness, Job, Plan, Tier, Value};
use search::{Metric, Opts};

struct C04;

const CLS_LABELS: [f64; 3] = [-3.0, 7.0, 10.0];
const CLS_LABELS2: [f64; 2] = [1.0, -1.0];
const REG_TARGETS: [f64; 3] = [0.0, 1.0, 3.0];

fn fixed_of(job: &Job) -> Vec<usize> {
    job.params["fixed"].as_array().map(|a| a.iter().map(|v| v.as_u64().unwrap() as usize).collect()).unwrap_or_default()
}

/// Draw the points of a lattice sequence: the first ones are fixed by the job, the others chosen.
fn draw_points(job: &Job, n: usize, letters: usize) -> Vec<usize> {
    let mut p = fixed_of(job);
    while p.len() < n {
        p.push(mc::choose(letters));
    }
    p
}

/// Ring layout of a job: m, radius and dimension are fixed by the job; second ring, order and the
/// position of the centre are chosen.
fn ring_layout(job: &Job) -> ring::Layout {
    let ring2 = mc::choose(job.u("nring2"));
    let order = mc::choose(ring::ORDERS.len());
    let centre_last = mc::choose(2) == 1;
    ring::Layout { m: job.u("m"), r: ring::radii()[job.u("ri")], ring2, order, centre_last, dim: job.u("dim") }
}

fn run_ring_est<T: Fl>(job: &Job, seed: u64) {
    let m = seed_map(seed);
    let metric = Metric::parse(job.s("metric"));
    let kind = if job.s("est") == "cls" { est::Kind::Classifier } else { est::Kind::Regressor };
    let values: Vec<f64> = job.params["values"].as_array().unwrap().iter().map(|v| v.as_f64().unwrap()).collect();
    let lay = ring_layout(job);
    let labelling = mc::choose(job.u("nlabellings"));
    let data = lay.data(m);
    let n = data.len();
    let y: Vec<f64> = lay.labels(labelling, values.len()).iter().map(|&c| values[c]).collect();
    let k = mc::choose(n + 2);
    let distance_weighted = mc::choose(2) == 1;
    let cover_tree = mc::choose(2) == 0;
    mc::count("ring_estimator_executions");
    est::est_case::<T>(&data, &y, &lay.queries(m), &est::Cfg { kind, metric, k, distance_weighted, cover_tree, label_probe: false });
}

/// Round 3: the choices shared by the label-table executions, drawn after the data set is known:
/// table (among those usable with n points in this float type), then k in 1..=n, weight, structure.
/// `labelling(c)` draws / computes the class index of every point for a table with c values.
fn run_label_case<T: Fl>(job: &Job, metric: Metric, data: &[Vec<f64>], queries: &[Vec<f64>], labelling: impl FnOnce(usize) -> Vec<usize>) {
    let est = job.s("est");
    let kind = if est == "cls" { est::Kind::Classifier } else { est::Kind::Regressor };
    let n = data.len();
    let tables = labels::eligible(est, n, T::NAME == "f32");
    if tables.is_empty() {
        return;
    }
    let values = labels::table(est, tables[mc::choose(tables.len())]);
    let y: Vec<f64> = labelling(values.len()).iter().map(|&c| values[c]).collect();
    let k = 1 + mc::choose(n);
    let distance_weighted = mc::choose(2) == 1;
    let cover_tree = mc::choose(2) == 0;
    mc::count("lbl_executions");
    match kind {
        est::Kind::Classifier => {
            if labels::span_trap(&y) {
                mc::count("lbl_span_is_classes_minus_one_not_unit_spaced");
            }
        }
        est::Kind::Regressor => mc::count("lbl_offset_target_executions"),
    }
    est::est_case::<T>(data, &y, queries, &est::Cfg { kind, metric, k, distance_weighted, cover_tree, label_probe: true });
}

thread_local! {
    /// surjective labellings per (n, c), computed once per worker
    static SURJ: std::cell::RefCell<std::collections::BTreeMap<(usize, usize), std::rc::Rc<Vec<Vec<usize>>>>> = std::cell::RefCell::new(Default::default());
}

fn surjective(n: usize, c: usize) -> std::rc::Rc<Vec<Vec<usize>>> {
    SURJ.with(|s| s.borrow_mut().entry((n, c)).or_insert_with(|| std::rc::Rc::new(labels::surjective(n, c))).clone())
}

/// Round 3, lattice multisets: non-decreasing point sequences (the first points may be fixed by the
/// job) x table x every labelling in which every value of the table occurs.
fn run_lbl<T: Fl>(job: &Job, seed: u64) {
    let m = seed_map(seed);
    let metric = Metric::parse(job.s("metric"));
    let n = job.u("n");
    let dim = job.u("dim");
    let letters = if dim == 2 { 9 } else { 5 };
    let mut p = fixed_of(job);
    while p.len() < n {
        let lo = p.last().copied().unwrap_or(0);
        p.push(lo + mc::choose(letters - lo));
    }
    let (data, queries): (Vec<Vec<f64>>, Vec<Vec<f64>>) = if dim == 2 {
        (p.iter().map(|&i| lat2(i, m)).collect(), (0..NQ2).map(|q| qgrid2(q, m)).collect())
    } else {
        (p.iter().map(|&i| lat1(i, m)).collect(), (0..NQ1).map(|q| qgrid1(q, m)).collect())
    };
    run_label_case::<T>(job, metric, &data, &queries, |c| {
        let all = surjective(n, c);
        all[mc::choose(all.len())].clone()
    });
}

/// Round 3, ring layouts with the sector labelling.
fn run_ring_lbl<T: Fl>(job: &Job, seed: u64) {
    let m = seed_map(seed);
    let metric = Metric::parse(job.s("metric"));
    let lay = ring_layout(job);
    run_label_case::<T>(job, metric, &lay.data(m), &lay.queries(m), |c| lay.sector_labels(c));
}

/// Round 3, structured sets labelled by lexicographic rank.
fn run_fam_lbl<T: Fl>(job: &Job, seed: u64) {
    let metric = Metric::parse(job.s("metric"));
    let data = family(job.s("family"), job.u("n"), job.u("dim"), seed);
    let queries = family_queries(&data);
    run_label_case::<T>(job, metric, &data, &queries, |c| labels::by_lexicographic_rank(&data, c));
}

fn run_search<T: Fl>(job: &Job, seed: u64) {
    let m = seed_map(seed);
    let metric = Metric::parse(job.s("metric"));
    let n = job.params["n"].as_u64().unwrap_or(0) as usize;
    match job.kind() {
        "ring" => {
            // round 2: centre + one or two rings; the remaining layout choices and the query are drawn here
            let lay = ring_layout(job);
            let data = lay.data(m);
            let queries = lay.queries(m);
            let q = mc::choose(queries.len());
            mc::count("ring_search_executions");
            if T::NAME == "f64" {
                ring::inspect(metric, &data, &queries[q]);
            }
            search::search_case::<T>(metric, &data, &queries[q], &Opts { all_radii: true, all_k: true });
        }
        "lat2" => {
            let p = draw_points(job, n, 9);
            let q = mc::choose(NQ2);
            let data: Vec<Vec<f64>> = p.iter().map(|&i| lat2(i, m)).collect();
            search::search_case::<T>(metric, &data, &qgrid2(q, m), &Opts { all_radii: true, all_k: true });
        }
        "lat1" => {
            let p = draw_points(job, n, 5);
            let q = mc::choose(NQ1);
            let data: Vec<Vec<f64>> = p.iter().map(|&i| lat1(i, m)).collect();
            search::search_case::<T>(metric, &data, &qgrid1(q, m), &Opts { all_radii: true, all_k: true });
        }
        "scale" => {
            let a = scale_alphabet();
            let p = draw_points(job, n, a.len());
            // queries: every letter and 0.5
            let q = mc::choose(a.len() + 1);
            let data: Vec<Vec<f64>> = p.iter().map(|&i| vec![a[i]]).collect();
            let query = vec![if q < a.len() { a[q] } else { 0.5 }];
            search::search_case::<T>(metric, &data, &query, &Opts { all_radii: true, all_k: true });
        }
        "fam" => {
            let data = family(job.s("family"), n, job.u("dim"), seed);
            let queries = family_queries(&data);
            let step = job.u("qstep").max(1);
            let idx: Vec<usize> = (0..queries.len()).filter(|i| i % step == 0 || *i + 2 >= queries.len()).collect();
            let q = idx[mc::choose(idx.len())];
            search::search_case::<T>(metric, &data, &queries[q], &Opts { all_radii: job.b("all_radii"), all_k: job.b("all_k") });
        }
        other => panic!("unknown job kind {}", other),
    }
}

fn run_est<T: Fl>(job: &Job, seed: u64) {
    // a job may carry its own (scale, offset) for the lattice instead of the seed's
    let m = match job.params.get("map").and_then(|v| v.as_array()) {
        Some(a) => (a[0].as_f64().unwrap(), a[1].as_f64().unwrap()),
        None => seed_map(seed),
    };
    let metric = Metric::parse(job.s("metric"));
    let n = job.u("n");
    let dim = job.u("dim");
    let kind = if job.s("est") == "cls" { est::Kind::Classifier } else { est::Kind::Regressor };
    let p = draw_points(job, n, if dim == 2 { 9 } else { 5 });
    let values: Vec<f64> = job.params["values"].as_array().unwrap().iter().map(|v| v.as_f64().unwrap()).collect();
    let y: Vec<f64> = (0..n).map(|_| mc::pick(&values)).collect();
    let k = mc::choose(n + 2);
    let distance_weighted = mc::choose(2) == 1;
    let cover_tree = mc::choose(2) == 0;
    let (data, queries): (Vec<Vec<f64>>, Vec<Vec<f64>>) = if dim == 2 {
        (p.iter().map(|&i| lat2(i, m)).collect(), (0..NQ2).map(|q| qgrid2(q, m)).collect())
    } else {
        (p.iter().map(|&i| lat1(i, m)).collect(), (0..NQ1).map(|q| qgrid1(q, m)).collect())
    };
    est::est_case::<T>(&data, &y, &queries, &est::Cfg { kind, metric, k, distance_weighted, cover_tree, label_probe: false });
}

fn heap_model(tier: Tier) -> (heap::HeapModel, usize) {
    if tier.is_thorough() {
        (heap::HeapModel { ks: vec![1, 2, 3, 4, 5, 6, 7], values: vec![0, 1, 2, 3, 4, 5] }, 11)
    } else {
        (heap::HeapModel { ks: vec![1, 2, 3, 4, 5], values: vec![0, 1, 2, 3, 4] }, 8)
    }
}

impl Harness for C04 {
    fn id(&self) -> &'static str {
        "C04"
    }

    fn plan(&self, tier: Tier, seed: u64) -> Plan {
        let t = tier.is_thorough();
        let mut jobs: Vec<Job> = Vec::new();
        let all = Metric::ALL;
        let search_job = |kind: &str, n: usize, metric: Metric, fixed: &[usize], f32_: bool| {
            let fx: Vec<String> = fixed.iter().map(|x| x.to_string()).collect();
            Job::new(
                format!("{}-n{}-{}{}{}", kind, n, metric.name(), if f32_ { "-f32" } else { "" }, if fixed.is_empty() { String::new() } else { format!("-p{}", fx.join("_")) }),
                json!({"kind": kind, "n": n, "metric": metric.name(), "fixed": fixed, "f32": f32_, "seed": seed}),
            )
        };
        // ---- 3x3 lattice, every sequence
        let (lat2_all_metrics, lat2_manhattan, lat2_euclid) = if t { (6, 6, 7) } else { (4, 5, 5) };
        for n in 1..=lat2_euclid {
            for &metric in &all {
                // beyond the all-metrics bound: Euclidean (inexact distances) and, one step less far in
                // the thorough tier, Manhattan (exact arithmetic)
                if n > lat2_all_metrics && !(metric == Metric::Euclid || (metric == Metric::Manhattan && n <= lat2_manhattan)) {
                    continue;
                }
                match n {
                    1..=3 => jobs.push(search_job("lat2", n, metric, &[], false)),
                    4 | 5 => (0..9).for_each(|a| jobs.push(search_job("lat2", n, metric, &[a], false))),
                    6 => (0..81).for_each(|a| jobs.push(search_job("lat2", n, metric, &[a / 9, a % 9], false))),
                    _ => (0..729).for_each(|a| jobs.push(search_job("lat2", n, metric, &[a / 81, a / 9 % 9, a % 9], false))),
                }
            }
        }
        // ---- 1-D lattice, every sequence
        let lat1_max = if t { 8 } else { 5 };
        for n in 1..=lat1_max {
            for &metric in &all {
                match n {
                    1..=5 => jobs.push(search_job("lat1", n, metric, &[], false)),
                    6 => (0..5).for_each(|a| jobs.push(search_job("lat1", n, metric, &[a], false))),
                    _ => (0..25).for_each(|a| jobs.push(search_job("lat1", n, metric, &[a / 5, a % 5], false))),
                }
            }
        }
        // ---- f32 on the small lattices
        for n in 1..=(if t { 5 } else { 3 }) {
            for &metric in &all {
                if n <= 3 {
                    jobs.push(search_job("lat2", n, metric, &[], true));
                } else {
                    (0..9).for_each(|a| jobs.push(search_job("lat2", n, metric, &[a], true)));
                }
            }
        }
        // ---- scale-boundary alphabet of the cover tree (1-D, continuous values)
        let nletters = scale_alphabet().len();
        for n in 2..=(if t { 4 } else { 3 }) {
            for metric in [Metric::Euclid, Metric::Manhattan] {
                if n <= 2 {
                    jobs.push(search_job("scale", n, metric, &[], false));
                } else if n == 3 {
                    (0..nletters).for_each(|a| jobs.push(search_job("scale", n, metric, &[a], false)));
                } else {
                    (0..nletters * nletters).for_each(|a| jobs.push(search_job("scale", n, metric, &[a / nletters, a % nletters], false)));
                }
            }
        }
        // ---- estimators
        let est_job = |est: &str, dim: usize, n: usize, metric: Metric, fixed: &[usize], values: &[f64], f32_: bool| {
            let fx: Vec<String> = fixed.iter().map(|x| x.to_string()).collect();
            Job::new(
                format!("est-{}-d{}-n{}-{}-v{}{}{}", est, dim, n, metric.name(), values.len(), if f32_ { "-f32" } else { "" }, if fixed.is_empty() { String::new() } else { format!("-p{}", fx.join("_")) }),
                json!({"kind": "est", "est": est, "dim": dim, "n": n, "metric": metric.name(), "fixed": fixed, "values": values, "f32": f32_, "seed": seed}),
            )
        };
        let est_metrics: &[Metric] = if t { &all } else { &[Metric::Euclid, Metric::Hamming] };
        let (est1_max, est2_max) = if t { (5, 4) } else { (4, 3) };
        for n in 1..=est1_max.max(est2_max) {
            for &metric in est_metrics {
                for (est, values) in [("cls", &CLS_LABELS[..]), ("reg", &REG_TARGETS[..]), ("cls", &CLS_LABELS2[..])] {
                    if values.len() == 2 && (metric != Metric::Euclid) {
                        continue;
                    }
                    if n <= est1_max {
                        // 5 points: Euclidean and Hamming only (the extremes: few ties / almost only ties)
                        if n <= 3 {
                            jobs.push(est_job(est, 1, n, metric, &[], values, false));
                        } else if n == 4 {
                            (0..5).for_each(|a| jobs.push(est_job(est, 1, n, metric, &[a], values, false)));
                        } else if metric == Metric::Euclid || metric == Metric::Hamming {
                            (0..25).for_each(|a| jobs.push(est_job(est, 1, n, metric, &[a / 5, a % 5], values, false)));
                        }
                    }
                    if n <= est2_max {
                        if n <= 2 {
                            jobs.push(est_job(est, 2, n, metric, &[], values, false));
                        } else {
                            (0..9).for_each(|a| jobs.push(est_job(est, 2, n, metric, &[a], values, false)));
                        }
                    }
                }
            }
        }
        // f32 estimators on the smallest spaces
        for n in 1..=3 {
            for (est, values) in [("cls", &CLS_LABELS[..]), ("reg", &REG_TARGETS[..])] {
                jobs.push(est_job(est, 1, n, Metric::Euclid, &[], values, true));
            }
        }
        // round 9: the same f32 spaces with the lattice step at 2^29 (every distance >= 2.6e8, so the
        // inverse-distance weights of a row sum to less than the f32 machine epsilon) and at 2^-24
        for (tag, sc) in [("far", 536870912.0f64), ("near", 0.000000059604644775390625f64)] {
            for n in 1..=3 {
                for (est, values) in [("cls", &CLS_LABELS[..]), ("reg", &REG_TARGETS[..])] {
                    let mut j = est_job(est, 1, n, Metric::Euclid, &[], values, true);
                    j.name = format!("{}-{}", j.name, tag);
                    j.params["map"] = json!([sc, 0.0]);
                    jobs.push(j);
                }
            }
        }
        // ---- structured larger sets
        let sizes: &[usize] = if t { &[8, 27, 64, 125, 200] } else { &[8, 27, 64, 125] };
        let dims: &[usize] = if t { &[1, 2, 3, 4, 5, 6] } else { &[1, 2, 3, 6] };
        for &n in sizes {
            for &dim in dims {
                for fam in FAMILIES {
                    for &metric in &all {
                        if !t && !(metric == Metric::Euclid || (metric == Metric::Manhattan && dim == 2) || (metric == Metric::Hamming && dim == 3) || (metric == Metric::Mink3 && dim == 6)) {
                            continue;
                        }
                        let qstep = if t { 1 } else if n > 64 { 6 } else if n > 27 { 3 } else { 1 };
                        jobs.push(Job::new(
                            format!("fam-{}-n{}-d{}-{}", fam, n, dim, metric.name()),
                            json!({"kind": "fam", "family": fam, "n": n, "dim": dim, "metric": metric.name(), "qstep": qstep, "all_k": t && n <= 125, "all_radii": t && n <= 64, "f32": false, "seed": seed}),
                        ));
                    }
                }
            }
        }
        // ---- round 2: ring / annulus layouts around one centre point (see ring.rs)
        // Inverted nodes (child radius > parent radius) need >= 14 points per ring in 2-D on this tree
        // (a ring point must adopt a neighbour 40..54 degrees away that in turn adopts one beyond 60
        // degrees), so the quick tier adds m = 15, 16 (Euclidean, 2-D) to the small rings m = 3..=8.
        let ring_m_max = if t { 16 } else { 8 };
        let ring_m_large: &[usize] = if t { &[] } else { &[15, 16] };
        let ring_est_m_max = if t { 12 } else { 8 };
        let nring2 = if t { ring::NRING2_THOROUGH } else { ring::NRING2_QUICK };
        let nlabellings = if t { 2 } else { 1 };
        // (dim, metric, f32)
        let mut ring_search: Vec<(usize, Metric, bool)> = vec![(2, Metric::Euclid, false), (2, Metric::Manhattan, false), (3, Metric::Euclid, false)];
        let mut ring_est: Vec<(usize, Metric)> = vec![(2, Metric::Euclid)];
        if t {
            ring_search = Vec::new();
            for dim in [2, 3] {
                all.iter().for_each(|&mt| ring_search.push((dim, mt, false)));
                ring_search.push((dim, Metric::Euclid, true));
            }
            // no Hamming for the estimators: all ring points tie there, the oracle enumerates subsets of ties
            ring_est = vec![(2, Metric::Euclid), (2, Metric::Manhattan), (3, Metric::Euclid), (3, Metric::Manhattan)];
        }
        let ring_job = |dim: usize, mm: usize, ri: usize, metric: Metric, f32_: bool| {
            Job::new(
                format!("ring-d{}-m{}-r{}-{}{}", dim, mm, ri, metric.name(), if f32_ { "-f32" } else { "" }),
                json!({"kind": "ring", "dim": dim, "m": mm, "ri": ri, "metric": metric.name(), "nring2": nring2, "f32": f32_, "seed": seed}),
            )
        };
        for mm in 3..=ring_m_max {
            for &(dim, metric, f32_) in &ring_search {
                (0..ring::radii().len()).for_each(|ri| jobs.push(ring_job(dim, mm, ri, metric, f32_)));
            }
            if mm > ring_est_m_max {
                continue;
            }
            for &(dim, metric) in &ring_est {
                for (est, values) in [("cls", &CLS_LABELS[..]), ("reg", &REG_TARGETS[..]), ("cls", &CLS_LABELS2[..])] {
                    if values.len() == 2 && !(t && metric == Metric::Euclid) {
                        continue;
                    }
                    for ri in 0..ring::radii().len() {
                        jobs.push(Job::new(
                            format!("ringknn-{}-d{}-m{}-r{}-{}-v{}", est, dim, mm, ri, metric.name(), values.len()),
                            json!({"kind": "ringknn", "est": est, "dim": dim, "m": mm, "ri": ri, "metric": metric.name(), "nring2": nring2, "nlabellings": nlabellings, "values": values, "f32": false, "seed": seed}),
                        ));
                    }
                }
            }
        }
        for &mm in ring_m_large {
            (0..ring::radii().len()).for_each(|ri| jobs.push(ring_job(2, mm, ri, Metric::Euclid, false)));
            // estimators on the large rings: single ring only (n = m + 1)
            for (est, values) in [("cls", &CLS_LABELS[..]), ("reg", &REG_TARGETS[..])] {
                for ri in 0..ring::radii().len() {
                    jobs.push(Job::new(
                        format!("ringknn-{}-d2-m{}-r{}-euclidean-v{}-single", est, mm, ri, values.len()),
                        json!({"kind": "ringknn", "est": est, "dim": 2, "m": mm, "ri": ri, "metric": "euclidean", "nring2": 1, "nlabellings": 1, "values": values, "f32": false, "seed": seed}),
                    ));
                }
            }
        }
        // ---- round 3: real-valued label tables / offset target tables (see labels.rs)
        // lattice multisets (non-decreasing sequences) x table x every labelling onto the table
        let lbl_job = |est: &str, dim: usize, n: usize, metric: Metric, fixed: &[usize], f32_: bool| {
            let fx: Vec<String> = fixed.iter().map(|x| x.to_string()).collect();
            Job::new(
                format!("lbl-{}-d{}-n{}-{}{}{}", est, dim, n, metric.name(), if f32_ { "-f32" } else { "" }, if fixed.is_empty() { String::new() } else { format!("-p{}", fx.join("_")) }),
                json!({"kind": "lbl", "est": est, "dim": dim, "n": n, "metric": metric.name(), "fixed": fixed, "f32": f32_, "seed": seed}),
            )
        };
        let (lbl1_max, lbl2_max) = if t { (5, 4) } else { (4, 3) };
        // quick: Euclidean and Hamming up to 3 points, the largest size Euclidean only
        let lbl_metrics = |n: usize, max: usize| -> Vec<Metric> {
            if t {
                if n == 5 {
                    vec![Metric::Euclid, Metric::Hamming]
                } else {
                    all.to_vec()
                }
            } else if n < max {
                vec![Metric::Euclid, Metric::Hamming]
            } else {
                vec![Metric::Euclid]
            }
        };
        for n in 2..=lbl1_max.max(lbl2_max) {
            for est in ["cls", "reg"] {
                // no table is usable with fewer points than it has values (the target tables have 3)
                if labels::eligible(est, n, false).is_empty() {
                    continue;
                }
                if n <= lbl1_max {
                    for metric in lbl_metrics(n, lbl1_max) {
                        if n <= 3 {
                            jobs.push(lbl_job(est, 1, n, metric, &[], false));
                        } else {
                            (0..5).for_each(|a| jobs.push(lbl_job(est, 1, n, metric, &[a], false)));
                        }
                    }
                }
                if n <= lbl2_max {
                    for metric in lbl_metrics(n, lbl2_max) {
                        if n <= 2 {
                            jobs.push(lbl_job(est, 2, n, metric, &[], false));
                        } else {
                            (0..9).for_each(|a| jobs.push(lbl_job(est, 2, n, metric, &[a], false)));
                        }
                    }
                }
            }
            if n <= 3 {
                jobs.push(lbl_job("cls", 1, n, Metric::Euclid, &[], true));
            }
        }
        // ring layouts with the sector labelling
        let lbl_ring_radii: &[usize] = if t { &[0, 1, 2, 3, 4] } else { &[1] };
        let lbl_ring_m_max = if t { 12 } else { 8 };
        let lbl_ring: &[(usize, Metric)] = if t { &[(2, Metric::Euclid), (2, Metric::Manhattan), (3, Metric::Euclid)] } else { &[(2, Metric::Euclid)] };
        for mm in 3..=lbl_ring_m_max {
            for &(dim, metric) in lbl_ring {
                for est in ["cls", "reg"] {
                    for &ri in lbl_ring_radii {
                        jobs.push(Job::new(
                            format!("ringlbl-{}-d{}-m{}-r{}-{}", est, dim, mm, ri, metric.name()),
                            json!({"kind": "ringlbl", "est": est, "dim": dim, "m": mm, "ri": ri, "metric": metric.name(), "nring2": nring2, "f32": false, "seed": seed}),
                        ));
                    }
                }
            }
        }
        // structured sets labelled by lexicographic rank
        let lbl_fam_sizes: &[usize] = if t { &[8, 16] } else { &[8] };
        for &n in lbl_fam_sizes {
            for &dim in dims {
                for fam in FAMILIES {
                    for &metric in &all {
                        // n = 16: no Hamming / all-identical sets (ties among all 16 points, the oracle enumerates subsets of ties)
                        if n > 8 && (metric == Metric::Hamming || *fam == "identical") {
                            continue;
                        }
                        if !t && !(metric == Metric::Euclid || (metric == Metric::Manhattan && dim == 2) || (metric == Metric::Hamming && dim == 3) || (metric == Metric::Mink3 && dim == 6)) {
                            continue;
                        }
                        for est in ["cls", "reg"] {
                            jobs.push(Job::new(
                                format!("famlbl-{}-{}-n{}-d{}-{}", est, fam, n, dim, metric.name()),
                                json!({"kind": "famlbl", "est": est, "family": fam, "n": n, "dim": dim, "metric": metric.name(), "f32": false, "seed": seed}),
                            ));
                        }
                    }
                }
            }
        }
        let jobs = {
            let mut j: Vec<Job> = jobs;
            j.insert(0, Job::new("builders", json!({"kind": "builders"})));
            for i in 0..mc_sc::entry::n_parts("C04") {
                j.insert(1 + i, Job::new(format!("entry-{}", i), json!({"kind": "entry", "part": i})));
            }
            j
        };
        Plan {
            jobs,
            budget_s: if t { 2400 } else { 40 },
            case_deadline_ms: 20_000,
            // about a tenth of what the quick tier counts at seed 0
            floors: vec![
                ("builder_chains", 5),
                ("entry_cases", 1000),
                ("tie_between_neighbours", 300_000),
                ("query_coincides_with_a_point", 50_000),
                ("knn_not_a_prefix_of_data_order", 300_000),
                ("data_with_duplicates", 200_000),
                ("data_all_identical", 800),
                ("data_single_point", 200),
                ("err_k_zero", 800_000),
                ("err_k_gt_n", 800_000),
                ("err_radius_nonpositive", 2_000_000),
                ("radius_equals_a_distance", 2_000_000),
                ("estimator_k_zero_rejected", 100_000),
                ("estimator_k_gt_n_rejected", 100_000),
                ("est_rows_with_several_valid_neighbour_sets", 2_000_000),
                ("cls_rows_with_plurality_tie", 500_000),
                ("est_rows_exact_match_takes_all_weight", 500_000),
                ("heap_root_replaced", 150),
                ("heap_element_equal_to_root_arrived", 100),
                ("heap_peek_mut_then_heapify", 40),
                ("heap_plain_heapify", 60),
                // round 2 (ring layouts): about a fifth of what the quick tier counts at its poorest seed
                ("ring_search_executions", 100_000),
                ("ring_estimator_executions", 80_000),
                ("ring_tree_child_radius_exceeds_parent", 1_500),
                ("ring_query_needs_child_radius", 400),
                // round 3 (label tables): the execution counts do not depend on the seed; the row counter is about a fifth of the quick-tier count
                ("lbl_executions", 400_000),
                ("lbl_offset_target_executions", 100_000),
                ("lbl_span_is_classes_minus_one_not_unit_spaced", 100_000),
                ("lbl_rows_all_neighbours_one_inner_label", 20_000),
            ],
            bounds: json!({
                "builders": mc_sc::builders::BOUNDS,
                "entry_paths": mc_sc::entry::BOUNDS,
                "lattice_3x3": format!("every sequence of 1..{} points x 25 half-step queries, all 4 metrics; Manhattan up to {} points; Euclidean up to {} points; f32 up to {} points", lat2_all_metrics, lat2_manhattan, lat2_euclid, if t { 5 } else { 3 }),
                "lattice_1d": format!("every sequence of 1..{} points of {{0..4}} x 11 half-step queries, all 4 metrics", lat1_max),
                "scale_boundary_alphabet": format!("every sequence of 2..{} points over {} letters (0, 1.3^s and its two floating-point neighbours, s=-2..3) x {} queries; Euclidean and Manhattan", if t { 4 } else { 3 }, nletters, nletters + 1),
                "per_search_case": "both structures x every k in 0..=n+1 x radii {each distinct realised distance d, next_down(d), next_up(d), midpoints, beyond all, 0, -0, -1}",
                "structured_sets": format!(
                    "families {:?}, n in {:?}, dim in {:?}; queries: data points, midpoints of consecutive points, 2 outside points ({}); {}",
                    FAMILIES,
                    sizes,
                    dims,
                    if t { "all of them" } else { "all for n<=27, every 3rd for n=64, every 6th for n=125" },
                    if t { "every k in 0..=n+1 for n<=125, for n=200 k in {0,1,2,3,5,8,n/4,n/2,n-2,n-1,n,n+1,n+7}; every realised radius for n<=64, else radii at ranks {0,1,2,3,m/4,m/2,m-2,m-1}" } else { "every k for n<=12, else k in {0,1,2,3,5,8,n/4,n/2,n-2,n-1,n,n+1,n+7}; radii at ranks {0,1,2,3,m/4,m/2,m-2,m-1} of the distinct distances" }
                ),
                "estimators": format!("1-D sequences up to {} points (5 points: Euclidean and Hamming only), 3x3 sequences up to {} points x every labelling over {:?} / {:?} / targets {:?} x k in 0..=n+1 x 2 weights x 2 structures x all queries of the grid; metrics {:?}; in f32: 1-D sequences up to 3 points at lattice steps 1, 2^29 and 2^-24", est1_max, est2_max, CLS_LABELS, CLS_LABELS2, REG_TARGETS, est_metrics.iter().map(|m| m.name()).collect::<Vec<_>>()),
                "ring_layouts": format!(
                    "data = centre (origin) + m points equally spaced on a circle of radius r, coordinates rounded to multiples of 2^-20; m in {}; r in {{1, 1.1, 1.3, 1.3^2, 2}}; second ring (m points) in {{none, 2r, 2r half-step offset, r/2, r/2 half-step offset{}}}; order of the ring points in {:?}; centre first or last; 2-D, and 3-D (odd ring-1 positions lifted by r/2, ring 2 in the plane z=-r/2); queries: every data point, arc midpoints of every ring, radius r-1/16 and r+1/16 in 8 directions; per case: both structures x every k in 0..=n+1 x every realised radius and its neighbours; search jobs (dim, metric, float): {}; estimators (one fit+predict of all queries per (layout, labelling, k in 0..=n+1, weight, structure), labels by ring position mod 3{}): m <= {} for {:?}{}",
                    if t { "3..=16".to_string() } else { "3..=8 (all search jobs) and {15, 16} (Euclidean 2-D f64; smaller rings build no node whose child radius exceeds the parent's)".to_string() },
                    if t { ", 2r quarter-step, r/2 quarter-step" } else { "" },
                    ring::ORDERS,
                    ring_search.iter().map(|(d, mt, f)| format!("{}-D {}{}", d, mt.name(), if *f { " f32" } else { "" })).collect::<Vec<_>>().join(", "),
                    if t { " and by half-plane" } else { "" },
                    ring_est_m_max,
                    ring_est.iter().map(|(d, mt)| format!("{}-D {}", d, mt.name())).collect::<Vec<_>>(),
                    if t { "" } else { "; single ring m in {15, 16} Euclidean 2-D" }
                ),
                "label_tables": format!(
                    "classifier label tables {:?} and regressor target tables {:?}, the table chosen among those with at most n values (f32: classifier tables exactly representable in f32); k in 1..=n x 2 weights x 2 structures, one fit + one predict of all queries, plurality / weighted-mean oracle on the original values; data sets: (a) lattice multisets = non-decreasing sequences of 2..{} points of {{0..4}} (11 half-step queries) and of 2..{} points of the 3x3 lattice (25 queries) x EVERY labelling in which every value of the table occurs, metrics {}, f32 1-D 2..3 points Euclidean; (b) ring layouts m in 3..={}, radius index in {:?}, all second-ring / order / centre options of the tier, {:?}, sector labelling (ring position i -> class floor(i*c/m), centre = last class); (c) structured families {:?} with n in {:?}, dims {:?}, metrics as for the structured search jobs{}, labelling by lexicographic rank (class floor(rank*c/n))",
                    labels::CLS_TABLES,
                    labels::REG_TABLES,
                    lbl1_max,
                    lbl2_max,
                    if t { "all 4 (5 points: Euclidean and Hamming)" } else { "Euclidean and Hamming (largest size: Euclidean only)" },
                    lbl_ring_m_max,
                    lbl_ring_radii,
                    lbl_ring.iter().map(|(d, mt)| format!("{}-D {}", d, mt.name())).collect::<Vec<_>>(),
                    FAMILIES,
                    lbl_fam_sizes,
                    dims,
                    if t { " (n = 16: no Hamming, no all-identical set)" } else { "" }
                ),
                "heap_selection_e2": if t { "k in 1..7, add(v) v in 0..5, heapify, peek_mut+heapify; depth 11" } else { "k in 1..5, add(v) v in 0..4, heapify, peek_mut+heapify; depth 8" },
                "seed_map": format!("coordinates c -> {}*c + {}", seed_map(seed).0, seed_map(seed).1),
            }),
        }
    }

    fn run(&self, job: &Job) {
        if job.kind() == "entry" {
            return mc_sc::entry::run_part("C04", job.u("part"));
        }
        if job.kind() == "builders" {
            return mc_sc::builders::run("C04");
        }
        let seed = job.params["seed"].as_u64().unwrap_or(0);
        let f32_ = job.b("f32");
        match job.kind() {
            "heap-replay" => heap::replay_case(job.u("k"), &heap::acts_from_json(&job.params["actions"])),
            "est" => {
                if f32_ {
                    run_est::<f32>(job, seed)
                } else {
                    run_est::<f64>(job, seed)
                }
            }
            "ringknn" => {
                if f32_ {
                    run_ring_est::<f32>(job, seed)
                } else {
                    run_ring_est::<f64>(job, seed)
                }
            }
            "lbl" => {
                if f32_ {
                    run_lbl::<f32>(job, seed)
                } else {
                    run_lbl::<f64>(job, seed)
                }
            }
            "ringlbl" => run_ring_lbl::<f64>(job, seed),
            "famlbl" => run_fam_lbl::<f64>(job, seed),
            _ => {
                if f32_ {
                    run_search::<f32>(job, seed)
                } else {
                    run_search::<f64>(job, seed)
                }
            }
        }
    }

    fn extra(&self, tier: Tier, _seed: u64) -> Vec<ExtraResult> {
        let (model, depth) = heap_model(tier);
        let a = mc::bfs::search("HeapSelection", &model, depth, 5_000_000);
        // determinism of the transition function: a second search must see the same graph
        let b = mc::bfs::search("HeapSelection", &model, depth, 5_000_000);
        if a.states != b.states || a.transitions != b.transitions {
            panic!("nondeterministic transitions: {} / {} states, {} / {} transitions", a.states, b.states, a.transitions, b.transitions);
        }
        vec![a]
    }

    fn rule(&self) -> String {
        "search: one execution = one (point sequence or ring layout, query, metric, float type), checked on both structures for every k and every radius of the radius alphabet; non-trivial when n >= 2 and at least one structure was built; estimators: one execution = one (point sequence / multiset / layout, label or target table, labelling, k, weight, structure), predictions for all queries of the grid, non-trivial when predictions were returned; distinct = distinct digest of the returned (index, distance) lists / predictions".into()
    }

    fn assumptions(&self) -> Vec<String> {
        vec![
            "the four Distance implementations are deterministic functions of their arguments (the oracle calls the same objects, so distances compare bit-exactly)".into(),
            "no RNG is involved in any explored path (none of the C04 anchors draws random numbers)".into(),
            "HeapSelection's Debug rendering shows all of its fields (k, n, sorted, heap), so equal renderings mean equal objects".into(),
        ]
    }

    fn engine(&self) -> &'static str {
        "E1 stateless choice-tree exploration of the real code + E2 explicit-state BFS over the real HeapSelection"
    }
}

fn main() {
    mc::main(C04)
}

#[allow(dead_code)]
fn _v(_: Value) {}
