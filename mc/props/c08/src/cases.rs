//! One fit of the real library + the judgement of every clause of C08 on it.

use crate::refs::{self, Design};
use mc_core::oracle::{self, Mat};
use mc_core::{self as mc, json};
use smartcore::linalg::naive::dense_matrix::DenseMatrix;
use smartcore::linalg::BaseMatrix;
use smartcore::linear::elastic_net::{ElasticNet, ElasticNetParameters};
use smartcore::linear::lasso::{Lasso, LassoParameters};

/// slack of the near-optimality clause: objective(fit) <= min * (1 + K_TOL * tol) + abs
pub const K_TOL: f64 = 4.0;
/// designs with a larger 2-norm condition number are outside the quantifier ("moderately conditioned")
pub const COND_MAX: f64 = 1.0e4;
pub const MAX_ITER: usize = 1000;
/// a fit of the sizes used here needs well under a millisecond of CPU time; one that has consumed this
/// much without returning is looping (every such verdict is re-confirmed twice by the driver's replays)
pub const WATCHDOG_CPU_MS: u64 = 500;

/// The input class in which the unchanged optimiser is known to stall and then loop (PCG breakdown
/// 0/0 after a stalled line search): unnormalised designs with large entries. Fits of this class
/// always run under the watchdog.
pub fn raw_large_scale(x: &Mat, cfg: &Cfg) -> bool {
    !cfg.normalize && x.iter().any(|r| r.iter().any(|v| v.abs() >= 50.0))
}

#[derive(Clone, Debug)]
pub struct Cfg {
    pub alpha: f64,
    /// None = Lasso, Some(r) = ElasticNet with l1_ratio r
    pub l1_ratio: Option<f64>,
    pub normalize: bool,
    pub tol: f64,
    pub shift: f64,
}

impl Cfg {
    pub fn est(&self) -> &'static str {
        if self.l1_ratio.is_some() {
            "elasticnet"
        } else {
            "lasso"
        }
    }
}

pub struct Fitted {
    pub w: Vec<f64>,
    pub b: f64,
    /// predictions on the rows handed to `fit_raw` as `xp`
    pub pred: Vec<f64>,
}

pub enum FitOut {
    Ok(Fitted),
    Err(String),
    Panic(mc::PanicInfo),
    /// only from `fit_watched`: no answer within the CPU-time budget (milliseconds)
    Hang(u64),
}

/// A helper thread that executes fits on behalf of the worker thread, so that a call that never
/// returns can be abandoned.
struct Fitter {
    tx: std::sync::mpsc::Sender<(Mat, Vec<f64>, Cfg, usize, Mat)>,
    rx: std::sync::mpsc::Receiver<FitOut>,
    /// "<pid>/task/<tid>" of the helper thread
    task: Option<std::path::PathBuf>,
}

fn spawn_fitter() -> Fitter {
    let (tx, req_rx) = std::sync::mpsc::channel::<(Mat, Vec<f64>, Cfg, usize, Mat)>();
    let (res_tx, rx) = std::sync::mpsc::channel();
    let (tid_tx, tid_rx) = std::sync::mpsc::channel();
    std::thread::spawn(move || {
        let _ = tid_tx.send(std::fs::read_link("/proc/thread-self").ok());
        while let Ok((x, y, cfg, max_iter, xp)) = req_rx.recv() {
            if res_tx.send(fit_raw(&x, &y, &cfg, max_iter, &xp)).is_err() {
                break;
            }
        }
    });
    let task = tid_rx.recv_timeout(std::time::Duration::from_secs(30)).ok().flatten();
    Fitter { tx, rx, task }
}

thread_local! {
    static FITTER: std::cell::RefCell<Option<Fitter>> = std::cell::RefCell::new(None);
}

/// `fit_raw` on the helper thread, abandoned once that thread has consumed `cpu_ms` milliseconds of
/// CPU time on this call without returning (read from /proc/<pid>/task/<tid>/stat, so the verdict
/// does not depend on how busy the machine is; a fit of the sizes used here needs well under a
/// millisecond). Used only for the input classes in which the library is known to be able to loop.
/// A looping call cannot be stopped: the abandoned helper keeps spinning (in this build profile
/// until the `max_ls_iter += 1` of the line search overflows its i32 after 2^31 rounds and panics,
/// a few minutes) and a fresh helper is started for the next call.
pub fn fit_watched(x: &Mat, y: &[f64], cfg: &Cfg, max_iter: usize, xp: &Mat, cpu_ms: u64) -> FitOut {
    use std::sync::mpsc::RecvTimeoutError;
    use std::time::{Duration, Instant};
    FITTER.with(|slot| {
        let mut slot = slot.borrow_mut();
        if slot.is_none() {
            *slot = Some(spawn_fitter());
        }
        let f = slot.as_ref().unwrap();
        let cpu0 = f.task.as_ref().and_then(|t| thread_cpu_ms(t)).unwrap_or(0);
        if f.tx.send((x.clone(), y.to_vec(), cfg.clone(), max_iter, xp.clone())).is_err() {
            *slot = None;
            return FitOut::Err("harness: the fitting thread is gone".into());
        }
        let t0 = Instant::now();
        loop {
            match f.rx.recv_timeout(Duration::from_millis(20)) {
                Ok(r) => return r,
                Err(RecvTimeoutError::Disconnected) => {
                    *slot = None;
                    return FitOut::Err("harness: the fitting thread ended without a result".into());
                }
                Err(RecvTimeoutError::Timeout) => {
                    let wall = t0.elapsed().as_millis() as u64;
                    let used = f.task.as_ref().and_then(|t| thread_cpu_ms(t)).map(|c| c.saturating_sub(cpu0));
                    let hang = match used {
                        Some(c) if c >= cpu_ms => Some(c),
                        // on a starved machine: 100x the normal CPU need and 8 s of wall time are
                        // enough (stays below the driver's per-case deadline)
                        Some(c) if c >= cpu_ms / 5 && wall >= 8_000 => Some(c),
                        // no /proc: fall back to wall time
                        None if wall >= 4 * cpu_ms => Some(wall),
                        _ => None,
                    };
                    if hang.is_some() {
                        *slot = None;
                        // (the budget, not the measured value, is reported: messages must replay identically)
                        return FitOut::Hang(cpu_ms);
                    }
                }
            }
        }
    })
}

/// utime + stime of one thread in milliseconds (clock ticks of 10 ms).
fn thread_cpu_ms(task: &std::path::Path) -> Option<u64> {
    let s = std::fs::read_to_string(std::path::Path::new("/proc").join(task).join("stat")).ok()?;
    let rest = s.rsplit_once(')')?.1;
    let f: Vec<&str> = rest.split_whitespace().collect();
    // `rest` starts with field 3 (state); utime is field 14, stime field 15
    let ticks = f.get(11)?.parse::<u64>().ok()? + f.get(12)?.parse::<u64>().ok()?;
    Some(ticks * 10)
}

/// Calls the real estimator (fit, coefficients, intercept, predict) under a panic guard.
pub fn fit_raw(x: &Mat, y: &[f64], cfg: &Cfg, max_iter: usize, xp: &Mat) -> FitOut {
    let xm: DenseMatrix<f64> = mc_sc::dm(x);
    let xpm: DenseMatrix<f64> = mc_sc::dm(xp);
    let yv: Vec<f64> = y.to_vec();
    let p = if x.is_empty() { 0 } else { x[0].len() };
    let r = mc::guard(|| -> Result<Fitted, String> {
        match cfg.l1_ratio {
            None => {
                let m = Lasso::fit(&xm, &yv, LassoParameters { alpha: cfg.alpha, normalize: cfg.normalize, tol: cfg.tol, max_iter }).map_err(|e| e.to_string())?;
                let c = m.coefficients();
                let (cr, cc) = c.shape();
                if (cr, cc) != (p, 1) {
                    return Err(format!("coefficients() has shape {}x{} instead of {}x1", cr, cc, p));
                }
                let w = (0..p).map(|j| c.get(j, 0)).collect();
                let pred = m.predict(&xpm).map_err(|e| format!("predict: {}", e))?;
                Ok(Fitted { w, b: m.intercept(), pred })
            }
            Some(l1r) => {
                let m = ElasticNet::fit(&xm, &yv, ElasticNetParameters { alpha: cfg.alpha, l1_ratio: l1r, normalize: cfg.normalize, tol: cfg.tol, max_iter }).map_err(|e| e.to_string())?;
                let c = m.coefficients();
                let (cr, cc) = c.shape();
                if (cr, cc) != (p, 1) {
                    return Err(format!("coefficients() has shape {}x{} instead of {}x1", cr, cc, p));
                }
                let w = (0..p).map(|j| c.get(j, 0)).collect();
                let pred = m.predict(&xpm).map_err(|e| format!("predict: {}", e))?;
                Ok(Fitted { w, b: m.intercept(), pred })
            }
        }
    });
    match r {
        Ok(Ok(f)) => FitOut::Ok(f),
        Ok(Err(e)) => FitOut::Err(e),
        Err(p) => FitOut::Panic(p),
    }
}

/// The rows predictions are requested for: the training rows plus two probe rows.
pub fn predict_rows(x: &Mat) -> Mat {
    let p = x[0].len();
    let mut xp = x.clone();
    xp.push(vec![0.0; p]);
    xp.push((0..p).map(|j| 2.0 - j as f64).collect());
    xp
}

fn bucket(ratio: f64) {
    // calibration histogram of (F - Fmin) / (tol * Fmin)
    if ratio <= 0.25 {
        mc::count("excess_le_0.25_tol")
    } else if ratio <= 1.0 {
        mc::count("excess_le_1_tol")
    } else if ratio <= 2.0 {
        mc::count("excess_le_2_tol")
    } else if ratio <= 4.0 {
        mc::count("excess_le_4_tol")
    } else {
        mc::count("excess_gt_4_tol")
    }
}

pub struct Judged {
    pub v: Vec<f64>,
    pub b: f64,
    pub f: f64,
    pub fmin: f64,
    pub slack: f64,
}

/// What is known about the input before the library is called.
pub struct Problem {
    pub des: Design,
    pub yc: Vec<f64>,
    pub ybar: f64,
    pub l1: f64,
    pub l2: f64,
    pub cond: f64,
    pub abs_slack: f64,
}

pub fn problem(x: &Mat, y_in: &[f64], cfg: &Cfg) -> Problem {
    let n = x.len() as f64;
    let des = refs::design(x, cfg.normalize);
    let (yc, ybar) = refs::centre(y_in);
    let l1r = cfg.l1_ratio.unwrap_or(1.0);
    let l1 = n * cfg.alpha * l1r;
    let l2 = n * cfg.alpha * (1.0 - l1r);
    let cond = refs::cond(&des.z);
    let abs_slack = 1e-9 * refs::sq_norm(&yc) + 64.0 * f64::EPSILON * refs::sq_norm(y_in);
    Problem { des, yc, ybar, l1, l2, cond, abs_slack }
}

fn fmt_mat(x: &Mat) -> String {
    format!("{:?}", x)
}

/// Fit once and judge every clause. `label` describes the input for violation lines.
/// Returns the recovered standardised-space coefficients when the fit succeeded.
pub fn fit_and_judge(x: &Mat, y_in: &[f64], cfg: &Cfg, watchdog_ms: Option<u64>) -> Option<Judged> {
    let est = cfg.est();
    let n = x.len();
    let p = x[0].len();
    let pr = problem(x, y_in, cfg);
    let label = || format!("X={} y={:?} alpha={} l1_ratio={:?} normalize={} tol={}", fmt_mat(x), y_in, cfg.alpha, cfg.l1_ratio, cfg.normalize, cfg.tol);
    let in_quantifier = pr.cond <= COND_MAX;
    let constant_target = pr.yc.iter().all(|v| *v == 0.0);
    let mean_nonzero = pr.ybar != 0.0;
    if !in_quantifier {
        // not "moderately conditioned": outside the quantifier, not fitted (the unchanged library can
        // loop on exactly collinear columns; nothing is promised there)
        mc::count(if pr.cond.is_finite() { "design_ill_conditioned_outside_quantifier" } else { "design_rank_deficient_outside_quantifier" });
        return None;
    }
    let raw_large = raw_large_scale(x, cfg);
    let xp = predict_rows(x);
    let out = match watchdog_ms.or(if raw_large { Some(WATCHDOG_CPU_MS) } else { None }) {
        None => fit_raw(x, y_in, cfg, MAX_ITER, &xp),
        Some(ms) => fit_watched(x, y_in, cfg, MAX_ITER, &xp, ms),
    };
    // input class used in the site keys of fit-level failures (decided from the input alone)
    let class = if est == "elasticnet" && mean_nonzero {
        "target-mean-nonzero"
    } else if constant_target {
        "constant-target"
    } else if raw_large {
        "raw-large-scale-design"
    } else {
        "valid-input"
    };
    let fitted = match out {
        FitOut::Panic(pi) => {
            mc::violation(format!("{}.fit:panic:{}", est, class), format!("{}: {}", label(), pi.brief()));
            mc::outcome(mc::hash::h_str("panic"));
            return None;
        }
        FitOut::Hang(ms) => {
            mc::violation(format!("{}.fit:loops:{}", est, class), format!("{}: fit has not returned after consuming {} ms of CPU time (a fit of this size needs well under a millisecond) — it loops", label(), ms));
            mc::outcome(mc::hash::h_str("hang"));
            return None;
        }
        FitOut::Err(e) => {
            mc::violation(format!("{}.fit:error:{}", est, class), format!("{}: fit returned Err(\"{}\") for a valid input (the minimiser is {})", label(), e, if constant_target { "w = 0" } else { "finite" }));
            mc::outcome(mc::hash::h_str("err"));
            return None;
        }
        FitOut::Ok(f) => f,
    };
    mc::count("fits_ok");
    if raw_large {
        mc::count("fits_ok_raw_large_scale_watched");
    }
    let Fitted { w, b, pred } = fitted;
    mc::outcome(mc::hash::mix(mc::hash::h_f64s_rounded(&w, 9), mc::hash::h_f64s_rounded(&[b], 9)));
    if !constant_target {
        mc::nontrivial();
    }
    if w.iter().any(|t| !t.is_finite()) || !b.is_finite() {
        mc::violation(format!("{}.fit:non-finite:{}", est, class), format!("{}: coefficients {:?} intercept {}", label(), w, b));
        return None;
    }
    // ---- predict(X) = X w + b, row by row
    if pred.len() != xp.len() {
        mc::violation(format!("{}.predict:length", est), format!("{}: predict returned {} values for {} rows", label(), pred.len(), xp.len()));
    } else {
        for (i, row) in xp.iter().enumerate() {
            let want = oracle::dot(row, &w) + b;
            let scale = row.iter().zip(&w).map(|(a, c)| (a * c).abs()).sum::<f64>() + b.abs();
            if (pred[i] - want).abs() > 16.0 * f64::EPSILON * scale + f64::MIN_POSITIVE {
                mc::violation(format!("{}.predict:not-xw-plus-b", est), format!("{}: predict(row {:?}) = {} but x.w + b = {} (w={:?} b={})", label(), row, pred[i], want, w, b));
                break;
            }
        }
    }
    // ---- mapping back: the model is mean(y) + Z v with v_j = w_j * std_j, so on every training row
    //      X w + b must equal mean(y) + Z v
    let v: Vec<f64> = (0..p).map(|j| w[j] * pr.des.std[j]).collect();
    // (a column mean carries a rounding error of eps * max|x_ij|, whichever row is looked at)
    let colmax: Vec<f64> = (0..p).map(|j| x.iter().fold(0.0f64, |m, r| m.max(r[j].abs()))).collect();
    let ymax = y_in.iter().fold(0.0f64, |m, v| m.max(v.abs()));
    for i in 0..n {
        let model = pr.ybar + oracle::dot(&pr.des.z[i], &v);
        let got = oracle::dot(&x[i], &w) + b;
        // (likewise mean(y) carries eps * max|y_i|)
        let scale = ymax + (0..p).map(|j| w[j].abs() * colmax[j]).sum::<f64>() + b.abs();
        if (model - got).abs() > 256.0 * f64::EPSILON * scale + f64::MIN_POSITIVE {
            let class = if cfg.normalize { "normalized" } else { "raw" };
            mc::violation(
                format!("{}.intercept:not-mapped-back:{}", est, class),
                format!("{}: row {}: X w + b = {} but mean(y) + Z (w*std) = {} (w={:?} b={} mean(y)={} col means {:?})", label(), i, got, model, w, b, pr.ybar, pr.des.mean),
            );
            break;
        }
    }
    // ---- near-optimality of the stated objective
    let opt = refs::exact_min(&pr.des.z, &pr.yc, pr.l1, pr.l2);
    let f = refs::objective(&pr.des.z, &pr.yc, &v, pr.l1, pr.l2);
    let regime = if opt.zeros == p {
        "all-zero-optimum"
    } else if opt.zeros > 0 {
        "sparse-optimum"
    } else {
        "dense-optimum"
    };
    match opt.zeros {
        z if z == p => mc::count("optimum_all_zero"),
        0 => mc::count("optimum_dense"),
        _ => mc::count("optimum_sparse"),
    }
    let slack = K_TOL * cfg.tol * opt.f + pr.abs_slack;
    if f < opt.f * (1.0 - 1e-9) - pr.abs_slack {
        mc::violation("oracle.exact-min:beaten", format!("{}: the library's objective {} is BELOW the reference minimum {} — the reference is wrong", label(), f, opt.f));
    }
    let healthy_class = !(est == "elasticnet" && mean_nonzero);
    mc::count(match (est, mean_nonzero, cfg.normalize) {
        ("lasso", _, true) => "judged_lasso_normalized",
        ("lasso", _, false) => "judged_lasso_raw",
        (_, false, true) => "judged_enet_mean_zero_normalized",
        (_, false, false) => "judged_enet_mean_zero_raw",
        (_, true, _) => "judged_enet_mean_nonzero",
    });
    if opt.f > 0.0 && healthy_class {
        bucket((f - opt.f) / (cfg.tol * opt.f));
    }
    if !(f <= opt.f + slack) {
        let class = if class == "valid-input" || class == "raw-large-scale-design" { format!("{}:{}", if cfg.normalize { "normalized" } else { "raw" }, regime) } else { class.to_string() };
        mc::violation(
            format!("{}.objective:{}", est, class),
            format!(
                "{}: objective at the returned coefficients = {:.12e}, exact minimum = {:.12e} (relative excess {:.3e} = {:.3e} x tol); returned w={:?} b={}, minimiser (standardised space) {:?}",
                label(),
                f,
                opt.f,
                (f - opt.f) / opt.f,
                (f - opt.f) / opt.f / cfg.tol,
                w,
                b,
                opt.v
            ),
        );
    }
    mc::describe(|| {
        json!({"estimator": est, "X": x, "y": y_in, "alpha": cfg.alpha, "l1_ratio": cfg.l1_ratio, "normalize": cfg.normalize, "tol": cfg.tol, "shift_in_y": cfg.shift,
               "coefficients": w, "intercept": b, "objective": f, "exact_minimum": opt.f, "exact_minimiser_standardised": opt.v, "cond": pr.cond})
    });
    Some(Judged { v, b, f, fmin: opt.f, slack })
}

/// One complete case: `y_base` shifted by `cfg.shift`; for the elastic net with a non-zero shift
/// the unshifted problem is fitted too and the two fits are compared (same coefficients, intercept
/// moved by exactly the shift).
pub fn case(x: &Mat, y_base: &[f64], cfg: &Cfg, watchdog_ms: Option<u64>, ctarget_job: bool) {
    let y_in: Vec<f64> = y_base.iter().map(|v| v + cfg.shift).collect();
    if !ctarget_job && y_in.iter().all(|v| *v == y_in[0]) {
        // constant targets make the library loop (known finding); that input class is enumerated by
        // the dedicated `ctarget` jobs under a watchdog, everything else here
        mc::count("constant_target_left_to_ctarget_jobs");
        return;
    }
    let shifted = fit_and_judge(x, &y_in, cfg, watchdog_ms);
    if let (Some(js), false) = (&shifted, ctarget_job) {
        if cfg.l1_ratio == Some(1.0) && y_in.iter().sum::<f64>() == 0.0 {
            reproduces_lasso(x, &y_in, cfg, js, watchdog_ms);
        }
    }
    if cfg.shift == 0.0 {
        return;
    }
    mc::count("shifted_target_cases");
    if cfg.l1_ratio.is_none() || ctarget_job {
        return;
    }
    let Some(js) = shifted else { return };
    // the base fit is judged by its own execution (shift = 0); here it only serves as the reference
    let base_cfg = Cfg { shift: 0.0, ..cfg.clone() };
    let pr = problem(x, y_base, &base_cfg);
    if pr.cond > COND_MAX {
        return;
    }
    let xp = predict_rows(x);
    let base_out = match watchdog_ms.or(if raw_large_scale(x, cfg) { Some(WATCHDOG_CPU_MS) } else { None }) {
        None => fit_raw(x, y_base, &base_cfg, MAX_ITER, &xp),
        Some(ms) => fit_watched(x, y_base, &base_cfg, MAX_ITER, &xp, ms),
    };
    let FitOut::Ok(fb) = base_out else { return };
    if fb.w.iter().any(|t| !t.is_finite()) || !fb.b.is_finite() {
        return;
    }
    mc::count("enet_shift_pairs_compared");
    let p = x[0].len();
    let vb: Vec<f64> = (0..p).map(|j| fb.w[j] * pr.des.std[j]).collect();
    let opt = refs::exact_min(&pr.des.z, &pr.yc, pr.l1, pr.l2);
    let fbv = refs::objective(&pr.des.z, &pr.yc, &vb, pr.l1, pr.l2);
    // strong convexity: ||Z d||^2 + l2 ||d||^2 <= F(v) - Fmin for d = v - argmin. Both fits are allowed
    // the slack of the near-optimality clause (the base fit is allowed what it actually used, if more).
    let slack_b = (K_TOL * cfg.tol * opt.f + pr.abs_slack).max(fbv - opt.f);
    let slack_s = js.slack.max(K_TOL * cfg.tol * opt.f + pr.abs_slack);
    let bound = slack_b.sqrt() + slack_s.sqrt();
    let d: Vec<f64> = (0..p).map(|j| js.v[j] - vb[j]).collect();
    let zd: f64 = pr.des.z.iter().map(|r| oracle::dot(r, &d).powi(2)).sum::<f64>() + pr.l2 * refs::sq_norm(&d);
    if !(zd.sqrt() <= bound) {
        mc::violation(
            "elasticnet.shift:coefficients-change",
            format!(
                "X={:?} y={:?} alpha={} l1_ratio={:?} normalize={} tol={}: fit(y) gives w={:?}, fit(y+{}) gives coefficients differing by {:?} in the space of the objective (||Z d|| = {:.3e}, allowed {:.3e})",
                x,
                y_base,
                cfg.alpha,
                cfg.l1_ratio,
                cfg.normalize,
                cfg.tol,
                fb.w,
                cfg.shift,
                d,
                zd.sqrt(),
                bound
            ),
        );
    }
    // intercept moves by exactly the shift, up to what the permitted coefficient difference explains
    let allow = bound * bound_to_intercept(&pr) + 256.0 * f64::EPSILON * (cfg.shift.abs() + js.b.abs() + fb.b.abs());
    if !((js.b - fb.b - cfg.shift).abs() <= allow) {
        mc::violation(
            "elasticnet.shift:intercept",
            format!("X={:?} y={:?} alpha={} l1_ratio={:?} normalize={} tol={}: intercept {} for y, {} for y+{} (difference {} instead of {}, allowed deviation {:.3e})", x, y_base, cfg.alpha, cfg.l1_ratio, cfg.normalize, cfg.tol, fb.b, js.b, cfg.shift, js.b - fb.b, cfg.shift, allow),
        );
    }
}

/// "l1_ratio = 1 reproduces Lasso": the elastic-net fit `js` (l1_ratio = 1, target mean exactly 0) is
/// compared with the real Lasso fit of the same input. Both are within the slack of the
/// near-optimality clause of the same strongly convex objective, hence close to each other:
/// ||Z (v_en - v_lasso)|| <= sqrt(excess_en) + sqrt(excess_lasso).
fn reproduces_lasso(x: &Mat, y_in: &[f64], cfg: &Cfg, js: &Judged, watchdog_ms: Option<u64>) {
    let lcfg = Cfg { l1_ratio: None, ..cfg.clone() };
    let pr = problem(x, y_in, &lcfg);
    if pr.cond > COND_MAX {
        return;
    }
    let xp = predict_rows(x);
    let out = match watchdog_ms.or(if raw_large_scale(x, cfg) { Some(WATCHDOG_CPU_MS) } else { None }) {
        None => fit_raw(x, y_in, &lcfg, MAX_ITER, &xp),
        Some(ms) => fit_watched(x, y_in, &lcfg, MAX_ITER, &xp, ms),
    };
    // (a failing Lasso fit is reported by the Lasso executions of the same input)
    let FitOut::Ok(fl) = out else { return };
    if fl.w.iter().any(|t| !t.is_finite()) {
        return;
    }
    mc::count("enet_l1ratio1_compared_with_lasso");
    let p = x[0].len();
    let vl: Vec<f64> = (0..p).map(|j| fl.w[j] * pr.des.std[j]).collect();
    let fl_obj = refs::objective(&pr.des.z, &pr.yc, &vl, pr.l1, 0.0);
    let allowed = K_TOL * cfg.tol * js.fmin + pr.abs_slack;
    let bound = allowed.max(fl_obj - js.fmin).sqrt() + allowed.max(js.f - js.fmin).sqrt();
    let d: Vec<f64> = (0..p).map(|j| js.v[j] - vl[j]).collect();
    let zd = pr.des.z.iter().map(|r| oracle::dot(r, &d).powi(2)).sum::<f64>().sqrt();
    if !(zd <= bound) || !((js.b - fl.b).abs() <= 256.0 * f64::EPSILON * (js.b.abs() + fl.b.abs()) + bound * bound_to_intercept(&pr)) {
        mc::violation(
            "elasticnet.l1ratio1:differs-from-lasso",
            format!("X={:?} y={:?} alpha={} normalize={} tol={}: ElasticNet(l1_ratio=1) gives w*std={:?} b={}, Lasso gives w*std={:?} b={} (||Z d|| = {:.3e}, allowed {:.3e})", x, y_in, cfg.alpha, cfg.normalize, cfg.tol, js.v, js.b, vl, fl.b, zd, bound),
        );
    }
}

/// Factor turning a bound on ||Z d|| into a bound on the induced intercept difference |sum_j d_j mean_j / std_j|.
fn bound_to_intercept(pr: &Problem) -> f64 {
    let p = pr.des.mean.len();
    let smin = oracle::singular_values(&pr.des.z).last().copied().unwrap_or(0.0);
    let ms: f64 = (0..p).map(|j| (pr.des.mean[j] / pr.des.std[j]).powi(2)).sum::<f64>().sqrt();
    ms / smin
}
