//! Deterministic structured designs and targets for p <= 6, n <= 60 (every member is enumerated;
//! nothing is drawn at random).

use mc_core::oracle::Mat;

pub const N_FAMILIES: usize = 4;
pub const N_SCALES: usize = 3;
pub const N_OFFSETS: usize = 2;
pub const N_BETAS: usize = 3;

fn node(i: usize, n: usize) -> f64 {
    (2.0 * i as f64 + 1.0 - n as f64) / n as f64
}

/// Base design (unit scale, no offset).
fn base(fam: usize, n: usize, p: usize, rot: usize) -> Mat {
    let mut x = vec![vec![0.0; p]; n];
    for i in 0..n {
        let t = node(i, n);
        match fam {
            // Chebyshev polynomials T_1..T_p at equispaced nodes
            0 => {
                let (mut a, mut b) = (1.0, t);
                for j in 0..p {
                    x[i][j] = b;
                    let c = 2.0 * t * b - a;
                    a = b;
                    b = c;
                }
            }
            // nested step functions (strongly overlapping supports)
            1 => {
                for j in 0..p {
                    x[i][j] = if i * (p + 1) >= (j + 1) * n { 1.0 } else { 0.0 };
                }
            }
            // integer pseudo-pattern: residues of i with co-prime moduli
            2 => {
                for j in 0..p {
                    let m = [2usize, 3, 5, 7, 11, 13][(j + rot) % 6];
                    x[i][j] = ((i * (j + 1) + j) % m) as f64 - (m / 2) as f64;
                }
            }
            // correlated columns: a common ramp plus a smaller individual polynomial part
            _ => {
                let (mut a, mut b) = (1.0, t);
                for j in 0..p {
                    x[i][j] = t + 0.5 * b + if j == 0 { 0.25 * (i % 2) as f64 } else { 0.0 };
                    let c = 2.0 * t * b - a;
                    a = b;
                    b = c;
                }
            }
        }
    }
    x
}

/// `scale`: 0 = unit columns, 1 = graded 1e-1..1e2, 2 = alternating 1e2 / 1e-1.
/// `offset`: 0 = none, 1 = every column moved by +5 * its scale (non-zero column means).
/// `beta`: 0 = dense signal, 1 = one relevant column, 2 = no signal (noise only).
pub fn build(fam: usize, n: usize, p: usize, scale: usize, offset: usize, beta: usize, seed: u64) -> (Mat, Vec<f64>) {
    let rot = (seed % 6) as usize;
    let xb = base(fam, n, p, rot);
    let scales: Vec<f64> = (0..p)
        .map(|j| match scale {
            0 => 1.0,
            1 => {
                if p == 1 {
                    100.0
                } else {
                    10f64.powf(-1.0 + 3.0 * j as f64 / (p - 1) as f64)
                }
            }
            _ => {
                if j % 2 == 0 {
                    100.0
                } else {
                    0.1
                }
            }
        })
        .collect();
    let coef: Vec<f64> = (0..p)
        .map(|j| match beta {
            0 => [1.0, -2.0, 0.5, 1.5, -1.0, 0.75][(j + rot) % 6],
            1 => {
                if j == p / 2 {
                    2.0
                } else {
                    0.0
                }
            }
            _ => 0.0,
        })
        .collect();
    let mut x = vec![vec![0.0; p]; n];
    let mut y = vec![0.0; n];
    for i in 0..n {
        let noise = 0.3 * (((7 * i + 3 + rot) % 5) as f64 - 2.0) + 0.1 * (((3 * i + 1) % 7) as f64 - 3.0);
        y[i] = (0..p).map(|j| coef[j] * xb[i][j]).sum::<f64>() + noise;
        for j in 0..p {
            x[i][j] = scales[j] * (xb[i][j] + if offset == 1 { 5.0 } else { 0.0 });
        }
    }
    (x, y)
}

/// The same target with its mean removed so that the floating-point sum is EXACTLY zero
/// (values are first rounded to multiples of 2^-20, then the last entry absorbs the remainder).
pub fn zero_mean(y: &[f64]) -> Vec<f64> {
    let q = (1u64 << 20) as f64;
    let n = y.len();
    let m = y.iter().sum::<f64>() / n as f64;
    let mut out: Vec<f64> = y.iter().map(|v| ((v - m) * q).round() / q).collect();
    let s: f64 = out[..n - 1].iter().sum();
    out[n - 1] = -s;
    out
}
