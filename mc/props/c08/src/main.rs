//! C08 — Lasso and elastic net terminate near the optimum of their stated objective.
//!
//! E1 over (design matrix, target, alpha, l1_ratio, tol, normalisation, target shift): every fit of
//! the real `Lasso` / `ElasticNet` is judged against the EXACT minimum of the stated objective
//! (exhaustive enumeration of the 3^p sign patterns, `refs::exact_min`). The estimators draw no random
//! numbers, so there is no schedule dimension.
//!
//! Input classes in which the unchanged library is known to loop (constant target; a constant column
//! whose one-pass variance is not exactly zero; elastic net with a non-zero target mean) are
//! enumerated by dedicated jobs whose library calls run under a watchdog thread, so that a loop is
//! an ordinary violation with a site key instead of a lost worker. Everything else runs unprotected:
//! a loop there is caught by the driver's per-case deadline (termination clause).

mod cases;
mod families;
mod refs;

use cases::{case, Cfg};
use mc_core::oracle::Mat;
use mc_core::{self as mc, json, Harness, Job, Plan, Tier, Value};

struct C08;

pub const ALPHAS: [f64; 4] = [0.1, 1.0, 1e-3, 10.0];
pub const TOLS: [f64; 3] = [1e-4, 1e-3, 1e-6];
pub const SHIFTS: [f64; 3] = [0.0, 10.0, 1e4];
pub const L1_RATIOS: [f64; 3] = [0.5, 1.0, 0.25];
pub const WATCHDOG_MS: u64 = cases::WATCHDOG_CPU_MS;

/// The X alphabet (Σ4 mapped by the seed's affine map) and the y alphabet.
fn x_alphabet(seed: u64) -> [f64; 4] {
    let (a, b) = [(1.0, 0.0), (3.0, 0.0), (0.5, 0.25), (-1.0, 0.0), (0.25, -1.0), (10.0, 0.0), (0.125, 0.0), (7.0, 1.0)][(seed % 8) as usize];
    [0.0, 1.0, -1.0, 2.0].map(|v: f64| a * v + b)
}

fn y_alphabet(seed: u64) -> [f64; 4] {
    let (a, b) = [(1.0, 0.0), (1.0, 1.0), (-1.0, 0.0), (2.0, 0.0), (0.5, 0.0), (1.0, -3.0), (4.0, 0.0), (-0.5, 0.0)][((seed / 8) % 8) as usize];
    [0.0, 1.0, -2.0, 3.0].map(|v: f64| a * v + b)
}

fn watch_of(job: &Job) -> Option<u64> {
    if job.b("watch") {
        Some(WATCHDOG_MS)
    } else {
        None
    }
}

/// (tol, shift) according to the job's configuration set.
fn pick_tol_shift(job: &Job) -> (f64, f64) {
    match job.s("cfg") {
        "full" => (mc::pick(&TOLS), mc::pick(&SHIFTS)),
        // tolerance and shift paired (3 combinations instead of 9)
        "diag" => {
            let i = mc::choose(3);
            (TOLS[i], SHIFTS[i])
        }
        // no shift (zero-sum targets stay zero-sum)
        "noshift" => (mc::pick(&TOLS), 0.0),
        // no shift, default tolerance only
        "noshift1" => (TOLS[0], 0.0),
        other => panic!("unknown cfg set {}", other),
    }
}

fn has_constant_column(x: &Mat) -> bool {
    let p = x[0].len();
    (0..p).any(|j| x.iter().all(|r| r[j] == x[0][j]))
}

fn run_lattice(job: &Job, seed: u64) {
    let (p, n) = (job.u("p"), job.u("n"));
    let xa = x_alphabet(seed);
    let ya = y_alphabet(seed);
    let na = job.u("xalpha");
    let pre: Vec<usize> = job.params["pre"].as_array().map(|a| a.iter().map(|v| v.as_u64().unwrap() as usize).collect()).unwrap_or_default();
    let mut x: Mat = vec![vec![0.0; p]; n];
    for k in 0..n * p {
        let idx = if k < pre.len() { pre[k] } else { mc::choose(na) };
        // column-major fill: the leading (job-fixing) entries belong to the first column
        x[k % n][k / n] = xa[idx];
    }
    if has_constant_column(&x) {
        mc::count("lattice_x_with_constant_column_skipped");
        return;
    }
    let y: Vec<f64> = match job.s("ymode") {
        "free" => (0..n).map(|_| mc::pick(&ya)).collect(),
        "zerosum" => {
            let mut y: Vec<f64> = (0..n - 1).map(|_| mc::pick(&ya)).collect();
            y.push(-y.iter().sum::<f64>());
            y
        }
        other => panic!("unknown ymode {}", other),
    };
    let enet = job.s("est") == "enet";
    let alpha = mc::pick(&ALPHAS);
    let normalize = mc::pick(&[true, false]);
    let l1_ratio = if enet { Some(mc::pick(&L1_RATIOS)) } else { None };
    let (tol, shift) = pick_tol_shift(job);
    case(&x, &y, &Cfg { alpha, l1_ratio, normalize, tol, shift }, watch_of(job), false);
}

fn run_family(job: &Job, seed: u64) {
    let p = job.u("p");
    let fam = job.u("fam");
    let ns: Vec<usize> = job.params["ns"].as_array().unwrap().iter().map(|v| v.as_u64().unwrap() as usize).collect();
    let n = mc::pick(&ns);
    let scale = mc::choose(families::N_SCALES);
    let offset = mc::choose(families::N_OFFSETS);
    let beta = mc::choose(families::N_BETAS);
    let (x, y) = families::build(fam, n, p, scale, offset, beta, seed);
    if has_constant_column(&x) {
        mc::count("family_x_with_constant_column_skipped");
        return;
    }
    let y = if job.b("zero_mean") { families::zero_mean(&y) } else { y };
    let enet = job.s("est") == "enet";
    let normalize = mc::pick(&[true, false]);
    let l1_ratio = if enet { Some(mc::pick(&L1_RATIOS)) } else { None };
    // the largest alpha is chosen by the oracle so that every coefficient of the minimiser is zero
    let ai = mc::choose(4);
    let alpha = if ai < 3 {
        ALPHAS[ai]
    } else {
        let des = refs::design(&x, normalize);
        let (yc, _) = refs::centre(&y);
        let g = (0..p).map(|j| des.z.iter().zip(&yc).map(|(r, v)| r[j] * v).sum::<f64>().abs()).fold(0.0, f64::max);
        // l1 = n alpha l1_ratio >= 2 max|Z'yc| zeroes everything; stay inside the quantifier's alpha range
        (1.25 * 2.0 * g / n as f64 / l1_ratio.unwrap_or(1.0)).max(0.01)
    };
    let (tol, shift) = pick_tol_shift(job);
    case(&x, &y, &Cfg { alpha, l1_ratio, normalize, tol, shift }, watch_of(job), false);
}

/// Constant targets (the minimiser is w = 0, the minimum 0): a small grid under the watchdog.
fn run_ctarget(job: &Job, seed: u64) {
    let xa = x_alphabet(seed);
    let designs: [&[&[usize]]; 4] = [&[&[0], &[1]], &[&[0, 1], &[1, 1], &[2, 3]], &[&[0], &[1], &[2]], &[&[1, 1], &[0, 3], &[2, 0], &[3, 2]]];
    let x: Mat = designs[job.u("design")].iter().map(|r| r.iter().map(|i| xa[*i]).collect()).collect();
    let n = x.len();
    let enet = job.s("est") == "enet";
    let normalize = job.b("normalize");
    let k = if job.b("wide") { 4 } else { 2 };
    let c = mc::pick(&[0.0, 1.0, -2.5, 1e4][..k]);
    let alpha = mc::pick(&[0.1, 10.0, 1e-3, 1.0][..k]);
    let l1_ratio = if enet { Some(0.5) } else { None };
    let y = vec![c; n];
    case(&x, &y, &Cfg { alpha, l1_ratio, normalize, tol: 1e-4, shift: 0.0 }, Some(WATCHDOG_MS), true);
    mc::count("constant_target_cases");
}

mod invalid {
    //! "Lasso reports invalid settings as errors rather than panicking or looping"
    use super::*;
    use crate::cases::FitOut;

    pub const ALPHA: [f64; 4] = [0.1, -1.0, -1e-3, -1e300];
    pub const TOL: [f64; 4] = [1e-4, 0.0, -1e-4, -0.0];
    pub const MAX_ITER: [usize; 2] = [1000, 0];
    /// (n, p); the thorough tier uses all, the quick tier the first `N_SHAPES_QUICK`
    pub const SHAPES: [(usize, usize); 14] = [(3, 1), (4, 2), (1, 1), (2, 2), (1, 2), (6, 1), (7, 2), (3, 3), (2, 3), (5, 3), (1, 3), (8, 3), (5, 1), (12, 2)];
    pub const N_SHAPES_QUICK: usize = 6;
    pub const YLEN_DELTA: [i64; 4] = [0, -1, 1, 2];
    /// value of a constant column (None = no constant column)
    pub const CONST: [Option<f64>; 9] = [None, Some(0.0), Some(1.0), Some(-1.0), Some(2.0), Some(0.1), Some(100.1), Some(1.0 / 3.0), Some(0.7)];

    pub fn run(job: &Job, seed: u64) {
        let (n, p) = SHAPES[job.u("shape")];
        let cst = CONST[job.u("const")];
        let cst_col = if cst.is_some() { mc::choose(p) } else { 0 };
        let alpha = mc::pick(&ALPHA);
        let tol = mc::pick(&TOL);
        let max_iter = mc::pick(&MAX_ITER);
        let dy = mc::pick(&YLEN_DELTA);
        let normalize = mc::pick(&[true, false]);
        let ylen = n as i64 + dy;
        if ylen < 0 {
            return;
        }
        let xa = x_alphabet(seed);
        // non-constant integer ramps (for n >= 2)
        let mut x: Mat = (0..n).map(|i| (0..p).map(|j| xa[1] * ((i * (j + 2) + j) % 5) as f64 - (j as f64)).collect()).collect();
        if let Some(c) = cst {
            for r in x.iter_mut() {
                r[cst_col] = c;
            }
        }
        // targets: a varying pattern, or exactly constant (0, 2.5) — an invalid setting must be reported
        // whatever the data are, also when the fit could take a "nothing to do" shortcut
        let ypat = mc::choose(3);
        let y: Vec<f64> = (0..ylen as usize).map(|i| match ypat { 0 => ((i * 3 + 1) % 4) as f64 - 1.0, 1 => 0.0, _ => 2.5 }).collect();
        if ypat != 0 {
            mc::count("invalid_grid_constant_target");
        }
        let mut bad: Vec<&str> = Vec::new();
        if alpha < 0.0 {
            bad.push("alpha-negative");
        }
        if tol <= 0.0 {
            bad.push("tol-not-positive");
        }
        if max_iter == 0 {
            bad.push("max-iter-zero");
        }
        if n <= p {
            bad.push("n-le-p");
        }
        if ylen as usize != n {
            bad.push("length-mismatch");
        }
        // (with n = 1 every column is constant)
        let const_cols: Vec<usize> = (0..p).filter(|&j| x.iter().all(|r| r[j] == x[0][j])).collect();
        if !const_cols.is_empty() && normalize {
            // the squares and sums of such a value are exact in binary floating point
            let exact = const_cols.iter().all(|&j| (x[0][j] * 4096.0).fract() == 0.0 && x[0][j].abs() <= 4096.0);
            bad.push(if exact { "constant-column-normalized(exact-square)" } else { "constant-column-normalized(rounded-square)" });
        }
        if bad.is_empty() {
            mc::count("invalid_grid_valid_combinations_skipped");
            return;
        }
        let key = bad.join("+");
        let cfg = Cfg { alpha, l1_ratio: None, normalize, tol, shift: 0.0 };
        // the call runs on its own thread so that a loop costs WATCHDOG_MS instead of the worker
        let out = cases::fit_watched(&x, &y, &cfg, max_iter, &x, WATCHDOG_MS);
        let what = || format!("Lasso::fit(X={:?}, y={:?}, alpha={}, normalize={}, tol={}, max_iter={})", x, y, alpha, normalize, tol, max_iter);
        match out {
            FitOut::Err(e) => {
                mc::count("invalid_settings_rejected");
                if bad.len() == 1 {
                    mc::count("invalid_single_setting_rejected");
                }
                if bad.len() == 1 && bad[0].starts_with("constant-column") {
                    mc::count("invalid_constant_column_rejected");
                }
                mc::nontrivial();
                mc::outcome(mc::hash::h_str(&e));
            }
            FitOut::Ok(f) => {
                mc::violation(format!("lasso.invalid:accepted:{}", key), format!("{}: invalid setting ({}) accepted, returned w={:?} b={}", what(), key, f.w, f.b));
            }
            FitOut::Panic(pi) => {
                mc::violation(format!("lasso.invalid:panic:{}", key), format!("{}: invalid setting ({}) panics instead of returning Err: {}", what(), key, pi.brief()));
            }
            FitOut::Hang(_) => {
                mc::violation(format!("lasso.invalid:loops:{}", key), format!("{}: invalid setting ({}): fit has not returned after consuming {} ms of CPU time (a rejected setting returns in microseconds) — it loops", what(), key, WATCHDOG_MS));
            }
        }
        mc::describe(|| json!({"op": "Lasso::fit with invalid settings", "X": x, "y": y, "alpha": alpha, "tol": tol, "max_iter": max_iter, "normalize": normalize, "invalid": bad}));
    }
}

/// Split the lattice of one (est, p, n) into jobs by fixing the leading `k` entries of X.
/// `xalpha` = number of letters of the X alphabet used (4 = Σ4, 3 = Σ3, 2 = {0,1}).
#[allow(clippy::too_many_arguments)]
fn lattice_jobs(jobs: &mut Vec<Job>, est: &str, p: usize, n: usize, xalpha: usize, k: usize, cfg: &str, ymode: &str, watch: bool) {
    let total = xalpha.pow(k as u32);
    for code in 0..total {
        let pre: Vec<usize> = (0..k).map(|i| (code / xalpha.pow((k - 1 - i) as u32)) % xalpha).collect();
        // a job whose fixed prefix already makes the first column constant would be empty
        if k >= n && pre[..n].iter().all(|v| *v == pre[0]) {
            continue;
        }
        jobs.push(Job::new(
            format!("{}-{}{}-p{}-n{}-s{}-{}-x{}", est, ymode, if watch { "-watched" } else { "" }, p, n, xalpha, cfg, pre.iter().map(|d| d.to_string()).collect::<String>()),
            json!({"kind": "lat", "est": est, "p": p, "n": n, "xalpha": xalpha, "pre": pre, "cfg": cfg, "ymode": ymode, "watch": watch}),
        ));
    }
}

impl Harness for C08 {
    fn id(&self) -> &'static str {
        "C08"
    }

    fn plan(&self, tier: Tier, seed: u64) -> Plan {
        let t = tier.is_thorough();
        let mut jobs = Vec::new();
        // ---- lattice. Lasso: free targets, all shifts. Elastic net, healthy class: zero-sum targets
        //      (exact mean 0), no shift.
        lattice_jobs(&mut jobs, "lasso", 1, 2, 4, 0, "full", "free", false);
        lattice_jobs(&mut jobs, "enet", 1, 2, 4, 0, "noshift", "zerosum", false);
        lattice_jobs(&mut jobs, "lasso", 1, 3, 4, 1, "full", "free", false);
        lattice_jobs(&mut jobs, "enet", 1, 3, 4, 1, "noshift", "zerosum", false);
        if !t {
            lattice_jobs(&mut jobs, "lasso", 2, 3, 3, 3, "diag", "free", false);
            lattice_jobs(&mut jobs, "enet", 2, 3, 3, 3, "noshift", "zerosum", false);
        } else {
            lattice_jobs(&mut jobs, "lasso", 1, 4, 4, 2, "full", "free", false);
            lattice_jobs(&mut jobs, "enet", 1, 4, 4, 2, "noshift", "zerosum", false);
            lattice_jobs(&mut jobs, "lasso", 2, 3, 4, 3, "full", "free", false);
            lattice_jobs(&mut jobs, "enet", 2, 3, 4, 3, "noshift", "zerosum", false);
            lattice_jobs(&mut jobs, "lasso", 2, 4, 3, 5, "full", "free", false);
            lattice_jobs(&mut jobs, "enet", 2, 4, 3, 4, "noshift", "zerosum", false);
            lattice_jobs(&mut jobs, "lasso", 2, 5, 2, 6, "full", "free", false);
            lattice_jobs(&mut jobs, "enet", 2, 5, 2, 4, "noshift", "zerosum", false);
            lattice_jobs(&mut jobs, "lasso", 3, 4, 2, 7, "full", "free", false);
            lattice_jobs(&mut jobs, "enet", 3, 4, 2, 5, "noshift", "zerosum", false);
        }
        // ---- structured families (p <= 6, n <= 60); one job per (family, p, chunk of n values)
        let fam_ns = |p: usize| -> Vec<Vec<usize>> {
            if t {
                (p + 1..=60).collect::<Vec<_>>().chunks(5).map(|c| c.to_vec()).collect()
            } else {
                [p + 1, p + 2, 12, 31, 60].iter().filter(|n| **n > p).map(|n| vec![*n]).collect()
            }
        };
        for p in 1..=6usize {
            for fam in 0..families::N_FAMILIES {
                for ns in fam_ns(p) {
                    jobs.push(Job::new(format!("lasso-family{}-p{}-n{}", fam, p, ns[0]), json!({"kind": "fam", "est": "lasso", "fam": fam, "p": p, "ns": ns, "cfg": if t { "full" } else { "diag" }, "zero_mean": false})));
                    jobs.push(Job::new(format!("enet-family{}-p{}-n{}-zeromean", fam, p, ns[0]), json!({"kind": "fam", "est": "enet", "fam": fam, "p": p, "ns": ns, "cfg": "noshift", "zero_mean": true})));
                }
            }
        }
        // ---- from here on: classes in which the unchanged library can loop; the library call runs under
        //      the watchdog (a looping call leaves a spinning thread behind, so these jobs come last)
        // elastic net with a non-zero target mean (free targets, shifts)
        lattice_jobs(&mut jobs, "enet", 1, 2, 4, 1, "diag", "free", true);
        if t {
            lattice_jobs(&mut jobs, "enet", 1, 3, 4, 2, "diag", "free", true);
            lattice_jobs(&mut jobs, "enet", 2, 3, 2, 2, "diag", "zerosum", true);
        }
        for fam in 0..families::N_FAMILIES {
            for p in 1..=(if t { 4usize } else { 2 }) {
                let ns: Vec<usize> = if t { vec![p + 1, 12, 60] } else { vec![p + 1, 12] };
                jobs.push(Job::new(format!("enet-watched-family{}-p{}-shifted", fam, p), json!({"kind": "fam", "est": "enet", "fam": fam, "p": p, "ns": ns, "cfg": "diag", "zero_mean": true, "watch": true})));
            }
        }
        // invalid settings
        for shape in 0..(if t { invalid::SHAPES.len() } else { invalid::N_SHAPES_QUICK }) {
            for c in 0..invalid::CONST.len() {
                jobs.push(Job::new(format!("invalid-n{}-p{}-const{}", invalid::SHAPES[shape].0, invalid::SHAPES[shape].1, c), json!({"kind": "invalid", "shape": shape, "const": c})));
            }
        }
        // constant targets
        for est in ["lasso", "enet"] {
            for design in 0..(if t { 4 } else { 2 }) {
                for normalize in [true, false] {
                    jobs.push(Job::new(format!("ctarget-{}-design{}-{}", est, design, if normalize { "norm" } else { "raw" }), json!({"kind": "ctarget", "est": est, "design": design, "normalize": normalize, "wide": t})));
                }
            }
        }
        for j in jobs.iter_mut() {
            j.params["seed"] = json!(seed);
        }
        let jobs = {
            let mut j: Vec<Job> = jobs;
            j.insert(0, Job::new("builders", json!({"kind": "builders"})));
            for i in 0..mc_sc::entry::n_parts("C08") {
                j.insert(1 + i, Job::new(format!("entry-{}", i), json!({"kind": "entry", "part": i})));
            }
            j
        };
        Plan {
            jobs,
            budget_s: if t { 2700 } else { 40 },
            case_deadline_ms: 20_000,
            floors: vec![
                ("builder_chains", 5),
                ("entry_cases", 1000),
                ("fits_ok", 500_000),
                ("judged_lasso_normalized", 100_000),
                ("judged_lasso_raw", 100_000),
                ("judged_enet_mean_zero_normalized", 50_000),
                ("judged_enet_mean_zero_raw", 50_000),
                ("judged_enet_mean_nonzero", 2_000),
                ("optimum_all_zero", 50_000),
                ("optimum_sparse", 30_000),
                ("optimum_dense", 100_000),
                ("shifted_target_cases", 100_000),
                ("enet_shift_pairs_compared", 2_000),
                ("enet_l1ratio1_compared_with_lasso", 10_000),
                ("invalid_settings_rejected", 5_000),
                ("invalid_single_setting_rejected", 100),
                ("invalid_constant_column_rejected", 10),
                ("constant_target_cases", 32),
            ],
            bounds: json!({
                "builders": mc_sc::builders::BOUNDS,
                "entry_paths": mc_sc::entry::BOUNDS,
                "lattice_lasso": if t {
                    "every X over S4={0,1,-1,2} (no constant column) for (p,n) in {(1,2),(1,3),(1,4),(2,3)}, over S3={0,1,-1} for (2,4), over {0,1} for (2,5) and (3,4); every y over {0,1,-2,3}^n; alpha {0.1,1,1e-3,10} x normalize {on,off} x tol {1e-4,1e-3,1e-6} x shift {0,10,1e4}"
                } else {
                    "every X over S4={0,1,-1,2} (no constant column) for (p,n) in {(1,2),(1,3)}, over S3={0,1,-1} for (2,3); every y over {0,1,-2,3}^n; alpha {0.1,1,1e-3,10} x normalize {on,off} x tol {1e-4,1e-3,1e-6} x shift {0,10,1e4} (p=2: tol and shift paired)"
                },
                "lattice_elastic_net": "same X; every zero-sum y (first n-1 entries over {0,1,-2,3}, last = -sum; exact mean 0); alpha x normalize x l1_ratio {0.5,1,0.25} x tol; plus (watched) free targets and shifts for the known target-mean defect",
                "structured": format!("4 design families (Chebyshev, nested steps, integer residues, correlated ramps) x p=1..6 x n in {} x 3 column-scale patterns (1 / graded 1e-1..1e2 / alternating 1e2,1e-1) x 2 column offsets x 3 signal patterns x alpha {{0.1,1,1e-3, oracle-chosen all-zero alpha}} x normalize x tol x shift; designs with 2-norm condition number > 1e4 are outside the quantifier (fitted, only termination/no-panic judged)", if t { "p+1..=60 (every n)" } else { "{p+1,p+2,12,31,60}" }),
                "invalid_settings": "alpha {0.1,-1,-1e-3,-1e300} x tol {1e-4,0,-1e-4,-0} x max_iter {1000,0} x shapes (n>p, n=p, n<p) x len(y)-n {0,-1,1,2} x constant column {none, 8 values in every column position} x normalize: every combination with at least one invalid setting must return Err",
                "constant_targets": "quick: 2 designs x y = c*1 for c in {0,1} x alpha {0.1,10}; thorough: 4 designs x c in {0,1,-2.5,1e4} x alpha {0.1,10,1e-3,1}; x normalize x {Lasso, ElasticNet(0.5)}, under a 500 ms CPU-time watchdog",
                "slack": "objective(fit) <= min*(1+4 tol) + 1e-9 ||y-mean||^2 + 64 eps ||y||^2",
            }),
        }
    }

    fn run(&self, job: &Job) {
        if job.kind() == "entry" {
            return mc_sc::entry::run_part("C08", job.u("part"));
        }
        let seed = job.params["seed"].as_u64().unwrap_or(0);
        match job.kind() {
            "lat" => run_lattice(job, seed),
            "fam" => run_family(job, seed),
            "invalid" => invalid::run(job, seed),
            "ctarget" => run_ctarget(job, seed),
            "builders" => mc_sc::builders::run("C08"),
            other => panic!("unknown job kind {}", other),
        }
    }

    fn rule(&self) -> String {
        "one execution = one (estimator, X, y, alpha, l1_ratio, normalize, tol, target shift) fitted by the real code; non-trivial = the fit returned coefficients for a non-constant target (or an invalid setting was rejected with Err); distinct = distinct digest of the returned coefficients and intercept rounded to 9 significant digits".into()
    }

    fn assumptions(&self) -> Vec<String> {
        vec![
            "\"standardised columns\" = (x - column mean) / population standard deviation (what the library documents and uses); the reference computes both in two passes".into(),
            "\"moderately conditioned\" = 2-norm condition number of the design of the objective (standardised or raw columns) <= 1e4, decided by the reference one-sided Jacobi SVD".into(),
            "Lasso and ElasticNet draw no random numbers (no RNG call site in src/linear)".into(),
        ]
    }
}

fn main() {
    mc::main(C08)
}

#[allow(dead_code)]
fn _v(_: Value) {}
