//! Reference numerics for C08. Shares no code with /repo: two-pass standardisation, the stated
//! objective evaluated in residual form, and the EXACT minimum of the (elastic-net) lasso objective
//! by exhaustive enumeration of all 3^p sign patterns.

use mc_core::oracle::{self, Mat};

/// The design the stated objective is written in: standardised columns (two-pass population
/// mean / standard deviation) when normalisation is on, the raw columns otherwise.
pub struct Design {
    pub z: Mat,
    pub mean: Vec<f64>,
    pub std: Vec<f64>,
}

pub fn col_mean_std(x: &Mat) -> (Vec<f64>, Vec<f64>) {
    let n = x.len();
    let p = x[0].len();
    let mut mean = vec![0.0; p];
    let mut std = vec![0.0; p];
    for j in 0..p {
        let c = oracle::col(x, j);
        let m = c.iter().sum::<f64>() / n as f64;
        // second pass around the mean, with the usual correction term
        let d: Vec<f64> = c.iter().map(|v| v - m).collect();
        let corr = d.iter().sum::<f64>() / n as f64;
        let v = d.iter().map(|e| (e - corr) * (e - corr)).sum::<f64>() / n as f64;
        mean[j] = m + corr;
        std[j] = v.sqrt();
    }
    (mean, std)
}

pub fn design(x: &Mat, normalize: bool) -> Design {
    let p = x[0].len();
    if !normalize {
        return Design { z: x.clone(), mean: vec![0.0; p], std: vec![1.0; p] };
    }
    let (mean, std) = col_mean_std(x);
    let z = x.iter().map(|r| (0..p).map(|j| (r[j] - mean[j]) / std[j]).collect()).collect();
    Design { z, mean, std }
}

/// (y - mean(y), mean(y))
pub fn centre(y: &[f64]) -> (Vec<f64>, f64) {
    let n = y.len() as f64;
    let m0 = y.iter().sum::<f64>() / n;
    let m = m0 + y.iter().map(|v| v - m0).sum::<f64>() / n;
    (y.iter().map(|v| v - m).collect(), m)
}

/// ||yc - Z v||^2 + l2 ||v||^2 + l1 ||v||_1
pub fn objective(z: &Mat, yc: &[f64], v: &[f64], l1: f64, l2: f64) -> f64 {
    let mut rss = 0.0;
    for (row, yi) in z.iter().zip(yc) {
        let r = yi - oracle::dot(row, v);
        rss += r * r;
    }
    rss + l2 * v.iter().map(|a| a * a).sum::<f64>() + l1 * v.iter().map(|a| a.abs()).sum::<f64>()
}

pub struct Optimum {
    pub f: f64,
    pub v: Vec<f64>,
    /// number of coefficients of the minimiser that are exactly zero
    pub zeros: usize,
}

/// Exact minimum of the stated objective. For each sign pattern s in {0,+1,-1}^p the objective
/// restricted to that orthant is the quadratic ||yc - Z_A v_A||^2 + l2 ||v_A||^2 + l1 s_A.v_A; its
/// stationary point is evaluated in the TRUE objective (with |.|), so every candidate is an upper
/// bound of the minimum and the candidate of the minimiser's own pattern attains it.
pub fn exact_min(z: &Mat, yc: &[f64], l1: f64, l2: f64) -> Optimum {
    let p = z[0].len();
    let zt = oracle::transpose(z);
    let g = oracle::matmul(&zt, z);
    let c: Vec<f64> = zt.iter().map(|r| oracle::dot(r, yc)).collect();
    // candidates are ranked by the objective in Gram form (cheap); the winner is then evaluated in
    // residual form (accurate). Ranking errors are of relative size 1e-13, far below any tol.
    let yy = sq_norm(yc);
    let gram_form = |v: &[f64]| -> f64 {
        let mut q = 0.0;
        for i in 0..p {
            if v[i] != 0.0 {
                q += v[i] * (oracle::dot(&g[i], v) + l2 * v[i]) - 2.0 * c[i] * v[i] + l1 * v[i].abs();
            }
        }
        yy + q
    };
    let mut best_rank = yy;
    let mut best_v = vec![0.0; p];
    let mut best_zeros = p;
    let total = 3usize.pow(p as u32);
    let mut s = vec![0i8; p];
    let mut v = vec![0.0; p];
    for code in 1..total {
        let mut k = code;
        for sj in s.iter_mut() {
            *sj = match k % 3 {
                0 => 0,
                1 => 1,
                _ => -1,
            };
            k /= 3;
        }
        let act: Vec<usize> = (0..p).filter(|&j| s[j] != 0).collect();
        let a: Mat = act.iter().map(|&i| act.iter().map(|&j| g[i][j] + if i == j { l2 } else { 0.0 }).collect()).collect();
        let b: Vec<f64> = act.iter().map(|&i| c[i] - 0.5 * l1 * s[i] as f64).collect();
        let Some(sol) = oracle::solve(&a, &b) else { continue };
        if sol.iter().any(|t| !t.is_finite()) {
            continue;
        }
        v.iter_mut().for_each(|t| *t = 0.0);
        for (k, &j) in act.iter().enumerate() {
            v[j] = sol[k];
        }
        let r = gram_form(&v);
        if r < best_rank {
            best_rank = r;
            best_v.copy_from_slice(&v);
            best_zeros = p - act.len();
        }
    }
    Optimum { f: objective(z, yc, &best_v, l1, l2), v: best_v, zeros: best_zeros }
}

/// 2-norm condition number of the design (after centring nothing: the objective has no free
/// intercept, the design is used as it stands).
pub fn cond(z: &Mat) -> f64 {
    oracle::cond2(z)
}

pub fn sq_norm(v: &[f64]) -> f64 {
    v.iter().map(|a| a * a).sum()
}
