//! Per-thread execution recorder: the choice trace of the execution in progress, the violations,
//! counters, outcome digest and description it produced.
//!
//! A harness body never holds a reference to the recorder; it calls the free functions below, and
//! so does the RNG chooser that `mc-sc` installs into the library's `verif-hooks` seam.

use serde_json::Value;
use std::cell::RefCell;
use std::collections::BTreeMap;

#[derive(Clone, Copy, Debug, PartialEq, Eq)]
pub struct Entry {
    pub c: u32,
    pub n: u32,
    /// a "deviation-kind" choice: alternative 0 is the default environment answer
    pub dev: bool,
}

#[derive(Clone, Debug)]
pub struct Viol {
    pub site: String,
    pub what: String,
    pub detail: Value,
    /// the violation IS an observation of nondeterminism (e.g. "two fits of the same input in this
    /// execution differ"): it need not reproduce identically on replay to be reported
    pub nondet: bool,
}

#[derive(Default)]
pub struct Execution {
    pub trace: Vec<Entry>,
    pub viols: Vec<Viol>,
    pub digest: Option<u64>,
    pub nontrivial: bool,
    pub description: Option<Value>,
    pub divergence: Option<String>,
}

#[derive(Default)]
struct Rec {
    prefix: Vec<u32>,
    /// n recorded at each prefix position by the execution the prefix was derived from
    expected_n: Vec<u32>,
    sampling: bool,
    ex: Execution,
    counters: BTreeMap<&'static str, u64>,
}

thread_local! {
    static REC: RefCell<Rec> = RefCell::new(Rec::default());
}

pub(crate) fn begin(prefix: &[u32], expected_n: &[u32], sampling: bool) {
    REC.with(|r| {
        let mut r = r.borrow_mut();
        r.prefix.clear();
        r.prefix.extend_from_slice(prefix);
        r.expected_n.clear();
        r.expected_n.extend_from_slice(expected_n);
        r.sampling = sampling;
        r.ex = Execution::default();
    })
}

pub(crate) fn end() -> Execution {
    REC.with(|r| {
        let mut r = r.borrow_mut();
        let unused = r.prefix.len() > r.ex.trace.len();
        let mut ex = std::mem::take(&mut r.ex);
        if unused && ex.divergence.is_none() {
            ex.divergence = Some(format!(
                "replay divergence: prefix has {} choices but the execution made only {}",
                r.prefix.len(),
                ex.trace.len()
            ));
        }
        ex
    })
}

pub(crate) fn take_counters() -> BTreeMap<&'static str, u64> {
    REC.with(|r| std::mem::take(&mut r.borrow_mut().counters))
}

fn choose_kind(n: usize, dev: bool) -> usize {
    assert!(n > 0, "mc::choose(0)");
    if n == 1 {
        return 0;
    }
    REC.with(|r| {
        let mut r = r.borrow_mut();
        let i = r.ex.trace.len();
        let c = if i < r.prefix.len() {
            let c = r.prefix[i];
            if c as usize >= n {
                if r.ex.divergence.is_none() {
                    r.ex.divergence = Some(format!(
                        "replay divergence: choice {} at position {} but only {} alternatives",
                        c, i, n
                    ));
                }
                0
            } else {
                if i < r.expected_n.len() && r.expected_n[i] as usize != n && r.ex.divergence.is_none() {
                    r.ex.divergence = Some(format!(
                        "replay divergence: position {} offered {} alternatives, {} when the prefix was recorded",
                        i, n, r.expected_n[i]
                    ));
                }
                c
            }
        } else {
            0
        };
        r.ex.trace.push(Entry { c, n: n as u32, dev });
        c as usize
    })
}

/// An input/configuration choice: every alternative is explored.
pub fn choose(n: usize) -> usize {
    choose_kind(n, false)
}

/// An environment answer whose alternative 0 is the default; counted against the job's deviation
/// bound when the job has one.
pub fn choose_dev(n: usize) -> usize {
    choose_kind(n, true)
}

/// Pick one element of a slice (simplest first).
pub fn pick<T: Clone>(xs: &[T]) -> T {
    xs[choose(xs.len())].clone()
}

pub fn violation(site: impl Into<String>, what: impl Into<String>) {
    violation_d(site, what, Value::Null)
}

pub fn violation_d(site: impl Into<String>, what: impl Into<String>, detail: Value) {
    let v = Viol { site: site.into(), what: what.into(), detail, nondet: false };
    REC.with(|r| r.borrow_mut().ex.viols.push(v))
}

/// A violation of a determinism / reproducibility clause, observed inside one execution (the same
/// call made twice gave different results). The observation itself is the evidence; the driver
/// reports it even if a replay happens to draw equal results.
pub fn violation_nondet(site: impl Into<String>, what: impl Into<String>) {
    let v = Viol { site: site.into(), what: what.into(), detail: Value::Null, nondet: true };
    REC.with(|r| r.borrow_mut().ex.viols.push(v))
}

/// Number of violations recorded so far in this execution.
pub fn n_violations() -> usize {
    REC.with(|r| r.borrow().ex.viols.len())
}

pub fn count(name: &'static str) {
    count_n(name, 1)
}

pub fn count_n(name: &'static str, k: u64) {
    REC.with(|r| *r.borrow_mut().counters.entry(name).or_insert(0) += k)
}

/// Digest of what the code under test produced in this execution (not of the input). Several calls
/// are combined.
pub fn outcome(d: u64) {
    REC.with(|r| {
        let mut r = r.borrow_mut();
        let cur = r.ex.digest.unwrap_or(0xcbf29ce484222325);
        r.ex.digest = Some(crate::hash::mix(cur, d));
    })
}

/// Mark this execution as non-trivial by the property's rule.
pub fn nontrivial() {
    REC.with(|r| r.borrow_mut().ex.nontrivial = true)
}

/// True when the explorer wants a description of this execution (sample / replay / violation).
pub fn sampling() -> bool {
    REC.with(|r| r.borrow().sampling)
}

/// Describe the case (decoded input, parameters, schedule, observed values). Evaluated only when
/// `sampling()`.
pub fn describe(f: impl FnOnce() -> Value) {
    if sampling() {
        let v = f();
        REC.with(|r| {
            let mut r = r.borrow_mut();
            match (&mut r.ex.description, v) {
                (Some(Value::Object(old)), Value::Object(new)) => old.extend(new),
                (slot, v) => *slot = Some(v),
            }
        })
    }
}
