//! Control block shared between the parent and its worker processes (a file mapped MAP_SHARED):
//! a work counter for dynamic job distribution, a stop flag, and one slot per worker in which the
//! worker publishes the case it is about to execute, so that the parent can attribute a hang, an
//! abort or a stack overflow to an exact (job, choice prefix).

use std::fs::OpenOptions;
use std::os::unix::io::AsRawFd;
use std::path::Path;
use std::sync::atomic::{AtomicU32, AtomicU64, Ordering};

pub const SLOT_BYTES: usize = 4096;
pub const HEADER_BYTES: usize = 4096;
pub const MAX_PREFIX: usize = (SLOT_BYTES - 16) / 4;

pub struct Ctl {
    base: *mut u8,
    len: usize,
    pub workers: usize,
}

unsafe impl Send for Ctl {}
unsafe impl Sync for Ctl {}

pub fn now_ms() -> u64 {
    let mut ts = libc::timespec { tv_sec: 0, tv_nsec: 0 };
    unsafe { libc::clock_gettime(libc::CLOCK_MONOTONIC, &mut ts) };
    ts.tv_sec as u64 * 1000 + ts.tv_nsec as u64 / 1_000_000
}

impl Ctl {
    pub fn open(path: &Path, workers: usize, create: bool) -> std::io::Result<Ctl> {
        let len = HEADER_BYTES + workers * SLOT_BYTES;
        let f = OpenOptions::new().read(true).write(true).create(create).truncate(create).open(path)?;
        if create {
            f.set_len(len as u64)?;
        }
        let p = unsafe {
            libc::mmap(
                std::ptr::null_mut(),
                len,
                libc::PROT_READ | libc::PROT_WRITE,
                libc::MAP_SHARED,
                f.as_raw_fd(),
                0,
            )
        };
        if p == libc::MAP_FAILED {
            return Err(std::io::Error::last_os_error());
        }
        Ok(Ctl { base: p as *mut u8, len, workers })
    }

    fn a64(&self, off: usize) -> &AtomicU64 {
        assert!(off + 8 <= self.len);
        unsafe { &*(self.base.add(off) as *const AtomicU64) }
    }
    fn a32(&self, off: usize) -> &AtomicU32 {
        assert!(off + 4 <= self.len);
        unsafe { &*(self.base.add(off) as *const AtomicU32) }
    }

    pub fn next_job(&self) -> u64 {
        self.a64(0).fetch_add(1, Ordering::SeqCst)
    }
    pub fn stop(&self) -> bool {
        self.a64(8).load(Ordering::Relaxed) != 0
    }
    pub fn set_stop(&self) {
        self.a64(8).store(1, Ordering::SeqCst)
    }
    /// absolute deadline (CLOCK_MONOTONIC ms) after which workers take no further work; 0 = none
    pub fn deadline_ms(&self) -> u64 {
        self.a64(16).load(Ordering::Relaxed)
    }
    pub fn set_deadline_ms(&self, t: u64) {
        self.a64(16).store(t, Ordering::SeqCst)
    }

    fn slot(&self, w: usize) -> usize {
        assert!(w < self.workers);
        HEADER_BYTES + w * SLOT_BYTES
    }

    /// Worker side: announce the case about to run.
    pub fn publish(&self, w: usize, job: u32, prefix: &[u32]) {
        let s = self.slot(w);
        self.a64(s).store(0, Ordering::SeqCst);
        self.a32(s + 8).store(job, Ordering::Relaxed);
        let n = prefix.len().min(MAX_PREFIX);
        self.a32(s + 12).store(prefix.len() as u32, Ordering::Relaxed);
        for (i, c) in prefix.iter().take(n).enumerate() {
            self.a32(s + 16 + 4 * i).store(*c, Ordering::Relaxed);
        }
        self.a64(s).store(now_ms().max(1), Ordering::SeqCst);
    }
    /// Worker side: no case in progress.
    pub fn idle(&self, w: usize) {
        self.a64(self.slot(w)).store(0, Ordering::SeqCst);
    }
    /// Parent side: (start_ms, job, prefix) of the case in progress, if any.
    pub fn current(&self, w: usize) -> Option<(u64, u32, Vec<u32>)> {
        let s = self.slot(w);
        let t = self.a64(s).load(Ordering::SeqCst);
        if t == 0 {
            return None;
        }
        let job = self.a32(s + 8).load(Ordering::Relaxed);
        let n = self.a32(s + 12).load(Ordering::Relaxed) as usize;
        if n > MAX_PREFIX {
            return Some((t, job, Vec::new()));
        }
        let p = (0..n).map(|i| self.a32(s + 16 + 4 * i).load(Ordering::Relaxed)).collect();
        if self.a64(s).load(Ordering::SeqCst) != t {
            return None;
        }
        Some((t, job, p))
    }
}
