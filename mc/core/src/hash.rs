//! Small deterministic hashing helpers for outcome digests (std's SipHash is randomly keyed).

#[inline]
pub fn mix(h: u64, x: u64) -> u64 {
    let mut z = (h ^ x).wrapping_mul(0x9E3779B97F4A7C15);
    z ^= z >> 29;
    z = z.wrapping_mul(0xBF58476D1CE4E5B9);
    z ^ (z >> 32)
}

pub fn h_bytes(b: &[u8]) -> u64 {
    let mut h = 0xcbf29ce484222325u64;
    for &x in b {
        h = (h ^ x as u64).wrapping_mul(0x100000001b3);
    }
    h
}

pub fn h_str(s: &str) -> u64 {
    h_bytes(s.as_bytes())
}

pub fn h_u64s(xs: &[u64]) -> u64 {
    xs.iter().fold(0x1234_5678_9abc_def1, |h, &x| mix(h, x))
}

pub fn h_usizes(xs: &[usize]) -> u64 {
    xs.iter().fold(0x1234_5678_9abc_def2, |h, &x| mix(h, x as u64))
}

/// Bit-exact digest of floats (-0.0 and 0.0 identified, all NaNs identified).
pub fn h_f64s(xs: &[f64]) -> u64 {
    xs.iter().fold(0x1234_5678_9abc_def3, |h, &x| mix(h, canon_bits(x)))
}

/// Digest of floats rounded to `digits` significant decimal digits (for quantities whose last ulps
/// legitimately vary, e.g. sums in hash-map iteration order).
pub fn h_f64s_rounded(xs: &[f64], digits: i32) -> u64 {
    xs.iter().fold(0x1234_5678_9abc_def4, |h, &x| mix(h, canon_bits(round_sig(x, digits))))
}

pub fn canon_bits(x: f64) -> u64 {
    if x.is_nan() {
        0x7ff8_0000_0000_0000
    } else if x == 0.0 {
        0
    } else {
        x.to_bits()
    }
}

pub fn round_sig(x: f64, digits: i32) -> f64 {
    if x == 0.0 || !x.is_finite() {
        return x;
    }
    let e = x.abs().log10().floor() as i32;
    let s = 10f64.powi(digits - 1 - e);
    (x * s).round() / s
}
