//! mc-core: the model-checking engines shared by all property harnesses.
//!
//! * `explore`  — E1, stateless choice-tree exploration with prefix replay and deviation bounding
//! * `bfs`      — E2, explicit-state breadth-first search over real objects
//! * `driver`   — process pool, watchdog, known-findings triage, replay confirmation, evidence
//! * `oracle`   — exact / reference numerics that never share code with the library under test

pub mod bfs;
pub mod driver;
pub mod explore;
pub mod guard;
pub mod hash;
pub mod kf;
pub mod oracle;
pub mod rec;
pub mod shm;

pub use guard::{guard, PanicInfo};
pub use rec::{choose, choose_dev, count, count_n, describe, n_violations, nontrivial, outcome, pick, sampling, violation, violation_d, violation_nondet};
pub use serde_json::{json, Value};

use serde::{Deserialize, Serialize};

#[derive(Clone, Copy, Debug, PartialEq, Eq)]
pub enum Tier {
    Quick,
    Thorough,
}

impl Tier {
    pub fn name(self) -> &'static str {
        match self {
            Tier::Quick => "quick",
            Tier::Thorough => "thorough",
        }
    }
    pub fn is_thorough(self) -> bool {
        self == Tier::Thorough
    }
}

/// One independently explorable sub-space. Jobs are handed to worker processes dynamically, in
/// the order given (simplest first).
#[derive(Serialize, Deserialize, Clone, Debug)]
pub struct Job {
    pub name: String,
    pub params: Value,
    /// bound on the number of non-default `choose_dev` answers per execution (None = unbounded)
    #[serde(default)]
    pub dev_bound: Option<u32>,
}

impl Job {
    pub fn new(name: impl Into<String>, params: Value) -> Job {
        Job { name: name.into(), params, dev_bound: None }
    }
    pub fn with_dev_bound(mut self, b: u32) -> Job {
        self.dev_bound = Some(b);
        self
    }
    pub fn i(&self, k: &str) -> i64 {
        self.params[k].as_i64().unwrap_or_else(|| panic!("job {}: missing integer parameter {}", self.name, k))
    }
    pub fn u(&self, k: &str) -> usize {
        self.i(k) as usize
    }
    pub fn f(&self, k: &str) -> f64 {
        self.params[k].as_f64().unwrap_or_else(|| panic!("job {}: missing number parameter {}", self.name, k))
    }
    pub fn s(&self, k: &str) -> &str {
        self.params[k].as_str().unwrap_or_else(|| panic!("job {}: missing string parameter {}", self.name, k))
    }
    pub fn b(&self, k: &str) -> bool {
        self.params[k].as_bool().unwrap_or(false)
    }
    pub fn kind(&self) -> &str {
        self.params["kind"].as_str().unwrap_or("")
    }
}

/// Result of an explicit-state search (E2) or any other complete enumeration that is not driven
/// through the choice-tree explorer.
#[derive(Default, Clone, Debug)]
pub struct ExtraResult {
    pub name: String,
    pub states: u64,
    pub transitions: u64,
    pub max_depth: usize,
    pub complete: bool,
    pub sites: std::collections::BTreeMap<String, explore::SiteStat>,
    pub counters: std::collections::BTreeMap<String, u64>,
    pub samples: Vec<Value>,
    pub distinct_outcomes: u64,
}

pub struct Plan {
    pub jobs: Vec<Job>,
    /// wall-clock budget for the exploration (seconds); what is not started by then is reported as a cap
    pub budget_s: u64,
    /// per-execution deadline (milliseconds); exceeding it is a violation of a termination clause
    pub case_deadline_ms: u64,
    /// (counter, minimum) non-vacuity floors; unmet floors are a machinery failure
    pub floors: Vec<(&'static str, u64)>,
    /// free-form description of the enumerated space
    pub bounds: Value,
}

pub trait Harness: Sync + Send + 'static {
    fn id(&self) -> &'static str;
    fn plan(&self, tier: Tier, seed: u64) -> Plan;
    /// One execution of the harness body; draws every input choice via `mc_core::choose`.
    fn run(&self, job: &Job);
    /// Called after every execution, also when it panicked (e.g. to uninstall the RNG chooser).
    fn cleanup(&self) {}
    /// Explicit-state searches, run in the parent process next to the E1 workers.
    fn extra(&self, _tier: Tier, _seed: u64) -> Vec<ExtraResult> {
        Vec::new()
    }
    fn rule(&self) -> String;
    fn assumptions(&self) -> Vec<String>;
    fn engine(&self) -> &'static str {
        "E1 stateless choice-tree exploration of the real code (prefix replay, simplest-first alphabets)"
    }
}

pub fn main<H: Harness>(h: H) {
    driver::main(h)
}

/// Record a violation for a library call that must not panic; returns the value otherwise.
pub fn must_not_panic<T>(site: &str, what: &str, f: impl FnOnce() -> T) -> Option<T> {
    match guard(f) {
        Ok(v) => Some(v),
        Err(p) => {
            let suffix = if p.is_overflow_check() { ":overflow-check" } else { "" };
            violation(
                format!("{}:panic{}", site, suffix),
                format!("{}: {}{}", what, p.brief(), if p.is_overflow_check() { " (only in builds with arithmetic overflow checks, e.g. the dev/test profile; plain release wraps)" } else { "" }),
            );
            None
        }
    }
}
