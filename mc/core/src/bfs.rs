//! E2: explicit-state breadth-first search over real objects.
//!
//! A state is whatever the harness says it is (a canonical snapshot from which the real object is
//! rebuilt, or the operation history). `next` applies every enabled action to the *real* object and
//! returns the successor snapshots; `check` evaluates the invariant (comparison with the reference
//! model) in every state. States are deduplicated by their canonical form, so `states` and
//! `transitions` are exact counts of the reachable graph within the depth bound.

use crate::explore::{FirstViol, SiteStat};
use crate::{ExtraResult, Job};
use serde_json::Value;
use std::collections::{HashMap, VecDeque};
use std::hash::Hash;

pub struct BfsViol {
    pub site: String,
    pub what: String,
}

pub trait Model {
    type State: Clone + Eq + Hash;
    type Action: Clone + std::fmt::Debug;
    fn init(&self) -> Vec<Self::State>;
    fn actions(&self, s: &Self::State) -> Vec<Self::Action>;
    /// Apply the action to the real object rebuilt from `s`. `None` = action not enabled / rejected.
    fn step(&self, s: &Self::State, a: &Self::Action) -> Option<Self::State>;
    /// Invariants of state `s` reached by `path` (violations are reported with that path).
    fn check(&self, s: &Self::State, last: Option<(&Self::State, &Self::Action)>) -> Vec<BfsViol>;
    /// Checks of one transition s --a--> t, evaluated on EVERY edge (also edges into already
    /// visited states, where `check` is not called again).
    fn check_transition(&self, _s: &Self::State, _a: &Self::Action, _t: &Self::State) -> Vec<BfsViol> {
        Vec::new()
    }
    /// Named predicates counted over all states (non-vacuity witnesses).
    fn witnesses(&self, _s: &Self::State) -> Vec<&'static str> {
        Vec::new()
    }
    fn show_state(&self, s: &Self::State) -> Value;
    fn show_action(&self, a: &Self::Action) -> Value {
        Value::String(format!("{:?}", a))
    }
    /// A job that replays `path` from `init` through the E1 replay entry point.
    fn replay_job(&self, init: &Self::State, path: &[Self::Action]) -> Job;
}

pub fn search<M: Model>(name: &str, m: &M, max_depth: usize, max_states: usize) -> ExtraResult {
    let mut res = ExtraResult { name: name.to_string(), complete: true, ..Default::default() };
    // state -> (parent index, action taken, depth)
    let mut index: HashMap<M::State, usize> = HashMap::new();
    let mut nodes: Vec<(M::State, Option<(usize, M::Action)>, usize)> = Vec::new();
    let mut queue: VecDeque<usize> = VecDeque::new();
    let path_of = |nodes: &Vec<(M::State, Option<(usize, M::Action)>, usize)>, mut i: usize| -> (M::State, Vec<M::Action>) {
        let mut acts = Vec::new();
        while let Some((p, a)) = &nodes[i].1 {
            acts.push(a.clone());
            i = *p;
        }
        acts.reverse();
        (nodes[i].0.clone(), acts)
    };
    let mut report = |res: &mut ExtraResult, nodes: &Vec<(M::State, Option<(usize, M::Action)>, usize)>, i: usize, vs: Vec<BfsViol>| {
        for v in vs {
            if let Some(s) = res.sites.get_mut(&v.site) {
                s.count += 1;
                continue;
            }
            let (init, acts) = path_of(nodes, i);
            let job = m.replay_job(&init, &acts);
            res.sites.insert(
                v.site.clone(),
                SiteStat {
                    count: 1,
                    first: FirstViol {
                        nondet: false,
                        job,
                        choices: Vec::new(),
                        what: v.what,
                        detail: Value::Null,
                        description: serde_json::json!({
                            "init": m.show_state(&init),
                            "actions": acts.iter().map(|a| m.show_action(a)).collect::<Vec<_>>(),
                            "state": m.show_state(&nodes[i].0),
                        }),
                    },
                },
            );
        }
    };
    for s in m.init() {
        if !index.contains_key(&s) {
            index.insert(s.clone(), nodes.len());
            nodes.push((s, None, 0));
            queue.push_back(nodes.len() - 1);
        }
    }
    for i in 0..nodes.len() {
        let vs = m.check(&nodes[i].0, None);
        for wname in m.witnesses(&nodes[i].0) {
            *res.counters.entry(wname.to_string()).or_insert(0) += 1;
        }
        report(&mut res, &nodes, i, vs);
    }
    while let Some(i) = queue.pop_front() {
        let (s, _, d) = nodes[i].clone();
        res.max_depth = res.max_depth.max(d);
        if d >= max_depth {
            continue;
        }
        for a in m.actions(&s) {
            let Some(t) = m.step(&s, &a) else { continue };
            res.transitions += 1;
            let tv = m.check_transition(&s, &a, &t);
            if !tv.is_empty() {
                // report with the path to s extended by a: register t temporarily as a node
                nodes.push((t.clone(), Some((i, a.clone())), d + 1));
                let j = nodes.len() - 1;
                report(&mut res, &nodes, j, tv);
                nodes.pop();
            }
            if index.contains_key(&t) {
                continue;
            }
            if nodes.len() >= max_states {
                res.complete = false;
                continue;
            }
            index.insert(t.clone(), nodes.len());
            nodes.push((t.clone(), Some((i, a.clone())), d + 1));
            let j = nodes.len() - 1;
            queue.push_back(j);
            let vs = m.check(&t, Some((&s, &a)));
            for wname in m.witnesses(&t) {
                *res.counters.entry(wname.to_string()).or_insert(0) += 1;
            }
            report(&mut res, &nodes, j, vs);
            if res.samples.len() < 3 && (j == 1 || j == 500 || j == 20_000) {
                let (init, acts) = path_of(&nodes, j);
                res.samples.push(serde_json::json!({
                    "engine": "E2", "search": name,
                    "init": m.show_state(&init),
                    "actions": acts.iter().map(|a| m.show_action(a)).collect::<Vec<_>>(),
                    "state": m.show_state(&t),
                }));
            }
        }
    }
    res.states = nodes.len() as u64;
    res.distinct_outcomes = nodes.len() as u64;
    res
}
