//! E1: stateless choice-tree exploration of one job (CHESS-style prefix replay with optional
//! deviation bounding).

use crate::rec::{self, Entry, Execution};
use crate::shm::{now_ms, Ctl};
use crate::{guard, Harness, Job};
use serde::{Deserialize, Serialize};
use serde_json::Value;
use std::collections::{BTreeMap, HashSet};

#[derive(Serialize, Deserialize, Clone, Debug)]
pub struct FirstViol {
    #[serde(default)]
    pub nondet: bool,
    pub job: Job,
    pub choices: Vec<u32>,
    pub what: String,
    pub detail: Value,
    pub description: Value,
}

#[derive(Serialize, Deserialize, Clone, Debug)]
pub struct SiteStat {
    pub count: u64,
    pub first: FirstViol,
}

#[derive(Serialize, Deserialize, Clone, Debug, Default)]
pub struct JobStats {
    pub job_index: usize,
    pub name: String,
    pub execs: u64,
    pub transitions: u64,
    pub nontrivial: u64,
    pub max_depth: usize,
    pub dev_bound: Option<u32>,
    pub truncated: bool,
    pub sites: BTreeMap<String, SiteStat>,
    pub counters: BTreeMap<String, u64>,
    pub samples: Vec<Value>,
    pub wall_ms: u64,
}

/// Run one execution with the given prefix. Returns the recorded execution; a panic escaping the
/// harness body is turned into a violation.
pub fn run_once<H: Harness>(h: &H, job: &Job, prefix: &[u32], expected_n: &[u32], sampling: bool) -> Execution {
    rec::begin(prefix, expected_n, sampling);
    let r = guard::guard(|| h.run(job));
    h.cleanup();
    let mut ex = rec::end();
    if let Err(p) = r {
        ex.viols.push(rec::Viol {
            site: format!("uncaught-panic:{}", p.short_loc()),
            what: format!("panic escaped the harness body: {}", p.brief()),
            detail: Value::Null,
            nondet: false,
        });
    }
    ex
}

fn describe_case(job: &Job, ex: &Execution) -> Value {
    serde_json::json!({
        "job": job.name,
        "choices": ex.trace.iter().map(|e| e.c).collect::<Vec<_>>(),
        "case": ex.description.clone().unwrap_or(Value::Null),
    })
}

/// Compute the next prefix in depth-first order, honouring the deviation bound.
fn advance(trace: &[Entry], dev_bound: Option<u32>) -> Option<(Vec<u32>, Vec<u32>)> {
    let mut i = trace.len();
    while i > 0 {
        i -= 1;
        let e = trace[i];
        if e.c + 1 < e.n {
            let allowed = match (dev_bound, e.dev) {
                (Some(b), true) if e.c == 0 => {
                    let used = trace[..i].iter().filter(|x| x.dev && x.c != 0).count() as u32;
                    used < b
                }
                _ => true,
            };
            if allowed {
                let mut p: Vec<u32> = trace[..i].iter().map(|x| x.c).collect();
                p.push(e.c + 1);
                let mut ns: Vec<u32> = trace[..i].iter().map(|x| x.n).collect();
                ns.push(e.n);
                return Some((p, ns));
            }
        }
    }
    None
}

pub struct WorkerCtx<'a> {
    pub ctl: Option<&'a Ctl>,
    pub worker: usize,
    pub digests: &'a mut HashSet<u64>,
    pub digest_cap: usize,
    pub digests_capped: &'a mut bool,
    pub samples_per_job: usize,
}

pub fn explore_job<H: Harness>(h: &H, job: &Job, job_index: usize, w: &mut WorkerCtx) -> Result<JobStats, String> {
    let t0 = now_ms();
    let mut st = JobStats { job_index, name: job.name.clone(), dev_bound: job.dev_bound, ..Default::default() };
    let mut prefix: Vec<u32> = Vec::new();
    let mut expected: Vec<u32> = Vec::new();
    let _ = rec::take_counters();
    loop {
        if let Some(c) = w.ctl {
            c.publish(w.worker, job_index as u32, &prefix);
        }
        let want_sample = (st.samples.len() < w.samples_per_job) && (st.execs == 0 || st.execs == 777 || st.execs == 77_777);
        let ex = run_once(h, job, &prefix, &expected, want_sample);
        if let Some(d) = &ex.divergence {
            return Err(format!("{} (job {}, prefix {:?})", d, job.name, prefix));
        }
        st.execs += 1;
        st.transitions += (ex.trace.len() + 1).saturating_sub(prefix.len().max(1)) as u64;
        st.max_depth = st.max_depth.max(ex.trace.len());
        if ex.nontrivial {
            st.nontrivial += 1;
            if let Some(d) = ex.digest {
                if w.digests.len() < w.digest_cap {
                    w.digests.insert(d);
                } else {
                    *w.digests_capped = true;
                }
            }
        }
        if want_sample {
            st.samples.push(describe_case(job, &ex));
        }
        if !ex.viols.is_empty() {
            let mut described: Option<Value> = if want_sample { Some(describe_case(job, &ex)) } else { None };
            for v in &ex.viols {
                if let Some(s) = st.sites.get_mut(&v.site) {
                    s.count += 1;
                    continue;
                }
                if described.is_none() {
                    // re-run this very case once with sampling on to obtain its description
                    let choices: Vec<u32> = ex.trace.iter().map(|e| e.c).collect();
                    let ns: Vec<u32> = ex.trace.iter().map(|e| e.n).collect();
                    let ex2 = run_once(h, job, &choices, &ns, true);
                    described = Some(describe_case(job, &ex2));
                }
                st.sites.insert(
                    v.site.clone(),
                    SiteStat {
                        count: 1,
                        first: FirstViol {
                            nondet: v.nondet,
                            job: job.clone(),
                            choices: ex.trace.iter().map(|e| e.c).collect(),
                            what: v.what.clone(),
                            detail: v.detail.clone(),
                            description: described.clone().unwrap_or(Value::Null),
                        },
                    },
                );
            }
        }
        match advance(&ex.trace, job.dev_bound) {
            Some((p, ns)) => {
                prefix = p;
                expected = ns;
            }
            None => break,
        }
        if st.execs % 64 == 0 {
            if let Some(c) = w.ctl {
                let dl = c.deadline_ms();
                if c.stop() || (dl != 0 && now_ms() > dl) {
                    st.truncated = true;
                    break;
                }
            }
        }
    }
    if let Some(c) = w.ctl {
        c.idle(w.worker);
    }
    for (k, v) in rec::take_counters() {
        st.counters.insert(k.to_string(), v);
    }
    st.wall_ms = now_ms() - t0;
    Ok(st)
}
