//! Panic capture: every call into the code under test goes through `guard`, which turns a panic
//! into `Err(PanicInfo)` carrying the message and source location.

use std::cell::RefCell;
use std::panic::{self, AssertUnwindSafe};

#[derive(Clone, Debug)]
pub struct PanicInfo {
    pub msg: String,
    pub loc: String,
}

impl PanicInfo {
    /// True for the panics that only builds with arithmetic overflow checks produce.
    pub fn is_overflow_check(&self) -> bool {
        self.msg.starts_with("attempt to ") && self.msg.contains("overflow")
    }
    /// `file:line` with the repository prefix removed, for use in site keys.
    pub fn short_loc(&self) -> String {
        let l = self.loc.rsplit("src/").next().unwrap_or(&self.loc);
        let mut it = l.split(':');
        format!("{}:{}", it.next().unwrap_or(""), it.next().unwrap_or(""))
    }
    pub fn brief(&self) -> String {
        let m: String = self.msg.chars().take(160).collect();
        format!("panic at {}: {}", self.short_loc(), m)
    }
}

thread_local! {
    static LAST: RefCell<Option<PanicInfo>> = RefCell::new(None);
}

pub fn install_quiet_hook() {
    let verbose = std::env::var("MC_VERBOSE").is_ok();
    panic::set_hook(Box::new(move |info| {
        let msg = if let Some(s) = info.payload().downcast_ref::<&str>() {
            s.to_string()
        } else if let Some(s) = info.payload().downcast_ref::<String>() {
            s.clone()
        } else {
            "<non-string panic payload>".to_string()
        };
        let loc = info
            .location()
            .map(|l| format!("{}:{}:{}", l.file(), l.line(), l.column()))
            .unwrap_or_default();
        if verbose {
            eprintln!("[panic] {} at {}", msg, loc);
        }
        LAST.with(|l| *l.borrow_mut() = Some(PanicInfo { msg, loc }));
    }));
}

/// Run `f`, converting a panic into `Err`.
pub fn guard<T>(f: impl FnOnce() -> T) -> Result<T, PanicInfo> {
    LAST.with(|l| *l.borrow_mut() = None);
    match panic::catch_unwind(AssertUnwindSafe(f)) {
        Ok(v) => Ok(v),
        Err(_) => Err(LAST.with(|l| l.borrow_mut().take()).unwrap_or(PanicInfo {
            msg: "<panic without hook record>".into(),
            loc: String::new(),
        })),
    }
}
