//! The committed known-findings file (/verif/known_findings.txt). Never written at run time.
//!
//! Line format (one finding per line, `#` comments):
//!   known: property=<id> site=<site-key> <what fails>
//!   fixed: property=<id> <commit> site=<site-key> <what failed>
//! A `known` entry turns a violation with exactly that site key into a KNOWN-FINDING line; a
//! `fixed` entry suppresses nothing.

use std::path::Path;

#[derive(Clone, Debug)]
pub struct Finding {
    pub property: String,
    pub site: String,
    pub fixed: bool,
    pub commit: Option<String>,
    pub what: String,
}

pub fn load(path: &Path) -> Result<Vec<Finding>, String> {
    let txt = match std::fs::read_to_string(path) {
        Ok(t) => t,
        Err(e) if e.kind() == std::io::ErrorKind::NotFound => return Ok(Vec::new()),
        Err(e) => return Err(format!("cannot read {}: {}", path.display(), e)),
    };
    let mut out = Vec::new();
    for (ln, line) in txt.lines().enumerate() {
        let line = line.trim();
        if line.is_empty() || line.starts_with('#') {
            continue;
        }
        let (fixed, rest) = if let Some(r) = line.strip_prefix("known:") {
            (false, r)
        } else if let Some(r) = line.strip_prefix("fixed:") {
            (true, r)
        } else {
            return Err(format!("{}:{}: line must start with 'known:' or 'fixed:'", path.display(), ln + 1));
        };
        let mut property = None;
        let mut site = None;
        let mut commit = None;
        let mut what: Vec<&str> = Vec::new();
        for tok in rest.split_whitespace() {
            if property.is_none() && tok.starts_with("property=") {
                property = Some(tok["property=".len()..].to_string());
            } else if site.is_none() && tok.starts_with("site=") {
                site = Some(tok["site=".len()..].to_string());
            } else if fixed && commit.is_none() && site.is_none() && property.is_some() {
                commit = Some(tok.to_string());
            } else {
                what.push(tok);
            }
        }
        let (property, site) = match (property, site) {
            (Some(p), Some(s)) => (p, s),
            _ => return Err(format!("{}:{}: needs property=<id> and site=<key>", path.display(), ln + 1)),
        };
        out.push(Finding { property, site, fixed, commit, what: what.join(" ") });
    }
    Ok(out)
}
