//! Process pool, watchdog, triage against the known-findings file, replay confirmation, evidence.
//!
//! Exit codes: 0 = property held on everything explored (known findings are printed and do not
//! count); 1 = violation (a `VIOLATION property=<id> replay=<path>` line per unknown site);
//! 2 = machinery failure (never a verdict).

use crate::explore::{self, FirstViol, JobStats, SiteStat, WorkerCtx};
use crate::shm::{now_ms, Ctl};
use crate::{guard, kf, Harness, Job, Tier};
use serde_json::{json, Value};
use std::collections::{BTreeMap, HashSet};
use std::io::{BufRead, Write};
use std::path::{Path, PathBuf};
use std::process::{Child, Command, Stdio};

const VERIF: &str = "/verif";

static STARTUP_CAPS: std::sync::Mutex<Vec<String>> = std::sync::Mutex::new(Vec::new());

/// Register, before `main`, a limitation of this run that must appear in `caps_hit` (and makes the run
/// non-exhaustive), e.g. "the library has an RNG call site that no seam owns".
pub fn note_cap(msg: String) {
    STARTUP_CAPS.lock().unwrap().push(msg);
}

struct Args {
    tier: Tier,
    seed: u64,
    workers: usize,
    replay: Option<PathBuf>,
    worker: Option<(usize, PathBuf, PathBuf)>,
    list_jobs: bool,
    budget_s: Option<u64>,
    only_job: Option<String>,
    no_evidence: bool,
}

fn parse_args() -> Args {
    let mut a = Args {
        tier: match std::env::var("VERIF_TIER").as_deref() {
            Ok("thorough") => Tier::Thorough,
            _ => Tier::Quick,
        },
        seed: std::env::var("VERIF_SEED").ok().and_then(|s| s.trim().parse::<i64>().ok()).map(|x| x as u64).unwrap_or(0),
        workers: std::thread::available_parallelism().map(|n| n.get()).unwrap_or(4).min(16),
        replay: None,
        worker: None,
        list_jobs: false,
        budget_s: None,
        only_job: None,
        no_evidence: false,
    };
    let v: Vec<String> = std::env::args().skip(1).collect();
    let mut i = 0;
    let need = |i: usize| -> String { v.get(i + 1).cloned().unwrap_or_else(|| die(2, &format!("missing value after {}", v[i]))) };
    while i < v.len() {
        match v[i].as_str() {
            "--tier" => {
                a.tier = match need(i).as_str() {
                    "quick" => Tier::Quick,
                    "thorough" => Tier::Thorough,
                    x => die(2, &format!("unknown tier {}", x)),
                };
                i += 1;
            }
            "--seed" => {
                a.seed = need(i).parse::<i64>().map(|x| x as u64).unwrap_or_else(|_| die(2, "bad --seed"));
                i += 1;
            }
            "--workers" => {
                a.workers = need(i).parse().unwrap_or_else(|_| die(2, "bad --workers"));
                i += 1;
            }
            "--budget-s" => {
                a.budget_s = Some(need(i).parse().unwrap_or_else(|_| die(2, "bad --budget-s")));
                i += 1;
            }
            "--replay" => {
                a.replay = Some(PathBuf::from(need(i)));
                i += 1;
            }
            "--job" => {
                a.only_job = Some(need(i));
                i += 1;
            }
            "--worker" => {
                let idx = need(i).parse().unwrap_or_else(|_| die(2, "bad --worker"));
                let ctl = PathBuf::from(v.get(i + 2).cloned().unwrap_or_else(|| die(2, "--worker idx ctl frag")));
                let frag = PathBuf::from(v.get(i + 3).cloned().unwrap_or_else(|| die(2, "--worker idx ctl frag")));
                a.worker = Some((idx, ctl, frag));
                i += 3;
            }
            "--list-jobs" => a.list_jobs = true,
            "--no-evidence" => a.no_evidence = true,
            x => die(2, &format!("unknown argument {}", x)),
        }
        i += 1;
    }
    a
}

fn die(code: i32, msg: &str) -> ! {
    eprintln!("MACHINERY-ERROR: {}", msg);
    std::process::exit(code)
}

pub fn main<H: Harness>(h: H) {
    guard::install_quiet_hook();
    let a = parse_args();
    if let Some(path) = &a.replay {
        std::process::exit(replay_file(&h, path));
    }
    if let Some((idx, ctl, frag)) = &a.worker {
        std::process::exit(worker_main(&h, &a, *idx, ctl, frag));
    }
    let plan = h.plan(a.tier, a.seed);
    if a.list_jobs {
        for (i, j) in plan.jobs.iter().enumerate() {
            println!("{} {} {}", i, j.name, j.params);
        }
        return;
    }
    std::process::exit(parent_main(h, a, plan));
}

// ------------------------------------------------------------------------------------------------
// worker

/// Address-space cap for processes that run the code under test (workers and replays): a runaway
/// allocation then aborts that one process (reported as a crash of the exact case) instead of
/// exhausting the machine. MC_WORKER_MEM_GB overrides the default of 3 GiB (16 workers x 3 GiB stays below the 62 GB of the box).
fn limit_memory() {
    let gb: u64 = std::env::var("MC_WORKER_MEM_GB").ok().and_then(|s| s.parse().ok()).unwrap_or(3);
    let lim = libc::rlimit { rlim_cur: gb << 30, rlim_max: gb << 30 };
    unsafe {
        libc::setrlimit(libc::RLIMIT_AS, &lim);
    }
}

fn worker_main<H: Harness>(h: &H, a: &Args, idx: usize, ctl_path: &Path, frag: &Path) -> i32 {
    limit_memory();
    let plan = h.plan(a.tier, a.seed);
    let jobs = filter_jobs(plan.jobs, &a.only_job);
    let ctl = Ctl::open(ctl_path, a.workers, false).unwrap_or_else(|e| die(2, &format!("worker: cannot map control file: {}", e)));
    let mut out = std::io::BufWriter::new(std::fs::File::create(frag).unwrap_or_else(|e| die(2, &format!("worker: {}", e))));
    let mut digests: HashSet<u64> = HashSet::new();
    let mut capped = false;
    loop {
        let dl = ctl.deadline_ms();
        if ctl.stop() || (dl != 0 && now_ms() > dl) {
            break;
        }
        let j = ctl.next_job() as usize;
        if j >= jobs.len() {
            break;
        }
        let mut w = WorkerCtx { ctl: Some(&ctl), worker: idx, digests: &mut digests, digest_cap: 3_000_000, digests_capped: &mut capped, samples_per_job: 1 };
        match explore::explore_job(h, &jobs[j], j, &mut w) {
            Ok(st) => {
                serde_json::to_writer(&mut out, &json!({"job": st})).ok();
                out.write_all(b"\n").ok();
                out.flush().ok();
            }
            Err(e) => {
                serde_json::to_writer(&mut out, &json!({"fatal": e})).ok();
                out.write_all(b"\n").ok();
                out.flush().ok();
                return 2;
            }
        }
    }
    let ds: Vec<u64> = digests.into_iter().collect();
    serde_json::to_writer(&mut out, &json!({"digests": ds, "digests_capped": capped})).ok();
    out.write_all(b"\n").ok();
    out.flush().ok();
    0
}

fn filter_jobs(jobs: Vec<Job>, only: &Option<String>) -> Vec<Job> {
    match only {
        None => jobs,
        Some(pat) => jobs.into_iter().filter(|j| j.name.contains(pat.as_str())).collect(),
    }
}

// ------------------------------------------------------------------------------------------------
// replay

#[derive(serde::Serialize, serde::Deserialize)]
struct ReplayFile {
    property: String,
    site: String,
    what: String,
    job: Job,
    choices: Vec<u32>,
    #[serde(default)]
    kind: String,
    #[serde(default)]
    description: Value,
    #[serde(default)]
    detail: Value,
    #[serde(default)]
    note: String,
}

/// Re-execute one recorded case without the explorer. Prints what it sees; exit 1 if any violation
/// is reproduced, 0 if the case passes.
fn replay_file<H: Harness>(h: &H, path: &Path) -> i32 {
    limit_memory();
    let txt = std::fs::read_to_string(path).unwrap_or_else(|e| die(2, &format!("cannot read {}: {}", path.display(), e)));
    let rf: ReplayFile = serde_json::from_str(&txt).unwrap_or_else(|e| die(2, &format!("bad replay file: {}", e)));
    let ex = explore::run_once(h, &rf.job, &rf.choices, &[], true);
    if let Some(d) = &ex.divergence {
        println!("REPLAY-RESULT {}", json!({"divergence": d}));
        eprintln!("MACHINERY-ERROR: {}", d);
        return 2;
    }
    let sites: Vec<Value> = ex.viols.iter().map(|v| json!({"site": v.site, "what": v.what})).collect();
    println!("case: {}", serde_json::to_string_pretty(&ex.description.clone().unwrap_or(Value::Null)).unwrap());
    for v in &ex.viols {
        println!("violation site={} : {}", v.site, v.what);
    }
    println!("REPLAY-RESULT {}", json!({"violations": sites, "digest": ex.digest}));
    if ex.viols.is_empty() {
        println!("replay: case passes");
        0
    } else {
        1
    }
}

fn run_replay_subprocess(path: &Path, deadline_ms: u64) -> Result<Value, String> {
    let exe = std::env::current_exe().map_err(|e| e.to_string())?;
    // stdout goes to a file, not a pipe: a long case description must not block the child
    let out_path = path.with_extension("replay-out");
    let out_file = std::fs::File::create(&out_path).map_err(|e| e.to_string())?;
    let mut child = Command::new(exe).arg("--replay").arg(path).stdout(Stdio::from(out_file)).stderr(Stdio::null()).spawn().map_err(|e| e.to_string())?;
    let t0 = now_ms();
    loop {
        match child.try_wait().map_err(|e| e.to_string())? {
            Some(status) => {
                let s = std::fs::read_to_string(&out_path).unwrap_or_default();
                std::fs::remove_file(&out_path).ok();
                if let Some(sig) = std::os::unix::process::ExitStatusExt::signal(&status) {
                    return Ok(json!({"crash": format!("signal {}", sig)}));
                }
                for line in s.lines() {
                    if let Some(r) = line.strip_prefix("REPLAY-RESULT ") {
                        return serde_json::from_str(r).map_err(|e| e.to_string());
                    }
                }
                return Ok(json!({"crash": format!("exit status {:?} without result", status.code())}));
            }
            None => {
                if now_ms() - t0 > deadline_ms {
                    child.kill().ok();
                    child.wait().ok();
                    std::fs::remove_file(&out_path).ok();
                    return Ok(json!({"hang": deadline_ms}));
                }
                std::thread::sleep(std::time::Duration::from_millis(5));
            }
        }
    }
}

// ------------------------------------------------------------------------------------------------
// parent

struct Abnormal {
    kind: String, // "hang" | "crash"
    job: usize,
    prefix: Vec<u32>,
    info: String,
}

fn parent_main<H: Harness>(h: H, a: Args, plan: crate::Plan) -> i32 {
    let id = h.id();
    let t_start = std::time::Instant::now();
    let jobs = filter_jobs(plan.jobs.clone(), &a.only_job);
    if jobs.is_empty() {
        die(2, "no jobs");
    }
    // MC_KF: development-only override of the known-findings file (never set by registered commands)
    let kf_path = std::env::var("MC_KF").map(PathBuf::from).unwrap_or_else(|_| Path::new(VERIF).join("known_findings.txt"));
    let findings = kf::load(&kf_path).unwrap_or_else(|e| die(2, &e));
    let run_dir = Path::new(VERIF).join("run").join(format!("{}-{}", id, std::process::id()));
    std::fs::create_dir_all(&run_dir).unwrap_or_else(|e| die(2, &format!("cannot create {}: {}", run_dir.display(), e)));
    let ctl_path = run_dir.join("ctl");
    let workers = a.workers.max(1).min(jobs.len().max(1));
    let ctl = Ctl::open(&ctl_path, a.workers.max(1), true).unwrap_or_else(|e| die(2, &format!("cannot create control file: {}", e)));
    let budget_s = a.budget_s.unwrap_or(plan.budget_s);
    ctl.set_deadline_ms(now_ms() + budget_s * 1000);

    // E2 searches run in a thread of the parent, next to the E1 workers
    let h = std::sync::Arc::new(h);
    let h2 = h.clone();
    let (tier, seed) = (a.tier, a.seed);
    let extra_thread = if a.only_job.is_none() {
        Some(std::thread::Builder::new().stack_size(256 << 20).spawn(move || guard::guard(|| h2.extra(tier, seed))).unwrap())
    } else {
        None
    };

    let exe = std::env::current_exe().unwrap_or_else(|e| die(2, &e.to_string()));
    let spawn = |idx: usize, generation: usize| -> (Child, PathBuf) {
        let frag = run_dir.join(format!("frag-{}-{}.jsonl", idx, generation));
        let mut c = Command::new(&exe);
        c.arg("--tier").arg(a.tier.name()).arg("--seed").arg((a.seed as i64).to_string()).arg("--workers").arg(a.workers.max(1).to_string());
        if let Some(j) = &a.only_job {
            c.arg("--job").arg(j);
        }
        c.arg("--worker").arg(idx.to_string()).arg(&ctl_path).arg(&frag);
        c.stdout(Stdio::null()).stderr(Stdio::inherit());
        (c.spawn().unwrap_or_else(|e| die(2, &format!("cannot spawn worker: {}", e))), frag)
    };
    let mut live: Vec<Option<(Child, usize)>> = Vec::new();
    let mut frags: Vec<PathBuf> = Vec::new();
    for w in 0..workers {
        let (c, f) = spawn(w, 0);
        live.push(Some((c, 0)));
        frags.push(f);
    }
    let mut abnormal: Vec<Abnormal> = Vec::new();
    let mut machinery: Vec<String> = Vec::new();
    let mut respawns = 0usize;
    let mut seen_case: Vec<Option<(u64, u64)>> = vec![None; workers];
    loop {
        let mut any = false;
        for w in 0..live.len() {
            let Some((child, generation)) = live[w].as_mut() else { continue };
            any = true;
            let generation = *generation;
            match child.try_wait() {
                Ok(Some(status)) => {
                    let cur = ctl.current(w);
                    live[w] = None;
                    if status.success() {
                        continue;
                    }
                    if status.code() == Some(2) {
                        machinery.push(format!("worker {} reported a machinery failure", w));
                        ctl.set_stop();
                        continue;
                    }
                    let info = match std::os::unix::process::ExitStatusExt::signal(&status) {
                        Some(s) => format!("worker killed by signal {}", s),
                        None => format!("worker exited with status {:?}", status.code()),
                    };
                    match cur {
                        Some((_, job, prefix)) => abnormal.push(Abnormal { kind: "crash".into(), job: job as usize, prefix, info }),
                        None => machinery.push(format!("worker {} died outside any case: {}", w, info)),
                    }
                    ctl.idle(w);
                    if respawns < 8 {
                        respawns += 1;
                        let (c, f) = spawn(w, generation + 1);
                        live[w] = Some((c, generation + 1));
                        frags.push(f);
                    }
                }
                Ok(None) => {
                    if let Some((t, job, prefix)) = ctl.current(w) {
                        // a case is declared hung when it has been running longer than the deadline in
                        // wall time AND its worker has burnt at least half the deadline in CPU time on it
                        // (a starved worker on an overloaded machine is not a hang); hard cap 10x deadline
                        let pid = child.id();
                        if seen_case[w].map(|(st, _)| st) != Some(t) {
                            seen_case[w] = Some((t, proc_cpu_ms(pid)));
                        }
                        let wall = now_ms().saturating_sub(t);
                        let cpu_used = proc_cpu_ms(pid).saturating_sub(seen_case[w].map(|(_, c)| c).unwrap_or(0));
                        if wall > plan.case_deadline_ms && (cpu_used * 2 >= plan.case_deadline_ms || wall > 10 * plan.case_deadline_ms) {
                            child.kill().ok();
                            child.wait().ok();
                            live[w] = None;
                            ctl.idle(w);
                            abnormal.push(Abnormal {
                                kind: "hang".into(),
                                job: job as usize,
                                prefix,
                                info: format!("no result within the per-case deadline of {} ms", plan.case_deadline_ms),
                            });
                            if respawns < 8 {
                                respawns += 1;
                                let (c, f) = spawn(w, generation + 1);
                                live[w] = Some((c, generation + 1));
                                frags.push(f);
                            }
                        }
                    }
                }
                Err(e) => {
                    machinery.push(format!("wait failed: {}", e));
                    live[w] = None;
                }
            }
        }
        if !any {
            break;
        }
        std::thread::sleep(std::time::Duration::from_millis(20));
    }

    // ---- merge fragments
    let mut stats: Vec<JobStats> = Vec::new();
    let mut digests: HashSet<u64> = HashSet::new();
    let mut digests_capped = false;
    for f in &frags {
        let Ok(file) = std::fs::File::open(f) else { continue };
        for line in std::io::BufReader::new(file).lines().map_while(Result::ok) {
            let Ok(v) = serde_json::from_str::<Value>(&line) else {
                machinery.push(format!("unparsable fragment line in {}", f.display()));
                continue;
            };
            if let Some(j) = v.get("job") {
                match serde_json::from_value::<JobStats>(j.clone()) {
                    Ok(st) => stats.push(st),
                    Err(e) => machinery.push(format!("bad job stats: {}", e)),
                }
            } else if let Some(e) = v.get("fatal") {
                machinery.push(e.as_str().unwrap_or("fatal").to_string());
            } else if let Some(ds) = v.get("digests") {
                for d in ds.as_array().into_iter().flatten() {
                    if let Some(x) = d.as_u64() {
                        digests.insert(x);
                    }
                }
                digests_capped |= v["digests_capped"].as_bool().unwrap_or(false);
            }
        }
    }
    stats.sort_by_key(|s| s.job_index);
    let extras = match extra_thread.map(|t| t.join()) {
        None => Vec::new(),
        Some(Ok(Ok(v))) => v,
        Some(Ok(Err(p))) => {
            machinery.push(format!("explicit-state search panicked: {}", p.brief()));
            Vec::new()
        }
        Some(Err(_)) => {
            machinery.push("explicit-state search thread died".into());
            Vec::new()
        }
    };

    // ---- totals
    let mut sites: BTreeMap<String, SiteStat> = BTreeMap::new();
    let mut counters: BTreeMap<String, u64> = BTreeMap::new();
    let mut samples: Vec<Value> = Vec::new();
    let (mut execs, mut transitions, mut nontrivial, mut max_depth) = (0u64, 0u64, 0u64, 0usize);
    let mut truncated_jobs: Vec<String> = Vec::new();
    let mut dev_bounds: BTreeMap<String, u64> = BTreeMap::new();
    let done: HashSet<usize> = stats.iter().map(|s| s.job_index).collect();
    for st in &stats {
        execs += st.execs;
        transitions += st.transitions;
        nontrivial += st.nontrivial;
        max_depth = max_depth.max(st.max_depth);
        if st.truncated {
            truncated_jobs.push(st.name.clone());
        }
        if let Some(b) = st.dev_bound {
            *dev_bounds.entry(b.to_string()).or_insert(0) += 1;
        }
        for (k, v) in &st.counters {
            *counters.entry(k.clone()).or_insert(0) += v;
        }
        for (k, v) in &st.sites {
            merge_site(&mut sites, k, v);
        }
        if samples.len() < 6 {
            samples.extend(st.samples.iter().cloned());
        }
    }
    let not_started: Vec<String> = (0..jobs.len()).filter(|i| !done.contains(i)).map(|i| jobs[i].name.clone()).collect();
    let (mut e2_states, mut e2_transitions) = (0u64, 0u64);
    let mut e2_summ: Vec<Value> = Vec::new();
    let mut e2_incomplete = false;
    for ex in &extras {
        e2_states += ex.states;
        e2_transitions += ex.transitions;
        e2_incomplete |= !ex.complete;
        for (k, v) in &ex.counters {
            *counters.entry(k.clone()).or_insert(0) += v;
        }
        for (k, v) in &ex.sites {
            merge_site(&mut sites, k, v);
        }
        samples.extend(ex.samples.iter().take(2).cloned());
        e2_summ.push(json!({"search": ex.name, "states": ex.states, "transitions": ex.transitions, "max_depth": ex.max_depth, "complete": ex.complete}));
    }

    // ---- abnormal worker exits: confirm by replay
    let replay_dir = Path::new(VERIF).join("replays").join(id);
    std::fs::create_dir_all(&replay_dir).ok();
    let mut unknown: Vec<(String, PathBuf)> = Vec::new();
    let mut known_seen: Vec<Value> = Vec::new();
    for ab in &abnormal {
        let job = jobs.get(ab.job).cloned().unwrap_or_else(|| Job::new("?", Value::Null));
        let site = format!("termination.{}:{}", ab.kind, job.name);
        let rf = ReplayFile {
            property: id.to_string(),
            site: site.clone(),
            what: ab.info.clone(),
            job,
            choices: ab.prefix.clone(),
            kind: ab.kind.clone(),
            description: Value::Null,
            detail: Value::Null,
            note: "the case is the prefix followed by default (0) choices".into(),
        };
        let path = replay_dir.join(format!("{:016x}.json", crate::hash::h_str(&format!("{}{:?}", site, ab.prefix))));
        std::fs::write(&path, serde_json::to_string_pretty(&rf).unwrap()).ok();
        let r = run_replay_subprocess(&path, plan.case_deadline_ms);
        let reproduced = matches!(&r, Ok(v) if v.get("hang").is_some() || v.get("crash").is_some());
        if reproduced {
            if findings.iter().any(|f| !f.fixed && f.property == id && f.site == site) {
                println!("KNOWN-FINDING: property={} site={} {}", id, site, ab.info);
                known_seen.push(json!({"site": site, "count": 1}));
            } else {
                println!("VIOLATION property={} replay={}", id, path.display());
                println!("  site={} : {} (reproduced in a fresh process)", site, ab.info);
                unknown.push((site, path));
            }
        } else {
            machinery.push(format!("{} in job {} at prefix {:?} did not reproduce in a fresh process ({:?})", ab.kind, ab.job, ab.prefix, r));
        }
    }

    // ---- triage of oracle violations
    for (site, st) in &sites {
        if let Some(f) = findings.iter().find(|f| !f.fixed && f.property == id && &f.site == site) {
            println!("KNOWN-FINDING: property={} site={} {} [{} case(s) in this run; first: {}]", id, site, f.what, st.count, st.first.what);
            known_seen.push(json!({"site": site, "count": st.count}));
            continue;
        }
        let rf = ReplayFile {
            property: id.to_string(),
            site: site.clone(),
            what: st.first.what.clone(),
            job: st.first.job.clone(),
            choices: st.first.choices.clone(),
            kind: "oracle".into(),
            description: st.first.description.clone(),
            detail: st.first.detail.clone(),
            note: format!("{} case(s) with this site key in the run; this is the first in exploration order", st.count),
        };
        let path = replay_dir.join(format!("{:016x}.json", crate::hash::h_str(site)));
        if let Err(e) = std::fs::write(&path, serde_json::to_string_pretty(&rf).unwrap()) {
            machinery.push(format!("cannot write replay file: {}", e));
            continue;
        }
        // determinism: the same case must fail the same way twice, outside the explorer
        let r1 = run_replay_subprocess(&path, plan.case_deadline_ms.max(30_000));
        let r2 = run_replay_subprocess(&path, plan.case_deadline_ms.max(30_000));
        let has_site = |r: &Result<Value, String>| -> bool {
            match r {
                Ok(v) => v["violations"].as_array().map(|a| a.iter().any(|x| x["site"] == site.as_str())).unwrap_or(false) || v.get("crash").is_some() || v.get("hang").is_some(),
                Err(_) => false,
            }
        };
        if has_site(&r1) && has_site(&r2) && r1 == r2 {
            println!("VIOLATION property={} replay={}", id, path.display());
            println!("  site={} cases={} : {}", site, st.count, st.first.what);
            unknown.push((site.clone(), path));
        } else if st.first.nondet {
            // a determinism clause: the in-execution observation (same call twice, different results)
            // is the evidence; replays need not draw the same results again
            let k = [&r1, &r2].iter().filter(|r| has_site(r)).count();
            println!("VIOLATION property={} replay={}", id, path.display());
            println!("  site={} cases={} : {} [nondeterminism observed inside {} execution(s); {} of 2 replays showed it again]", site, st.count, st.first.what, st.count, k);
            unknown.push((site.clone(), path));
        } else {
            // The case did not fail the same way twice. Either the code under test depends on something
            // outside the recorded choices (hash iteration order, an unseeded generator that the seams
            // do not cover) or the observation was an artefact. Replay it up to 14 more times in fresh
            // processes: a violation that shows again is reported with its reproduction rate; one that
            // never shows again is a machinery failure, not a verdict.
            let mut shown = [&r1, &r2].iter().filter(|r| has_site(r)).count();
            let mut total = 2usize;
            while total < 16 {
                let r = run_replay_subprocess(&path, plan.case_deadline_ms.max(30_000));
                total += 1;
                if has_site(&r) {
                    shown += 1;
                }
                if shown >= 3 {
                    break;
                }
            }
            if shown >= 1 {
                println!("VIOLATION property={} replay={}", id, path.display());
                println!(
                    "  site={} cases={} : {} [NOT DETERMINISTIC: the same recorded case showed this violation in {} of {} fresh-process replays — the code under test depends on something outside the recorded choices]",
                    site, st.count, st.first.what, shown, total
                );
                unknown.push((site.clone(), path));
            } else {
                machinery.push(format!("violation at site {} did not reproduce in {} fresh-process replays: {:?} vs {:?}", site, total, r1, r2));
            }
        }
    }

    // ---- non-vacuity floors
    let complete_run = not_started.is_empty() && truncated_jobs.is_empty() && abnormal.is_empty() && !e2_incomplete;
    let mut floor_fail: Vec<String> = Vec::new();
    if a.only_job.is_none() && complete_run {
        for (name, min) in &plan.floors {
            let got = counters.get(*name).copied().unwrap_or(0);
            if got < *min {
                floor_fail.push(format!("{}={} < {}", name, got, min));
            }
        }
    }

    let states = execs + e2_states;
    let trans = transitions + e2_transitions;
    let distinct = digests.len() as u64 + extras.iter().map(|e| e.distinct_outcomes).sum::<u64>();
    let wall = t_start.elapsed().as_secs_f64();
    let mut caps: Vec<String> = STARTUP_CAPS.lock().unwrap().clone();
    if !not_started.is_empty() {
        caps.push(format!("wall budget {} s reached: {} of {} jobs not started (first: {})", budget_s, not_started.len(), jobs.len(), not_started[0]));
    }
    if !truncated_jobs.is_empty() {
        caps.push(format!("wall budget reached inside {} job(s) (first: {})", truncated_jobs.len(), truncated_jobs[0]));
    }
    let mut notes: Vec<String> = Vec::new();
    if digests_capped {
        notes.push("outcome-digest set capped at 3,000,000 per worker: distinct_nontrivial is a lower bound (coverage itself is not affected)".into());
    }
    if e2_incomplete {
        caps.push("explicit-state search hit its state cap".into());
    }
    if !abnormal.is_empty() {
        caps.push(format!("{} job(s) cut short by a hang/crash of the code under test", abnormal.len()));
    }
    let evidence = json!({
        "property_id": id,
        "tier": a.tier.name(),
        "seed": a.seed as i64,
        "level": "model_checking",
        "coverage": {
            "states": states,
            "transitions": trans,
            "traces_validated_against_impl": states,
            "samples": samples,
            "evaluations": states,
            "distinct_nontrivial": distinct,
            "nontrivial_executions": nontrivial,
            "outcomes_distinct": distinct,
            "rule": h.rule(),
            "exhaustive": complete_run && caps.is_empty(),
            "engine": h.engine(),
            "bounds": plan.bounds,
            "caps_hit": caps,
            "notes": notes,
            "jobs_total": jobs.len(),
            "jobs_completed": stats.iter().filter(|s| !s.truncated).count(),
            "workers": workers,
            "max_choice_depth": max_depth,
            "deviation_bounds": dev_bounds,
            "e1_executions": execs,
            "e1_choice_edges": transitions,
            "e2_searches": e2_summ,
            "branch_counters": counters,
            "floors": plan.floors.iter().map(|(k, v)| json!({"counter": k, "min": v})).collect::<Vec<_>>(),
            "known_findings_seen": known_seen,
            "violation_sites": unknown.iter().map(|(s, p)| json!({"site": s, "replay": p})).collect::<Vec<_>>(),
            "explanation": "every execution is a run of the real library code on one fully determined (input, configuration, RNG schedule); traces_validated_against_impl equals states because the exploration itself runs on the implementation and each execution is judged by the reference oracle",
        },
        "assumptions": h.assumptions(),
        "wall_s": wall,
        "violations": unknown.len(),
    });
    if !a.no_evidence && a.only_job.is_none() {
        // MC_EVIDENCE_DIR: keep e.g. thorough-tier evidence next to the quick-tier files
        let evdir = std::env::var("MC_EVIDENCE_DIR").map(PathBuf::from).unwrap_or_else(|_| Path::new(VERIF).join("evidence"));
        std::fs::create_dir_all(&evdir).ok();
        let p = evdir.join(format!("{}.json", id));
        if let Err(e) = std::fs::write(&p, serde_json::to_string_pretty(&evidence).unwrap()) {
            machinery.push(format!("cannot write evidence: {}", e));
        }
    }
    println!(
        "{} tier={} seed={} executions={} choice_edges={} e2_states={} distinct_outcomes={} nontrivial={} jobs={}/{} wall={:.1}s violations={} known={}",
        id,
        a.tier.name(),
        a.seed as i64,
        execs,
        transitions,
        e2_states,
        distinct,
        nontrivial,
        stats.len(),
        jobs.len(),
        wall,
        unknown.len(),
        known_seen.len()
    );
    if std::env::var("MC_COUNTERS").is_ok() {
        for (k, v) in &counters {
            println!("  counter {} = {}", k, v);
        }
    }
    for c in evidence["coverage"]["caps_hit"].as_array().into_iter().flatten() {
        println!("  cap: {}", c.as_str().unwrap_or(""));
    }
    std::fs::remove_dir_all(&run_dir).ok();
    if !unknown.is_empty() {
        return 1;
    }
    if !machinery.is_empty() {
        for m in &machinery {
            eprintln!("MACHINERY-ERROR: {}", m);
        }
        return 2;
    }
    if !floor_fail.is_empty() {
        eprintln!("MACHINERY-ERROR: vacuity floors not met: {}", floor_fail.join(", "));
        return 2;
    }
    if states == 0 {
        eprintln!("MACHINERY-ERROR: nothing explored");
        return 2;
    }
    0
}

/// user + system CPU time of a process in milliseconds (from /proc/<pid>/stat; 0 if unreadable)
fn proc_cpu_ms(pid: u32) -> u64 {
    let Ok(s) = std::fs::read_to_string(format!("/proc/{}/stat", pid)) else { return 0 };
    // fields after the parenthesised command name: state is field 3, utime 14, stime 15
    let Some(rest) = s.rsplit(')').next() else { return 0 };
    let f: Vec<&str> = rest.split_whitespace().collect();
    let ticks: u64 = f.get(11).and_then(|x| x.parse::<u64>().ok()).unwrap_or(0) + f.get(12).and_then(|x| x.parse::<u64>().ok()).unwrap_or(0);
    let hz = unsafe { libc::sysconf(libc::_SC_CLK_TCK) }.max(1) as u64;
    ticks * 1000 / hz
}

fn merge_site(sites: &mut BTreeMap<String, SiteStat>, k: &str, v: &SiteStat) {
    match sites.get_mut(k) {
        Some(s) => {
            s.count += v.count;
        }
        None => {
            sites.insert(k.to_string(), v.clone());
        }
    }
}

#[allow(dead_code)]
fn _unused(_: FirstViol) {}
