//! Reference numerics (filled in below).
