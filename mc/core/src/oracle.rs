//! Reference numerics for the oracles. Boring, slow, obviously right; shares no code with the
//! library under test. Matrices are `Vec<Vec<f64>>` in row-major order (`Mat`), or `Vec<Vec<i128>>`
//! for exact integer arithmetic.

pub type Mat = Vec<Vec<f64>>;
pub type IMat = Vec<Vec<i128>>;

pub fn zeros(r: usize, c: usize) -> Mat {
    vec![vec![0.0; c]; r]
}

pub fn eye(n: usize) -> Mat {
    let mut m = zeros(n, n);
    for i in 0..n {
        m[i][i] = 1.0;
    }
    m
}

pub fn shape(a: &Mat) -> (usize, usize) {
    (a.len(), if a.is_empty() { 0 } else { a[0].len() })
}

pub fn transpose(a: &Mat) -> Mat {
    let (r, c) = shape(a);
    let mut t = zeros(c, r);
    for i in 0..r {
        for j in 0..c {
            t[j][i] = a[i][j];
        }
    }
    t
}

pub fn matmul(a: &Mat, b: &Mat) -> Mat {
    let (r, k) = shape(a);
    let (k2, c) = shape(b);
    assert_eq!(k, k2, "oracle matmul shape");
    let mut m = zeros(r, c);
    for i in 0..r {
        for j in 0..c {
            let mut s = 0.0;
            for l in 0..k {
                s += a[i][l] * b[l][j];
            }
            m[i][j] = s;
        }
    }
    m
}

pub fn sub(a: &Mat, b: &Mat) -> Mat {
    assert_eq!(shape(a), shape(b), "oracle sub shape");
    a.iter().zip(b).map(|(x, y)| x.iter().zip(y).map(|(p, q)| p - q).collect()).collect()
}

pub fn scale(a: &Mat, s: f64) -> Mat {
    a.iter().map(|r| r.iter().map(|x| x * s).collect()).collect()
}

pub fn max_abs(a: &Mat) -> f64 {
    a.iter().flat_map(|r| r.iter()).fold(0.0f64, |m, x| if x.is_nan() { f64::INFINITY } else { m.max(x.abs()) })
}

pub fn fro(a: &Mat) -> f64 {
    let m = max_abs(a);
    if m == 0.0 || !m.is_finite() {
        return m;
    }
    m * a.iter().flat_map(|r| r.iter()).map(|x| (x / m) * (x / m)).sum::<f64>().sqrt()
}

pub fn all_finite(a: &Mat) -> bool {
    a.iter().all(|r| r.iter().all(|x| x.is_finite()))
}

pub fn diag(d: &[f64]) -> Mat {
    let n = d.len();
    let mut m = zeros(n, n);
    for i in 0..n {
        m[i][i] = d[i];
    }
    m
}

pub fn col(a: &Mat, j: usize) -> Vec<f64> {
    a.iter().map(|r| r[j]).collect()
}

pub fn dot(a: &[f64], b: &[f64]) -> f64 {
    a.iter().zip(b).map(|(x, y)| x * y).sum()
}

pub fn norm2(a: &[f64]) -> f64 {
    let m = a.iter().fold(0.0f64, |m, x| m.max(x.abs()));
    if m == 0.0 || !m.is_finite() {
        return m;
    }
    m * a.iter().map(|x| (x / m) * (x / m)).sum::<f64>().sqrt()
}

/// max |(AᵀA − I)_{ij}| : departure of the columns of A from orthonormality
pub fn orth_defect(a: &Mat) -> f64 {
    let g = matmul(&transpose(a), a);
    let n = g.len();
    max_abs(&sub(&g, &eye(n)))
}

// ------------------------------------------------------------------------------------------------
// exact integer linear algebra (fraction-free Bareiss elimination, i128)

pub fn to_imat(a: &Mat) -> Option<IMat> {
    a.iter()
        .map(|r| r.iter().map(|x| if x.fract() == 0.0 && x.abs() < 1e15 { Some(*x as i128) } else { None }).collect::<Option<Vec<_>>>())
        .collect()
}

/// Exact determinant of a square integer matrix.
pub fn idet(a: &IMat) -> i128 {
    let n = a.len();
    if n == 0 {
        return 1;
    }
    let mut m = a.clone();
    let mut sign = 1i128;
    let mut prev = 1i128;
    for k in 0..n - 1 {
        if m[k][k] == 0 {
            match (k + 1..n).find(|&i| m[i][k] != 0) {
                Some(i) => {
                    m.swap(k, i);
                    sign = -sign;
                }
                None => return 0,
            }
        }
        for i in k + 1..n {
            for j in k + 1..n {
                m[i][j] = (m[i][j] * m[k][k] - m[i][k] * m[k][j]) / prev;
            }
        }
        prev = m[k][k];
    }
    sign * m[n - 1][n - 1]
}

fn gcd(a: i128, b: i128) -> i128 {
    let (mut a, mut b) = (a.abs(), b.abs());
    while b != 0 {
        let t = a % b;
        a = b;
        b = t;
    }
    a
}

/// Exact reduced row echelon form over the rationals, kept as integer rows (each row scaled to be
/// primitive). Returns (rref rows, pivot columns).
pub fn irref(a: &IMat) -> (IMat, Vec<usize>) {
    let r = a.len();
    let c = if r == 0 { 0 } else { a[0].len() };
    let mut m = a.clone();
    let mut pivots = Vec::new();
    let mut row = 0;
    for colj in 0..c {
        if row >= r {
            break;
        }
        let Some(p) = (row..r).find(|&i| m[i][colj] != 0) else { continue };
        m.swap(row, p);
        for i in 0..r {
            if i != row && m[i][colj] != 0 {
                let (f, g) = (m[row][colj], m[i][colj]);
                for j in 0..c {
                    m[i][j] = m[i][j] * f - m[row][j] * g;
                }
                let d = m[i].iter().fold(0, |d, x| gcd(d, *x));
                if d > 1 {
                    m[i].iter_mut().for_each(|x| *x /= d);
                }
            }
        }
        let d = m[row].iter().fold(0, |d, x| gcd(d, *x));
        if d > 1 {
            m[row].iter_mut().for_each(|x| *x /= d);
        }
        pivots.push(colj);
        row += 1;
    }
    (m, pivots)
}

pub fn irank(a: &IMat) -> usize {
    irref(a).1.len()
}

/// Integer basis of the null space {x : A x = 0}.
pub fn inullspace(a: &IMat) -> Vec<Vec<i128>> {
    let c = if a.is_empty() { 0 } else { a[0].len() };
    let (m, piv) = irref(a);
    let free: Vec<usize> = (0..c).filter(|j| !piv.contains(j)).collect();
    let mut basis = Vec::new();
    for &f in &free {
        // x_f = L (lcm of pivot entries), x_piv = -m[row][f] * L / m[row][piv]
        let mut l = 1i128;
        for (row, &p) in piv.iter().enumerate() {
            if m[row][f] != 0 {
                let d = m[row][p].abs();
                l = l / gcd(l, d) * d;
            }
        }
        let mut x = vec![0i128; c];
        x[f] = l;
        for (row, &p) in piv.iter().enumerate() {
            x[p] = -m[row][f] * l / m[row][p];
        }
        basis.push(x);
    }
    basis
}

/// Exact inverse as (adjugate, determinant): A⁻¹ = adj / det. None when singular.
pub fn iinverse(a: &IMat) -> Option<(IMat, i128)> {
    let n = a.len();
    let det = idet(a);
    if det == 0 {
        return None;
    }
    let mut adj = vec![vec![0i128; n]; n];
    for i in 0..n {
        for j in 0..n {
            let minor: IMat = (0..n).filter(|&r| r != i).map(|r| (0..n).filter(|&c| c != j).map(|c| a[r][c]).collect()).collect();
            let s = if (i + j) % 2 == 0 { 1 } else { -1 };
            adj[j][i] = s * idet(&minor);
        }
    }
    Some((adj, det))
}

/// Exact infinity-norm condition number ‖A‖∞‖A⁻¹‖∞ of an integer matrix.
pub fn icond_inf(a: &IMat) -> Option<f64> {
    let (adj, det) = iinverse(a)?;
    let na = a.iter().map(|r| r.iter().map(|x| x.abs()).sum::<i128>()).max().unwrap_or(0);
    let ni = adj.iter().map(|r| r.iter().map(|x| x.abs()).sum::<i128>()).max().unwrap_or(0);
    Some(na as f64 * ni as f64 / det.abs() as f64)
}

/// All leading principal minors of a square integer matrix.
pub fn ileading_minors(a: &IMat) -> Vec<i128> {
    (1..=a.len()).map(|k| idet(&a.iter().take(k).map(|r| r[..k].to_vec()).collect())).collect()
}

// ------------------------------------------------------------------------------------------------
// floating-point references

/// Cyclic Jacobi for a symmetric matrix: (eigenvalues in non-increasing order, eigenvectors as columns).
pub fn jacobi_eig(a: &Mat) -> (Vec<f64>, Mat) {
    let n = a.len();
    let mut m = a.clone();
    let mut v = eye(n);
    for _sweep in 0..100 {
        let mut off = 0.0;
        for i in 0..n {
            for j in 0..n {
                if i != j {
                    off += m[i][j] * m[i][j];
                }
            }
        }
        let scale: f64 = (0..n).map(|i| m[i][i] * m[i][i]).sum::<f64>() + off;
        if off <= 1e-32 * scale || off == 0.0 {
            break;
        }
        for p in 0..n {
            for q in p + 1..n {
                if m[p][q] == 0.0 {
                    continue;
                }
                let theta = (m[q][q] - m[p][p]) / (2.0 * m[p][q]);
                let t = theta.signum() / (theta.abs() + (theta * theta + 1.0).sqrt());
                let t = if theta == 0.0 { 1.0 } else { t };
                let c = 1.0 / (t * t + 1.0).sqrt();
                let s = t * c;
                for k in 0..n {
                    let (akp, akq) = (m[k][p], m[k][q]);
                    m[k][p] = c * akp - s * akq;
                    m[k][q] = s * akp + c * akq;
                }
                for k in 0..n {
                    let (apk, aqk) = (m[p][k], m[q][k]);
                    m[p][k] = c * apk - s * aqk;
                    m[q][k] = s * apk + c * aqk;
                }
                for k in 0..n {
                    let (vkp, vkq) = (v[k][p], v[k][q]);
                    v[k][p] = c * vkp - s * vkq;
                    v[k][q] = s * vkp + c * vkq;
                }
            }
        }
    }
    let mut idx: Vec<usize> = (0..n).collect();
    idx.sort_by(|&i, &j| m[j][j].partial_cmp(&m[i][i]).unwrap_or(std::cmp::Ordering::Equal));
    let d: Vec<f64> = idx.iter().map(|&i| m[i][i]).collect();
    let mut vs = zeros(n, n);
    for (newj, &oldj) in idx.iter().enumerate() {
        for k in 0..n {
            vs[k][newj] = v[k][oldj];
        }
    }
    (d, vs)
}

/// Singular values (non-increasing) via the eigenvalues of the smaller Gram matrix computed by
/// one-sided Jacobi (Hestenes) on the columns — accurate for small singular values too.
pub fn singular_values(a: &Mat) -> Vec<f64> {
    let (r, c) = shape(a);
    let mut u = if r >= c { a.clone() } else { transpose(a) };
    let (rr, cc) = shape(&u);
    for _sweep in 0..100 {
        let mut rotated = false;
        for p in 0..cc {
            for q in p + 1..cc {
                let (mut alpha, mut beta, mut gamma) = (0.0, 0.0, 0.0);
                for k in 0..rr {
                    alpha += u[k][p] * u[k][p];
                    beta += u[k][q] * u[k][q];
                    gamma += u[k][p] * u[k][q];
                }
                if gamma == 0.0 || gamma.abs() <= 1e-16 * (alpha * beta).sqrt() {
                    continue;
                }
                rotated = true;
                let zeta = (beta - alpha) / (2.0 * gamma);
                let t = if zeta == 0.0 { 1.0 } else { zeta.signum() / (zeta.abs() + (1.0 + zeta * zeta).sqrt()) };
                let cs = 1.0 / (1.0 + t * t).sqrt();
                let sn = cs * t;
                for k in 0..rr {
                    let (x, y) = (u[k][p], u[k][q]);
                    u[k][p] = cs * x - sn * y;
                    u[k][q] = sn * x + cs * y;
                }
            }
        }
        if !rotated {
            break;
        }
    }
    let mut s: Vec<f64> = (0..cc).map(|j| norm2(&col(&u, j))).collect();
    s.sort_by(|a, b| b.partial_cmp(a).unwrap_or(std::cmp::Ordering::Equal));
    s
}

/// 2-norm condition number (∞ when singular).
pub fn cond2(a: &Mat) -> f64 {
    let s = singular_values(a);
    match (s.first(), s.last()) {
        (Some(&hi), Some(&lo)) if lo > 0.0 => hi / lo,
        _ => f64::INFINITY,
    }
}

/// Solve the square system A x = b by Gaussian elimination with complete pivoting. None if singular.
pub fn solve(a: &Mat, b: &[f64]) -> Option<Vec<f64>> {
    let n = a.len();
    let mut m: Mat = a.iter().zip(b).map(|(r, bi)| {
        let mut r = r.clone();
        r.push(*bi);
        r
    }).collect();
    let mut colperm: Vec<usize> = (0..n).collect();
    for k in 0..n {
        let (mut pi, mut pj, mut best) = (k, k, 0.0);
        for i in k..n {
            for j in k..n {
                if m[i][j].abs() > best {
                    best = m[i][j].abs();
                    pi = i;
                    pj = j;
                }
            }
        }
        if best == 0.0 {
            return None;
        }
        m.swap(k, pi);
        if pj != k {
            for row in m.iter_mut() {
                row.swap(k, pj);
            }
            colperm.swap(k, pj);
        }
        for i in k + 1..n {
            let f = m[i][k] / m[k][k];
            if f != 0.0 {
                for j in k..=n {
                    m[i][j] -= f * m[k][j];
                }
            }
        }
    }
    let mut y = vec![0.0; n];
    for k in (0..n).rev() {
        let mut s = m[k][n];
        for j in k + 1..n {
            s -= m[k][j] * y[j];
        }
        y[k] = s / m[k][k];
    }
    let mut x = vec![0.0; n];
    for k in 0..n {
        x[colperm[k]] = y[k];
    }
    Some(x)
}

/// Least-squares solution of min ‖A x − b‖ via the normal equations solved with complete pivoting
/// (adequate for the small, well-conditioned reference problems it is used on).
pub fn lstsq(a: &Mat, b: &[f64]) -> Option<Vec<f64>> {
    let at = transpose(a);
    let ata = matmul(&at, a);
    let atb: Vec<f64> = at.iter().map(|r| dot(r, b)).collect();
    solve(&ata, &atb)
}

pub fn logsumexp(xs: &[f64]) -> f64 {
    let m = xs.iter().cloned().fold(f64::NEG_INFINITY, f64::max);
    if !m.is_finite() {
        return m;
    }
    m + xs.iter().map(|x| (x - m).exp()).sum::<f64>().ln()
}

pub fn mean(xs: &[f64]) -> f64 {
    xs.iter().sum::<f64>() / xs.len() as f64
}

/// Two-pass population variance.
pub fn var_pop(xs: &[f64]) -> f64 {
    let m = mean(xs);
    xs.iter().map(|x| (x - m) * (x - m)).sum::<f64>() / xs.len() as f64
}

pub fn eps_of(width: u8) -> f64 {
    if width == 32 {
        f32::EPSILON as f64
    } else {
        f64::EPSILON
    }
}

/// Iterate over all vectors in `alphabet^len` (odometer, first coordinate slowest), calling `f`.
pub fn for_each_tuple<T: Copy>(alphabet: &[T], len: usize, mut f: impl FnMut(&[T])) {
    let k = alphabet.len();
    if len == 0 {
        f(&[]);
        return;
    }
    let mut idx = vec![0usize; len];
    let mut cur: Vec<T> = vec![alphabet[0]; len];
    loop {
        f(&cur);
        let mut i = len;
        loop {
            if i == 0 {
                return;
            }
            i -= 1;
            idx[i] += 1;
            if idx[i] < k {
                cur[i] = alphabet[idx[i]];
                break;
            }
            idx[i] = 0;
            cur[i] = alphabet[0];
        }
    }
}

/// All permutations of 0..n in lexicographic order.
pub fn permutations(n: usize) -> Vec<Vec<usize>> {
    let mut out = Vec::new();
    let mut p: Vec<usize> = (0..n).collect();
    loop {
        out.push(p.clone());
        let Some(i) = (0..n.saturating_sub(1)).rev().find(|&i| p[i] < p[i + 1]) else { break };
        let j = (i + 1..n).rev().find(|&j| p[j] > p[i]).unwrap();
        p.swap(i, j);
        p[i + 1..].reverse();
    }
    out
}
